/-
  Nervus.Model.Eval — the value algebra of the expression evaluator
  (nervusdb-query/src/evaluator.rs and evaluator/evaluator_{equality,compare,numeric,arithmetic,membership}.rs).

  Every function names the Rust function it mirrors.  Parameters of the model (record `Env`):
    * `F : FArith`         the floating operations (never inspected by a theorem)
    * `temporalKey`        `parse_temporal_string` as seen by `compare_strings_with_temporal`: kind
                           (0 Date, 1 LocalTime, 2 Time, 3 LocalDateTime, 4 DateTime) and a key whose
                           lexicographic integer order is the order chrono gives values of that kind
    * `durationMap`, `temporalAdd/Sub`, `durationOp`   the duration/temporal arithmetic reached from
                           `+ - * /` (chrono calendar arithmetic: opaque)
  Import-free (core only).
-/
import Nervus.Model.Value
import Nervus.Model.Generated.Comparators
namespace Nervus
open Value

/-- key of a parsed temporal value; compared lexicographically -/
structure TKey where
  a : Int
  b : Int
  c : Int
  deriving Repr, DecidableEq, Inhabited

def TKey.cmp (x y : TKey) : Ordering :=
  (cmpInt x.a y.a).then ((cmpInt x.b y.b).then (cmpInt x.c y.c))

structure Env where
  F : FArith
  /-- `parse_temporal_string(s)` ↦ (kind, order key) -/
  temporalKey : Str → Option (Nat × TKey)
  /-- `duration_from_value(Value::Map(m)).is_some()` -/
  durationMap : List (Str × Value) → Bool
  /-- `add_temporal_string_with_duration(s, d).map(Value::String).unwrap_or(Value::Null)` -/
  temporalAdd : Str → Value → Value
  temporalSub : Str → Value → Value
  /-- duration ∘ duration / duration ∘ number results: 0 `+`, 1 `-`, 2 dur`*`num, 3 num`*`dur, 4 dur`/`num -/
  durationOp : Nat → Value → Value → Value

namespace Eval

def i64Min : Int := -9223372036854775808
def i64Max : Int := 9223372036854775807
/-- the `i128` result fits an `i64` -/
def inI64 (i : Int) : Bool := decide (i64Min ≤ i) && decide (i ≤ i64Max)
/-- `x as i64` for an `i128` (two's-complement wrap) -/
def wrapI64 (i : Int) : Int := ofU64 (toU64 i)

/-- `i as f64` on the value level -/
def castF (i : Int) : Nat := F64.ofIntBits i

def fNaN (b : Nat) : Bool := (F64.ofBits b).isNaN

/-- the comparison predicates handed to `compare_values` as closures -/
inductive CmpOp
  | lt | le | gt | ge
  deriving Repr, DecidableEq

/-- `|ord| ord.is_lt()` etc. -/
def CmpOp.test : CmpOp → Ordering → Bool
  | .lt, o => o == .lt
  | .le, o => o == .lt || o == .eq
  | .gt, o => o == .gt
  | .ge, o => o == .gt || o == .eq

section
variable (E : Env)

/-- mirrors `compare_strings_with_temporal` (evaluator_compare.rs): two strings that parse as temporal
    values of the SAME kind are compared as such, every other pair as text.  The temporal parse is attempted for
    EVERY pair: `Generated.stringCompareAlwaysParses` (table `Comparators`, regenerated; its recogniser fails when
    anything precedes the parse or when `order_compare_non_null` / `compare_values` stop handing strings to it). -/
def strCmp (l r : Str) : Ordering :=
  match E.temporalKey l, E.temporalKey r with
  | some (k, a), some (k', b) => if k = k' then TKey.cmp a b else cmpBytes l r
  | _, _ => cmpBytes l r

/-- exact three-way comparison of an `i64` with a non-NaN `f64`
    (mirrors `compare_int_float` of evaluator_compare.rs, added by the `fix:` commit for C23/C20):
    out-of-range floats decide by sign, otherwise compare with the truncation and then look at the
    dropped fraction.  Every step is exact. -/
def cmpIntFloat (i : Int) (f : F64) : Ordering :=
  -- `f >= 9223372036854775808.0`
  if F64.le (F64.ofBits 0x43E0000000000000) f then .lt
  -- `f < -9223372036854775808.0`
  else if F64.lt f (F64.ofBits 0xC3E0000000000000) then .gt
  else
    let t := F64.truncInt f           -- `f.trunc() as i64`, exact because |f| < 2^63
    if i < t then .lt else if t < i then .gt
    -- `i == t`: the sign of the dropped fraction decides (`f` vs `f.trunc()`)
    else if F64.lt (F64.exact t) f then .lt
    else if F64.lt f (F64.exact t) then .gt
    else .eq

/-- mirrors `compare_numeric` (evaluator_compare.rs, after the fix): `partial_cmp` of two numbers,
    Int/Int and Int/Float compared exactly; `none` iff a NaN is involved. -/
def numCmp : Value → Value → Option Ordering
  | .int l, .int r => some (cmpInt l r)
  | .int l, .float r => if fNaN r then none else some (cmpIntFloat l (F64.ofBits r))
  | .float l, .int r => if fNaN l then none else some ((cmpIntFloat r (F64.ofBits l)).swap)
  | .float l, .float r => F64.cmp (F64.ofBits l) (F64.ofBits r)
  | _, _ => none

/-- `compare_f64_with_nan` lifted to numbers: NaN is the greatest number, NaN ~ NaN
    (the number arms of `order_compare_non_null`). -/
def numCmpNanLast : Value → Value → Ordering
  | .int l, .int r => cmpInt l r
  | .int l, .float r => if fNaN r then .lt else cmpIntFloat l (F64.ofBits r)
  | .float l, .int r => if fNaN l then .gt else (cmpIntFloat r (F64.ofBits l)).swap
  | .float l, .float r => F64.cmpNanLast (F64.ofBits l) (F64.ofBits r)
  | _, _ => .eq

/-- `node_key` -/
def nodeKey : Value → Option Nat
  | .nodeId n => some n
  | .externalId n => some n
  | _ => none

/-- mirrors `compare_value_for_list_ordering`: null elements are the greatest; `nn` is the result of
    `order_compare_non_null(left, right)`, used only when neither side is null (a separate non-recursive
    function so that the mutual block below stays structurally recursive). -/
def listElemOrdering (x y : Value) (nn : Option Ordering) : Option Ordering :=
  match x, y with
  | .null, .null => some .eq
  | .null, _ => some .gt
  | _, .null => some .lt
  | _, _ => nn

mutual
/-- mirrors `order_compare_non_null` (evaluator_compare.rs). -/
def orderCompareNonNull : Value → Value → Option Ordering
  | .bool l, .bool r => some (cmpBool l r)
  | .int l, .int r => some (numCmpNanLast (.int l) (.int r))
  | .float l, .float r => some (numCmpNanLast (.float l) (.float r))
  | .int l, .float r => some (numCmpNanLast (.int l) (.float r))
  | .float l, .int r => some (numCmpNanLast (.float l) (.int r))
  | .str l, .str r => some (strCmp E l r)
  -- the `_` arm: different ranks decide, equal ranks go by kind
  | .map l, .map r => dcmpMap l r
  | .list l, .list r => compareListsOrdering l r
  | .dateTime l, .dateTime r => some (cmpInt l r)
  | .blob l, .blob r => some (cmpBytes l r)
  | .nodeId l, .nodeId r => some (cmpNat l r)
  | .nodeId l, .externalId r =>
    let rc := cmpNat Generated.rankNodeId Generated.rankExternalId
    if rc != .eq then some rc else some (cmpNat l r)
  | .externalId l, .nodeId r =>
    let rc := cmpNat Generated.rankExternalId Generated.rankNodeId
    if rc != .eq then some rc else some (cmpNat l r)
  | .externalId l, .externalId r => some (cmpNat l r)
  | .edgeKey l, .edgeKey r => some (cmpEKey l r)
  | .path n e, .path n' e' =>
    let o := cmpNatList n n'
    if o != .eq then some o else some (cmpEKeyList e e')
  | l, r =>
    let rc := cmpNat (rank l) (rank r)
    if rc != .eq then some rc else dcmp l r
/-- mirrors `compare_lists_ordering`. -/
def compareListsOrdering : List Value → List Value → Option Ordering
  | [], [] => some .eq
  | [], _ :: _ => some .lt
  | _ :: _, [] => some .gt
  | x :: xs, y :: ys =>
    match listElemOrdering x y (orderCompareNonNull x y) with
    | some .eq => compareListsOrdering xs ys
    | nonEq => nonEq
end

/-- mirrors `order_compare` (evaluator.rs): the ORDER BY / min / max comparator. -/
def orderCompare : Value → Value → Ordering
  | .null, .null => .eq
  | .null, _ => .gt
  | _, .null => .lt
  | l, r => (orderCompareNonNull E l r).getD .eq

/-- mirrors `compare_value_for_list_range` -/
def compareValueForListRange : Value → Value → Option Ordering
  | .null, .null => some .eq
  | .null, _ => none
  | _, .null => none
  | l, r => orderCompareNonNull E l r

/-- mirrors `compare_lists_for_range` -/
def compareListsForRange (op : CmpOp) : List Value → List Value → Value
  | [], [] => .bool (op.test .eq)
  | [], _ :: _ => .bool (op.test .lt)
  | _ :: _, [] => .bool (op.test .gt)
  | x :: xs, y :: ys =>
    match compareValueForListRange E x y with
    | some .eq => compareListsForRange op xs ys
    | some o => .bool (op.test o)
    | none => .null

/-- mirrors `compare_numbers_for_range` (after the fix: exact, no `as f64`). -/
def compareNumbersForRange (op : CmpOp) (l r : Value) : Value :=
  match l, r with
  | .int _, .int _ | .int _, .float _ | .float _, .int _ | .float _, .float _ =>
    match numCmp l r with
    | some o => .bool (op.test o)
    | none => .bool false       -- `if l.is_nan() || r.is_nan() { return Value::Bool(false) }`
  | _, _ => .null

/-- mirrors `compare_values` (evaluator_compare.rs): `<`, `<=`, `>`, `>=`. -/
def compareValues (op : CmpOp) : Value → Value → Value
  | .null, _ => .null
  | _, .null => .null
  | .int l, .int r => compareNumbersForRange op (.int l) (.int r)
  | .int l, .float r => compareNumbersForRange op (.int l) (.float r)
  | .float l, .int r => compareNumbersForRange op (.float l) (.int r)
  | .float l, .float r => compareNumbersForRange op (.float l) (.float r)
  | .bool l, .bool r => .bool (op.test (cmpBool l r))
  | .str l, .str r => .bool (op.test (strCmp E l r))
  | .list l, .list r => compareListsForRange E op l r
  | _, _ => .null

/-- mirrors `float_equals_int` (after the fix: exact). -/
def floatEqualsInt (f : Nat) (i : Int) : Bool :=
  let x := F64.ofBits f
  if x.isNaN || !x.isFinite then false else cmpIntFloat i x == .eq

/-- fold step shared by `cypher_equals_sequence` / `cypher_equals_map`:
    `false` wins immediately, otherwise a `null` is remembered (`saw_null`). -/
def eqStep (e : Value) (rest : Value) : Value :=
  match e with
  | .bool true => rest
  | .bool false => .bool false
  | .null =>
    match rest with
    | .bool false => .bool false
    | _ => .null
  | _ => .null

mutual
/-- mirrors `cypher_equals` (evaluator_equality.rs). -/
def cypherEquals : Value → Value → Value
  | .null, _ => .null
  | _, .null => .null
  | .int l, .int r => .bool (l == r)
  | .int l, .float r => .bool (floatEqualsInt r l)
  | .float l, .int r => .bool (floatEqualsInt l r)
  | .float l, .float r =>
    if fNaN l || fNaN r then .bool false else .bool (F64.eqv (F64.ofBits l) (F64.ofBits r))
  | .list l, .list r => if l.length != r.length then .bool false else cypherEqualsSeq l r
  | .map l, .map r => if l.length != r.length then .bool false else cypherEqualsMap l r
  | l, r => .bool (deq l r)
/-- mirrors the loop of `cypher_equals_sequence` over `left.iter().zip(right.iter())` (the length
    check is done by the caller, as in Rust).  NB the Rust loop returns `false` at the first unequal
    element even after a `null` was seen, and `Null` on a non-Bool/non-Null result (cannot happen):
    `eqStep`. -/
def cypherEqualsSeq : List Value → List Value → Value
  | x :: xs, y :: ys => eqStep (cypherEquals x y) (cypherEqualsSeq xs ys)
  | _, _ => .bool true
/-- mirrors the loop of `cypher_equals_map`: every entry of the left map is looked up in the right one. -/
def cypherEqualsMap : List (Str × Value) → List (Str × Value) → Value
  | [], _ => .bool true
  | (k, x) :: xs, r =>
    match lookup k r with
    | none => .bool false
    | some y => eqStep (cypherEquals x y) (cypherEqualsMap xs r)
end

/-- mirrors `numeric_binop` (evaluator_numeric.rs): THE integer-overflow rule —
    exact in `i128`; fits `i64` ⇒ `Int`, otherwise `Float` of the float operation on the casts. -/
def numericBinop (intOp : Int → Int → Int) (fOp : Nat → Nat → Nat) : Value → Value → Value
  | .null, _ => .null
  | _, .null => .null
  | .int l, .int r =>
    let o := intOp l r
    if inI64 o then .int o else .float (fOp (castF l) (castF r))
  | .int l, .float r => .float (fOp (castF l) r)
  | .float l, .int r => .float (fOp l (castF r))
  | .float l, .float r => .float (fOp l r)
  | _, _ => .null

/-- mirrors `numeric_div`: integer division truncates; `i64::MIN / -1` (`checked_div` = None) ⇒ Float. -/
def numericDiv : Value → Value → Value
  | .null, _ => .null
  | _, .null => .null
  | .int l, .int r =>
    if r == 0 then .null
    else
      let q := Int.tdiv l r
      if inI64 q then .int q else .float (E.F.div (castF l) (castF r))
  | .int l, .float r => .float (E.F.div (castF l) r)
  | .float l, .int r => .float (E.F.div l (castF r))
  | .float l, .float r => .float (E.F.div l r)
  | _, _ => .null

/-- `*r == 0.0` -/
def fIsZero (b : Nat) : Bool := F64.eqv (F64.ofBits b) (F64.ofBits 0)

/-- mirrors `numeric_mod`. -/
def numericMod : Value → Value → Value
  | .null, _ => .null
  | _, .null => .null
  | l, .int r =>
    if r == 0 then .null
    else match l with
      | .int l => .int (wrapI64 (Int.tmod l r))
      | .float l => .float (E.F.rem l (castF r))
      | _ => .null
  | l, .float r =>
    if fIsZero r then .null
    else match l with
      | .int l => .float (E.F.rem (castF l) r)
      | .float l => .float (E.F.rem l r)
      | _ => .null
  | _, _ => .null

/-- mirrors `numeric_pow`: always a Float. -/
def numericPow : Value → Value → Value
  | .null, _ => .null
  | _, .null => .null
  | .int l, .int r => .float (E.F.pow (castF l) (castF r))
  | .int l, .float r => .float (E.F.pow (castF l) r)
  | .float l, .int r => .float (E.F.pow l (castF r))
  | .float l, .float r => .float (E.F.pow l r)
  | _, _ => .null

/-- `duration_from_value(v).is_some()` -/
def isDuration : Value → Bool
  | .map kvs => E.durationMap kvs
  | _ => false

/-- `parse_temporal_string(s).is_some()` -/
def isTemporal (s : Str) : Bool := (E.temporalKey s).isSome

/-- `value_as_f64(v).is_some()` -/
def isNumber : Value → Bool
  | .int _ => true
  | .float _ => true
  | _ => false

/-- mirrors `add_values` (evaluator_arithmetic.rs). -/
def addValues (l r : Value) : Value :=
  match l, r with
  | .null, _ => .null
  | _, .null => .null
  | l, r =>
    match l, r with
    | .str s, r' =>
      if isDuration E r' && isTemporal E s then E.temporalAdd s r' else addRest l r
    | _, _ => addRest l r
where
  addRest (l r : Value) : Value :=
    match l, r with
    | l', .str s =>
      if isDuration E l' && isTemporal E s then E.temporalAdd s l' else addTail l r
    | _, _ => addTail l r
  addTail (l r : Value) : Value :=
    if isDuration E l && isDuration E r then E.durationOp 0 l r
    else match l, r with
      | .str a, .str b => .str (a ++ b)
      | .list a, .list b => .list (a ++ b)
      | .list a, b => .list (a ++ [b])
      | a, .list b => .list (a :: b)
      | _, _ => numericBinop (fun x y => x + y) E.F.add l r

/-- mirrors `subtract_values`. -/
def subtractValues (l r : Value) : Value :=
  match l, r with
  | .null, _ => .null
  | _, .null => .null
  | l, r =>
    let rest := if isDuration E l && isDuration E r then E.durationOp 1 l r
                else numericBinop (fun x y => x - y) E.F.sub l r
    match l with
    | .str s => if isDuration E r && isTemporal E s then E.temporalSub s r else rest
    | _ => rest

/-- mirrors `multiply_values`. -/
def multiplyValues (l r : Value) : Value :=
  match l, r with
  | .null, _ => .null
  | _, .null => .null
  | l, r =>
    if isDuration E l && isNumber r then E.durationOp 2 l r
    else if isNumber l && isDuration E r then E.durationOp 3 l r
    else numericBinop (fun x y => x * y) E.F.mul l r

/-- mirrors `divide_values`. -/
def divideValues (l r : Value) : Value :=
  match l, r with
  | .null, _ => .null
  | _, .null => .null
  | l, r =>
    if isDuration E l && isNumber r then E.durationOp 4 l r
    else numericDiv E l r

/-- mirrors `in_list` (evaluator_membership.rs). -/
def inList (l r : Value) : Value :=
  match r with
  | .null => .null
  | .list items => go items
  | _ => .null
where
  /-- the loop: `true` returns at once; otherwise remember whether a `null` was seen -/
  go : List Value → Value
    | [] => .bool false
    | item :: rest =>
      match cypherEquals l item with
      | .bool true => .bool true
      | .bool false => go rest
      | _ =>
        match go rest with
        | .bool true => .bool true
        | _ => .null

/-- `str::contains` on byte strings -/
def bytesContains : Bytes → Bytes → Bool
  | [], r => r.isEmpty
  | b :: l, r => r.isPrefixOf (b :: l) || bytesContains l r

/-- mirrors `string_predicate`: 0 STARTS WITH, 1 ENDS WITH, 2 CONTAINS -/
def stringPredicate (which : Nat) : Value → Value → Value
  | .str l, .str r =>
    .bool (match which with
      | 0 => r.isPrefixOf l
      | 1 => r.isSuffixOf l
      | _ => bytesContains l r)
  | _, _ => .null

/-! three-valued connectives: the `match` arms of `evaluate_expression_value` -/

/-- `BinaryOperator::And` -/
def and3 : Value → Value → Value
  | .bool false, _ => .bool false
  | _, .bool false => .bool false
  | .bool true, .bool true => .bool true
  | _, _ => .null

/-- `BinaryOperator::Or` -/
def or3 : Value → Value → Value
  | .bool true, _ => .bool true
  | _, .bool true => .bool true
  | .bool false, .bool false => .bool false
  | _, _ => .null

/-- `BinaryOperator::Xor` -/
def xor3 : Value → Value → Value
  | .bool l, .bool r => .bool (l != r)
  | _, _ => .null

/-- `UnaryOperator::Not` -/
def not3 : Value → Value
  | .bool b => .bool (!b)
  | _ => .null

/-- `UnaryOperator::Negate`: `checked_neg`, on overflow (`i64::MIN`) the Float `-(i as f64)`. -/
def negate : Value → Value
  | .int i => if inI64 (-i) then .int (-i) else .float (F64.negBits (castF i))
  | .float f => .float (F64.negBits f)
  | _ => .null

/-- `BinaryOperator::NotEquals` -/
def notEquals (l r : Value) : Value := not3 (cypherEquals l r)

inductive BinOp
  | eq | ne | and | or | xor | lt | le | gt | ge | add | sub | mul | div | mod | pow
  | inList | startsWith | endsWith | contains | isNull | isNotNull
  deriving Repr, DecidableEq

/-- the `Expression::Binary` arm of `evaluate_expression_value`, on already evaluated operands
    (`HasLabel` needs the graph and is not part of the value algebra). -/
def evalBin : BinOp → Value → Value → Value
  | .eq, l, r => cypherEquals l r
  | .ne, l, r => notEquals l r
  | .and, l, r => and3 l r
  | .or, l, r => or3 l r
  | .xor, l, r => xor3 l r
  | .lt, l, r => compareValues E .lt l r
  | .le, l, r => compareValues E .le l r
  | .gt, l, r => compareValues E .gt l r
  | .ge, l, r => compareValues E .ge l r
  | .add, l, r => addValues E l r
  | .sub, l, r => subtractValues E l r
  | .mul, l, r => multiplyValues E l r
  | .div, l, r => divideValues E l r
  | .mod, l, r => numericMod E l r
  | .pow, l, r => numericPow E l r
  | .inList, l, r => inList l r
  | .startsWith, l, r => stringPredicate 0 l r
  | .endsWith, l, r => stringPredicate 1 l r
  | .contains, l, r => stringPredicate 2 l r
  | .isNull, l, _ => .bool l.isNull
  | .isNotNull, l, _ => .bool (!l.isNull)

end

/-! ### the pinned tree (before the `fix:` commits): comparison through `as f64`

  Kept so that the counterexamples of C23/C20 on the pinned tree stay closed, checkable terms. -/
namespace Pinned

/-- pinned `value_as_f64` + `partial_cmp` (`compare_numbers_for_range` before the fix) -/
def numCmpViaF64 : Value → Value → Option Ordering
  | .int l, .int r => F64.cmp (F64.ofInt l) (F64.ofInt r)
  | .int l, .float r => F64.cmp (F64.ofInt l) (F64.ofBits r)
  | .float l, .int r => F64.cmp (F64.ofBits l) (F64.ofInt r)
  | .float l, .float r => F64.cmp (F64.ofBits l) (F64.ofBits r)
  | _, _ => none

/-- pinned `compare_values` on two numbers -/
def compareNumbers (op : CmpOp) (l r : Value) : Value :=
  match numCmpViaF64 l r with
  | some o => .bool (op.test o)
  | none => .bool false

/-- pinned `float_equals_int`: `float_value == int_value as f64` -/
def floatEqualsInt (f : Nat) (i : Int) : Bool :=
  let x := F64.ofBits f
  if x.isNaN || !x.isFinite then false else F64.eqv x (F64.ofInt i)

/-- pinned `cypher_equals` on two numbers -/
def numEquals : Value → Value → Bool
  | .int l, .int r => l == r
  | .int l, .float r => floatEqualsInt r l
  | .float l, .int r => floatEqualsInt l r
  | .float l, .float r => F64.eqv (F64.ofBits l) (F64.ofBits r)
  | _, _ => false

/-- pinned number arms of `order_compare_non_null`: Int/Int exact, Int/Float through the cast -/
def numOrder : Value → Value → Ordering
  | .int l, .int r => cmpInt l r
  | .int l, .float r => F64.cmpNanLast (F64.ofInt l) (F64.ofBits r)
  | .float l, .int r => F64.cmpNanLast (F64.ofBits l) (F64.ofInt r)
  | .float l, .float r => F64.cmpNanLast (F64.ofBits l) (F64.ofBits r)
  | _, _ => .eq

end Pinned
end Eval
end Nervus
