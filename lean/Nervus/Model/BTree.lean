/-
  Nervus.Model.BTree — executable model of nervusdb-storage/src/index/btree.rs AS IT IS.

  A tree is a page map (page id ↦ leaf | internal), a root page id and the pager's `next_page_id`.
  * leaf      = live cells in slot order (key, payload), `cell_content_begin`, right sibling (0 = none)
  * internal  = leftmost child, cells (separator key, right child) in slot order, `cell_content_begin`
  Capacity accounting is byte exact (header, 2-byte slots, `cell_len`, NO reclamation of cell bytes on
  delete: `delete_from_leaf` only removes the slot).  Keys are abstract ordered values with a size
  (`KeyOrd`); the driver instantiates them with byte strings.  All layout numbers and the comparison
  operators of the hand-written binary searches come from `Cfg`; `Cfg.real` (Model/BTreeReal.lean) is
  filled from `Model/Generated/Sizes.lean`, regenerated from the source on every check.
  Every `unwrap`/index/`Vec::insert` that can panic is an explicit `panic` outcome, every `?` an
  `err`, every data-dependent loop has fuel (`loop` when it runs out; fuel = number of pages).
  Core only.
-/
import Nervus.Spec.Multimap
namespace Nervus.BTree
open Nervus

/-- layout constants and code-shape flags (regenerated from the source, see `Cfg.real`) -/
structure Cfg where
  ps : Nat                 -- PAGE_SIZE
  leafHdr : Nat            -- COMMON_HEADER_SIZE
  intHdr : Nat             -- INTERNAL_HEADER_SIZE
  slotW : Nat              -- bytes per slot
  leafFixed : Nat          -- payload bytes in a leaf cell
  intFixed : Nat           -- child-pointer bytes in an internal cell
  slack : Nat              -- `free < cell_len + slack` (room for the new slot)
  firstPage : Nat          -- FIRST_DATA_PAGE_ID
  maxPages : Nat           -- BITMAP_BITS
  leafSearchLe : Bool      -- leaf_lower_bound goes right on `k <= target` (false: `k < target`)
  intSearchLe : Bool       -- internal_child_for_key goes right on `k <= target`
  advSkipsEmpty : Bool     -- BTreeCursor::advance loops over empty leaves
  deriving Repr, DecidableEq

/-! ### page map -/

abbrev PageMap (α : Type) := List (Nat × α)

def PageMap.get {α : Type} (m : PageMap α) (p : Nat) : Option α :=
  match m with
  | [] => none
  | (q, a) :: r => if q = p then some a else PageMap.get r p

def PageMap.set {α : Type} (m : PageMap α) (p : Nat) (a : α) : PageMap α :=
  match m with
  | [] => [(p, a)]
  | (q, b) :: r => if q = p then (p, a) :: r else (q, b) :: PageMap.set r p a

/-! ### pages -/

variable {κ : Type}

inductive Node (κ : Type) where
  | leaf (es : List (κ × Nat)) (cbegin : Nat) (right : Nat)
  | internal (lm : Nat) (cells : List (κ × Nat)) (cbegin : Nat)
  deriving Repr, DecidableEq

structure Tree (κ : Type) where
  pages : PageMap (Node κ)
  root : Nat
  next : Nat            -- pager.meta.next_page_id; the tree never frees a page
  deriving Repr, DecidableEq

/-- result of one public operation -/
inductive Out where
  | ok | found (b : Bool) | err | panic | loop
  deriving Repr, DecidableEq

/-- mirrors varint_u32_len -/
def varintLen (n : Nat) : Nat :=
  if n < 0x80 then 1 else if n < 0x4000 then 2 else if n < 0x200000 then 3 else if n < 0x10000000 then 4 else 5

section
variable [KeyOrd κ]

/-- `cell_len` in leaf_insert_at -/
def leafCellLen (c : Cfg) (k : κ) : Nat := varintLen (KeyOrd.size k) + KeyOrd.size k + c.leafFixed
/-- `cell_len` in internal_insert_at -/
def intCellLen (c : Cfg) (k : κ) : Nat := c.intFixed + varintLen (KeyOrd.size k) + KeyOrd.size k

/-- three-way comparison of keys (`[u8]::cmp`) -/
def kcmp (a b : κ) : Ordering := if KeyOrd.lt a b then .lt else if KeyOrd.lt b a then .gt else .eq

/-- `(k, v).cmp(&(key, payload))` -/
def pairCmp (e : κ × Nat) (k : κ) (v : Nat) : Ordering :=
  match kcmp e.1 k with
  | .lt => .lt
  | .gt => .gt
  | .eq => compare e.2 v

/-- the loop shared by leaf_lower_bound and internal_child_for_key:
    `while lo < hi { mid = (lo+hi)/2; if <go right>(mid) { lo = mid+1 } else { hi = mid } }`.
    `goRight mid = none` is the `?` on a cell index out of bounds. -/
def bsLoop (goRight : Nat → Option Bool) : Nat → Nat → Nat → Option Nat
  | 0, lo, _ => some lo
  | f+1, lo, hi =>
    if lo < hi then
      let mid := (lo + hi) / 2
      match goRight mid with
      | none => none
      | some true => bsLoop goRight f (mid + 1) hi
      | some false => bsLoop goRight f lo mid
    else some lo

/-- the comparison inside the two searches: `k < target` or `k <= target` -/
def goesRight (le : Bool) (k target : κ) : Bool :=
  if le then !KeyOrd.lt target k else KeyOrd.lt k target

/-- mirrors Page::leaf_lower_bound -/
def leafLowerBound (c : Cfg) (es : List (κ × Nat)) (target : κ) : Option Nat :=
  bsLoop (fun mid => (es[mid]?).map (fun e => goesRight c.leafSearchLe e.1 target)) es.length 0 es.length

/-- mirrors Page::internal_child_for_key: (child, child_pos) -/
def childForKey (c : Cfg) (lm : Nat) (cells : List (κ × Nat)) (target : κ) : Option (Nat × Nat) :=
  match bsLoop (fun mid => (cells[mid]?).map (fun e => goesRight c.intSearchLe e.1 target)) cells.length 0 cells.length with
  | none => none
  | some 0 => some (lm, 0)
  | some (pos+1) => (cells[pos]?).map (fun e => (e.2, pos + 1))

/-- result of `slice::binary_search_by` -/
inductive BS where
  | found (i : Nat) | missing (i : Nat)
  deriving Repr, DecidableEq

def BS.pos : BS → Nat
  | .found i => i
  | .missing i => i

/-- the loop of core::slice::binary_search_by (Rust 1.95 library/core/src/slice/mod.rs):
    `while size > 1 { half = size/2; mid = base+half; base = if f(mid)==Greater {base} else {mid}; size -= half }` -/
def rustBSLoop {α : Type} (f : α → Ordering) (xs : List α) : Nat → Nat → Nat → Option Nat
  | 0, _, base => some base
  | fu+1, size, base =>
    if 1 < size then
      let half := size / 2
      match xs[base + half]? with
      | none => none
      | some x => rustBSLoop f xs fu (size - half) (if f x = .gt then base else base + half)
    else some base

/-- mirrors core::slice::binary_search_by (no early exit on Equal: any match may be returned) -/
def rustBinarySearch {α : Type} (f : α → Ordering) (xs : List α) : Option BS :=
  if xs.length = 0 then some (.missing 0) else
  match rustBSLoop f xs xs.length xs.length 0 with
  | none => none
  | some base =>
    match xs[base]? with
    | none => none
    | some x =>
      match f x with
      | .eq => some (.found base)
      | .lt => some (.missing (base + 1))
      | .gt => some (.missing base)

/-- mirrors Page::free_space (saturating) for a page with `n` cells -/
def freeSpace (c : Cfg) (hdr n cbegin : Nat) : Nat := cbegin - (hdr + n * c.slotW)

/-- mirrors Page::leaf_insert_at on (cells, cell_content_begin); `none` = Err -/
def leafInsertAt (c : Cfg) (es : List (κ × Nat)) (cbegin idx : Nat) (k : κ) (v : Nat) :
    Option (List (κ × Nat) × Nat) :=
  let cl := leafCellLen c k
  if freeSpace c c.leafHdr es.length cbegin < cl + c.slack then none
  else if es.length < idx then none
  else if cbegin < cl then none
  else some (es.insertIdx idx (k, v), cbegin - cl)

/-- mirrors Page::internal_insert_at -/
def intInsertAt (c : Cfg) (cells : List (κ × Nat)) (cbegin idx : Nat) (k : κ) (child : Nat) :
    Option (List (κ × Nat) × Nat) :=
  let cl := intCellLen c k
  if freeSpace c c.intHdr cells.length cbegin < cl + c.slack then none
  else if cells.length < idx then none
  else if cbegin < cl then none
  else some (cells.insertIdx idx (k, child), cbegin - cl)

/-- the loop of rebuild_leaf: `for (i,(k,v)) in entries.enumerate() { leaf_insert_at(i,k,v).unwrap() }`
    (`none` = the unwrap panics) -/
def rebuildLeafGo (c : Cfg) : List (κ × Nat) → List (κ × Nat) → Nat → Option (List (κ × Nat) × Nat)
  | [], acc, b => some (acc, b)
  | (k, v) :: rest, acc, b =>
    match leafInsertAt c acc b acc.length k v with
    | none => none
    | some (acc', b') => rebuildLeafGo c rest acc' b'

/-- mirrors Page::rebuild_leaf on a fresh page (init_leaf: cell_content_begin = PAGE_SIZE) -/
def rebuildLeaf (c : Cfg) (entries : List (κ × Nat)) : Option (List (κ × Nat) × Nat) :=
  rebuildLeafGo c entries [] c.ps

def rebuildIntGo (c : Cfg) : List (κ × Nat) → List (κ × Nat) → Nat → Option (List (κ × Nat) × Nat)
  | [], acc, b => some (acc, b)
  | (k, ch) :: rest, acc, b =>
    match intInsertAt c acc b acc.length k ch with
    | none => none
    | some (acc', b') => rebuildIntGo c rest acc' b'

/-- mirrors Page::rebuild_internal (`none` = Err through `?`) -/
def rebuildInternal (c : Cfg) (cells : List (κ × Nat)) : Option (List (κ × Nat) × Nat) :=
  rebuildIntGo c cells [] c.ps

/-- mirrors Pager::allocate_page for a pager on which nothing was ever freed
    (no free bit below next_page_id): candidate = next_page_id; Err at BITMAP_BITS -/
def alloc (c : Cfg) (t : Tree κ) : Option (Nat × Tree κ) :=
  if c.maxPages ≤ t.next then none else some (t.next, { t with next := t.next + 1 })

/-- mirrors BTree::create on a fresh pager -/
def create (c : Cfg) : Tree κ :=
  { pages := [(c.firstPage, .leaf [] c.ps 0)], root := c.firstPage, next := c.firstPage + 1 }

/-- outcome of the root-to-leaf loop shared by insert / delete / cursor_lower_bound -/
inductive Desc (κ : Type) where
  | leaf (pid : Nat) (es : List (κ × Nat)) (cbegin right : Nat) (path : List (Nat × Nat))
  | err | loop

/-- the descent loop; `path` = (page, child_pos) of the internal pages passed, innermost first -/
def descend (c : Cfg) (pages : PageMap (Node κ)) (k : κ) : Nat → Nat → List (Nat × Nat) → Desc κ
  | 0, _, _ => .loop
  | f+1, cur, path =>
    match pages.get cur with
    | none => .err
    | some (.leaf es b r) => .leaf cur es b r path
    | some (.internal lm cells _) =>
      match childForKey c lm cells k with
      | none => .err
      | some (child, pos) => descend c pages k f child ((cur, pos) :: path)

/-- mirrors BTree::insert_into_parent (recursion over the path, innermost first).
    keys/children of the Rust code are kept zipped: children = leftmost :: cells.map snd. -/
def insertIntoParent (c : Cfg) : Tree κ → List (Nat × Nat) → Nat → κ → Nat → Tree κ × Out
  | t, [], left, sep, right =>
    match alloc c t with
    | none => (t, .err)
    | some (nr, t1) =>
      match intInsertAt c [] c.ps 0 sep right with
      | none => (t1, .err)
      | some (cells, b) => ({ t1 with pages := t1.pages.set nr (.internal left cells b), root := nr }, .ok)
  | t, (pid, pos) :: rest, _, sep, right =>
    match t.pages.get pid with
    | some (.internal lm cells b) =>
      match intInsertAt c cells b pos sep right with
      | some (cells', b') => ({ t with pages := t.pages.set pid (.internal lm cells' b') }, .ok)
      | none =>
        if cells.length < pos then (t, .panic) else          -- Vec::insert(child_pos, ..)
        let all := cells.insertIdx pos (sep, right)
        let mid := all.length / 2
        match all.drop mid with                                -- keys[mid]
        | [] => (t, .panic)
        | (promote, rlm) :: rcells =>
          let lcells := all.take mid
          match alloc c t with
          | none => (t, .err)
          | some (rp, t1) =>
            match rebuildInternal c lcells with
            | none => (t1, .err)
            | some (lc, lb) =>
              match rebuildInternal c rcells with
              | none => (t1, .err)
              | some (rc, rb) =>
                let t2 := { t1 with pages := (t1.pages.set pid (.internal lm lc lb)).set rp (.internal rlm rc rb) }
                insertIntoParent c t2 rest pid promote rp
    | _ => (t, .err)

/-- mirrors BTree::insert -/
def insert (c : Cfg) (t : Tree κ) (k : κ) (v : Nat) : Tree κ × Out :=
  match descend c t.pages k t.next t.root [] with
  | .err => (t, .err)
  | .loop => (t, .loop)
  | .leaf cur es b r path =>
    match leafLowerBound c es k with
    | none => (t, .err)
    | some idx =>
      match leafInsertAt c es b idx k v with
      | some (es', b') => ({ t with pages := t.pages.set cur (.leaf es' b' r) }, .ok)
      | none =>
        -- split leaf: position by binary_search_by on the key (any matching index), halves by COUNT
        match rustBinarySearch (fun e => kcmp e.1 k) es with
        | none => (t, .panic)
        | some bs =>
          let entries := es.insertIdx bs.pos (k, v)
          let mid := entries.length / 2
          let left := entries.take mid
          let right := entries.drop mid
          match right with
          | [] => (t, .panic)                                  -- right_entries[0]
          | (sep, _) :: _ =>
            match alloc c t with
            | none => (t, .err)
            | some (rid, t1) =>
              match rebuildLeaf c right with                   -- .unwrap() inside rebuild_leaf
              | none => (t1, .panic)
              | some (re, rb) =>
                match rebuildLeaf c left with
                | none => (t1, .panic)
                | some (le, lb) =>
                  let t2 := { t1 with pages := (t1.pages.set cur (.leaf le lb rid)).set rid (.leaf re rb r) }
                  insertIntoParent c t2 path cur sep rid

/-- mirrors BTree::delete: binary search on (key, payload) in ONE leaf; the cell bytes are not reclaimed -/
def delete (c : Cfg) (t : Tree κ) (k : κ) (v : Nat) : Tree κ × Out :=
  match descend c t.pages k t.next t.root [] with
  | .err => (t, .err)
  | .loop => (t, .loop)
  | .leaf cur es b r _ =>
    match rustBinarySearch (fun e => pairCmp e k v) es with
    | none => (t, .panic)
    | some (.missing _) => (t, .found false)
    | some (.found idx) =>
      if idx < es.length then ({ t with pages := t.pages.set cur (.leaf (es.eraseIdx idx) b r) }, .found true)
      else (t, .err)

/-- BTreeCursor: leaf id, the buffered copy of that leaf (cells, right sibling), slot -/
structure Cursor (κ : Type) where
  leaf : Nat
  es : List (κ × Nat)
  right : Nat
  slot : Nat
  deriving Repr, DecidableEq

inductive Res (α : Type) where
  | ok (a : α) | err | loop
  deriving Repr, DecidableEq

/-- the inner loop of cursor_lower_bound: move right while the leaf is empty or the slot is past its end -/
def settle (pages : PageMap (Node κ)) : Nat → Cursor κ → Res (Cursor κ)
  | 0, _ => .loop
  | f+1, cur =>
    if cur.es.length ≠ 0 ∧ cur.slot < cur.es.length then .ok cur
    else if cur.right = 0 then .ok cur
    else
      match pages.get cur.right with
      | some (.leaf es _ r) => settle pages f ⟨cur.right, es, r, 0⟩
      | _ => .err

/-- mirrors BTree::cursor_lower_bound -/
def cursorLowerBound (c : Cfg) (t : Tree κ) (k : κ) : Res (Cursor κ) :=
  match descend c t.pages k t.next t.root [] with
  | .err => .err
  | .loop => .loop
  | .leaf cur es _ r _ =>
    match leafLowerBound c es k with
    | none => .err
    | some slot => settle t.pages t.next ⟨cur, es, r, slot⟩

def Cursor.isValid (cur : Cursor κ) : Bool := cur.slot < cur.es.length

/-- the part of BTreeCursor::advance that leaves the current leaf: next leaf to read from, if any.
    Pinned tree: load the right sibling and report `is_valid()` — an EMPTY sibling ends the scan.
    With the `fix:` (advSkipsEmpty): keep following right siblings until a non-empty leaf. -/
def nextLeaf (c : Cfg) (pages : PageMap (Node κ)) : Nat → Nat → Res (Option (Cursor κ))
  | 0, _ => .loop
  | f+1, right =>
    if right = 0 then .ok none
    else
      match pages.get right with
      | some (.leaf es _ r) =>
        if 0 < es.length then .ok (some ⟨right, es, r, 0⟩)
        else if c.advSkipsEmpty then nextLeaf c pages f r
        else .ok none
      | _ => .err

/-- mirrors `while cur.is_valid()? { out.push((key, payload)); if !cur.advance()? { break } }`
    (BTree::scan_all and every reader of the property store / indexes).  Inside one leaf `advance`
    only increments `slot`, so those iterations are `es.drop slot`; leaving the leaf is `nextLeaf`. -/
def collect (c : Cfg) (pages : PageMap (Node κ)) : Nat → Cursor κ → Res (List (κ × Nat))
  | 0, _ => .loop
  | f+1, cur =>
    if cur.slot < cur.es.length then
      match nextLeaf c pages (f+1) cur.right with
      | .err => .err
      | .loop => .loop
      | .ok none => .ok (cur.es.drop cur.slot)
      | .ok (some nxt) =>
        match collect c pages f nxt with
        | .ok rest => .ok (cur.es.drop cur.slot ++ rest)
        | .err => .err
        | .loop => .loop
    else .ok []

/-- all pairs from the lower bound of `k` on (what a range / prefix reader sees) -/
def scanFrom (c : Cfg) (t : Tree κ) (k : κ) : Res (List (κ × Nat)) :=
  match cursorLowerBound c t k with
  | .ok cur => collect c t.pages t.next cur
  | .err => .err
  | .loop => .loop

/-- mirrors BTree::scan_all: `cursor_lower_bound(&[])` then the loop -/
def scan (c : Cfg) (t : Tree κ) : Res (List (κ × Nat)) := scanFrom c t KeyOrd.min

/-- what read_node_property_from_store / the index seek do: lower bound, then compare the key -/
def lookup (c : Cfg) (t : Tree κ) (k : κ) : Res (Option Nat) :=
  match cursorLowerBound c t k with
  | .ok cur =>
    match cur.es[cur.slot]? with
    | some e => .ok (if Multimap.keq e.1 k then some e.2 else none)
    | none => .ok none
  | .err => .err
  | .loop => .loop

/-- one history step -/
def step (c : Cfg) (t : Tree κ) : Multimap.Op κ → Tree κ × Out
  | .insert k p => insert c t k p
  | .delete k p => delete c t k p

/-- run a history from `create`, collecting the outcome of every op -/
def runFrom (c : Cfg) : Tree κ → List (Multimap.Op κ) → Tree κ × List Out
  | t, [] => (t, [])
  | t, op :: ops =>
    let (t1, o) := step c t op
    let (t2, os) := runFrom c t1 ops
    (t2, o :: os)

def run (c : Cfg) (ops : List (Multimap.Op κ)) : Tree κ × List Out := runFrom c (create c) ops

end
end Nervus.BTree
