/-
  Nervus.Model.PropVal — mirrors nervusdb-api/src/lib.rs
  `PropertyValue::{encode, decode, decode_recursive, nesting_depth}`.

  Conventions (DESIGN §2.2): floats are IEEE-754 bit patterns (`Nat < 2^64`), `i64` is `Int` with the range
  predicate, `String`/`Vec<u8>` are byte lists (a Rust `String` is a byte list that passes `validUtf8`),
  `BTreeMap<String,_>` is a strictly key-sorted association list (`PVMap`, byte order = Rust's `String` order).
  Everything that can abort the Rust process is an explicit observation/outcome:
    * slice indexing that would be out of range  ⇒ `DErr.panic`            (theorem: never happens)
    * `Vec::with_capacity(n)` / `to_vec()`       ⇒ an entry `(n, remaining input)` in `Res.allocs`
    * recursion depth                            ⇒ `Res.depth` (deepest `decode_recursive` frame)
    * `expect("… should fit in u32")` in encode  ⇒ `encodeChecked = none`
  The decoder is parameterised by `Cfg` (allocation cap / nesting limit).  `Cfg.current` is regenerated from the
  source (`Generated/PvTags.lean`); `Cfg.pinned` is the tree as it was pinned (no cap, no limit).
-/
import Nervus.Model.Bytes
import Nervus.Model.Generated.PvTags
namespace Nervus.PropVal
open Nervus

mutual
  /-- `PropertyValue` -/
  inductive PV
    | null
    | bool (b : Bool)
    | int (i : Int)
    | float (bits : Nat)
    | str (s : Bytes)
    | datetime (i : Int)
    | blob (b : Bytes)
    | list (l : PVList)
    | map (m : PVMap)
  /-- `Vec<PropertyValue>` -/
  inductive PVList
    | nil
    | cons (v : PV) (t : PVList)
  /-- `BTreeMap<String, PropertyValue>` in iteration (= key) order -/
  inductive PVMap
    | nil
    | cons (k : Bytes) (v : PV) (t : PVMap)
end

deriving instance Repr for PV, PVList, PVMap
deriving instance DecidableEq for PV, PVList, PVMap
instance : Inhabited PV := ⟨.null⟩

def PVList.len : PVList → Nat
  | .nil => 0
  | .cons _ t => t.len + 1

def PVMap.len : PVMap → Nat
  | .nil => 0
  | .cons _ _ t => t.len + 1

def PVMap.keys : PVMap → List Bytes
  | .nil => []
  | .cons k _ t => k :: t.keys

def PVMap.append : PVMap → PVMap → PVMap
  | .nil, m => m
  | .cons k v t, m => .cons k v (t.append m)

/-- `BTreeMap::insert`: replaces the value of an existing key, otherwise inserts in key order. -/
def PVMap.insert (k : Bytes) (v : PV) : PVMap → PVMap
  | .nil => .cons k v .nil
  | .cons k' v' t =>
    if k = k' then .cons k' v t
    else if bytesLt k k' then .cons k v (.cons k' v' t)
    else .cons k' v' (t.insert k v)

/-! ### UTF-8 (the check `String::from_utf8` performs: Unicode Table 3-7, well-formed byte sequences) -/

def isCont (b : UInt8) : Bool := 0x80 ≤ b && b ≤ 0xBF

def validUtf8 : Bytes → Bool
  | [] => true
  | b0 :: rest =>
    if b0 ≤ 0x7F then validUtf8 rest
    else if 0xC2 ≤ b0 && b0 ≤ 0xDF then
      match rest with
      | b1 :: r => isCont b1 && validUtf8 r
      | _ => false
    else if 0xE0 ≤ b0 && b0 ≤ 0xEF then
      match rest with
      | b1 :: b2 :: r =>
        (if b0 = 0xE0 then 0xA0 ≤ b1 && b1 ≤ 0xBF
         else if b0 = 0xED then 0x80 ≤ b1 && b1 ≤ 0x9F
         else isCont b1) && isCont b2 && validUtf8 r
      | _ => false
    else if 0xF0 ≤ b0 && b0 ≤ 0xF4 then
      match rest with
      | b1 :: b2 :: b3 :: r =>
        (if b0 = 0xF0 then 0x90 ≤ b1 && b1 ≤ 0xBF
         else if b0 = 0xF4 then 0x80 ≤ b1 && b1 ≤ 0x8F
         else isCont b1) && isCont b2 && isCont b3 && validUtf8 r
      | _ => false
    else false

/-! ### encode -/

def two32 : Nat := 4294967296
def two64 : Nat := 18446744073709551616

open Generated in
mutual
  /-- mirrors `PropertyValue::encode` (lengths written with `leBytes 4`; the `expect`s are `encodable`) -/
  def encode : PV → Bytes
    | .null => [pvTagNull]
    | .bool b => [pvTagBool, if b then 1 else 0]
    | .int i => pvTagInt :: leBytes 8 (toU64 i)
    | .float f => pvTagFloat :: leBytes 8 f
    | .str s => pvTagString :: (leBytes 4 s.length ++ s)
    | .datetime i => pvTagDateTime :: leBytes 8 (toU64 i)
    | .blob b => pvTagBlob :: (leBytes 4 b.length ++ b)
    | .list l => pvTagList :: (leBytes 4 l.len ++ encodeL l)
    | .map m => pvTagMap :: (leBytes 4 m.len ++ encodeM m)
  /-- `for item in l { out.extend_from_slice(&item.encode()) }` -/
  def encodeL : PVList → Bytes
    | .nil => []
    | .cons v t => encode v ++ encodeL t
  /-- `for (k, v) in m { k_len; k_bytes; v.encode() }` -/
  def encodeM : PVMap → Bytes
    | .nil => []
    | .cons k v t => leBytes 4 k.length ++ (k ++ (encode v ++ encodeM t))
end

mutual
  /-- mirrors `PropertyValue::nesting_depth` (containers nested inside each other; scalars are 0) -/
  def PV.nesting : PV → Nat
    | .list l => l.nesting + 1
    | .map m => m.nesting + 1
    | _ => 0
  def PVList.nesting : PVList → Nat
    | .nil => 0
    | .cons v t => max v.nesting t.nesting
  def PVMap.nesting : PVMap → Nat
    | .nil => 0
    | .cons _ v t => max v.nesting t.nesting
end

mutual
  /-- the values a Rust `PropertyValue` can hold and `encode` accepts without hitting an `expect`:
      integers in `i64`, float bit patterns in `u64`, strings/keys valid UTF-8, every length `< 2^32`,
      map keys strictly increasing (a `BTreeMap`). -/
  def PV.wf : PV → Bool
    | .null => true
    | .bool _ => true
    | .int i => decide (I64.inRange i)
    | .float f => decide (f < two64)
    | .str s => validUtf8 s && decide (s.length < two32)
    | .datetime i => decide (I64.inRange i)
    | .blob b => decide (b.length < two32)
    | .list l => decide (l.len < two32) && l.wf
    | .map m => decide (m.len < two32) && m.wf && decide (m.keys.Pairwise (fun a b => bytesLt a b = true))
  def PVList.wf : PVList → Bool
    | .nil => true
    | .cons v t => v.wf && t.wf
  def PVMap.wf : PVMap → Bool
    | .nil => true
    | .cons k v t => validUtf8 k && decide (k.length < two32) && v.wf && t.wf
end

/-- `encode` with its `expect`s made explicit: `none` = the Rust would panic. -/
def encodeChecked (v : PV) : Option Bytes := if v.wf then some (encode v) else none

/-! ### decode -/

/-- decoder configuration: what the source does about allocation and nesting (regenerated) -/
structure Cfg where
  /-- `Vec::with_capacity(count.min(bytes.len() - pos))` instead of `with_capacity(count)` -/
  capAlloc : Bool
  /-- `MAX_NESTING_DEPTH` if the decoder enforces one -/
  maxDepth : Option Nat
  deriving Repr, DecidableEq

/-- the source as it is now -/
def Cfg.current : Cfg := ⟨Generated.pvDecodeCapsAlloc, Generated.pvMaxDepth⟩
/-- the source as pinned (before the `fix:` commit for C25) -/
def Cfg.pinned : Cfg := ⟨false, none⟩

/-- `DecodeError`, plus two outcomes that are not Rust errors: `panic` (a slice index would be out of
    range) and `fuel` (the model's recursion budget ran out).  Theorems show neither ever occurs. -/
inductive DErr
  | empty
  | invalidLength
  | invalidUtf8
  | unknownType (t : UInt8)
  | tooDeep
  | panic
  | fuel
  deriving Repr, DecidableEq

/-- result of a decoding step together with what the step asked of the allocator and of the stack -/
structure Res (α : Type) where
  /-- allocation requests in program order: (elements requested, input bytes remaining at the request) -/
  allocs : List (Nat × Nat)
  /-- deepest `decode_recursive` frame entered (the outermost call is 0) -/
  depth : Nat
  val : Except DErr α

namespace Res
def ret {α} (a : α) : Res α := ⟨[], 0, .ok a⟩
def fail {α} (e : DErr) : Res α := ⟨[], 0, .error e⟩
/-- record an allocation request made before `r` runs -/
def alloc {α} (n rem : Nat) (r : Res α) : Res α := ⟨(n, rem) :: r.allocs, r.depth, r.val⟩
/-- record that a frame at depth `d` was entered -/
def enter {α} (d : Nat) (r : Res α) : Res α := ⟨r.allocs, max d r.depth, r.val⟩
def bind {α β} (r : Res α) (k : α → Res β) : Res β :=
  match r.val with
  | .error e => ⟨r.allocs, r.depth, .error e⟩
  | .ok a => ⟨r.allocs ++ (k a).allocs, max r.depth (k a).depth, (k a).val⟩
end Res

/-- `bytes[a..b]`; `none` = the Rust slice expression would panic -/
def slice (bs : Bytes) (a b : Nat) : Option Bytes :=
  if a ≤ b ∧ b ≤ bs.length then some ((bs.drop a).take (b - a)) else none

/-- `u32::from_le_bytes(bytes[a..a + 4].try_into().expect("slice length checked")) as usize` -/
def readU32 (bs : Bytes) (a : Nat) : Option Nat := (slice bs a (a + 4)).map leVal

/-- arms 2, 3, 5: `if bytes.len() < 9 { InvalidLength }`, `from_le_bytes(bytes[1..9])`, consumed 9 -/
def decFixed8 (bs : Bytes) (mk : Nat → PV) : Res (PV × Bytes) :=
  if bs.length < 9 then .fail .invalidLength
  else match slice bs 1 9 with
    | none => .fail .panic
    | some x => .ret (mk (leVal x), bs.drop 9)

/-- arms 4, 6: length prefix, `bytes[5..5 + len].to_vec()` (an allocation of `len` bytes), consumed `5 + len`;
    `check` is `String::from_utf8` for strings -/
def decLenPrefixed (bs : Bytes) (check : Bytes → Bool) (mk : Bytes → PV) : Res (PV × Bytes) :=
  if bs.length < 5 then .fail .invalidLength
  else match readU32 bs 1 with
    | none => .fail .panic
    | some len =>
      if bs.length < 5 + len then .fail .invalidLength
      else match slice bs 5 (5 + len) with
        | none => .fail .panic
        | some s => .alloc len (bs.length - 5) (if check s then .ret (mk s, bs.drop (5 + len)) else .fail .invalidUtf8)

/-- `for _ in 0..count { let (item, consumed) = decode_recursive(&bytes[pos..])?; items.push(item); pos += consumed }`
    on the suffix `bytes[pos..]` -/
def loopList (f : Bytes → Res (PV × Bytes)) : Nat → Bytes → Res (PVList × Bytes)
  | 0, bs => .ret (.nil, bs)
  | n + 1, bs => (f bs).bind fun p => (loopList f n p.2).bind fun q => .ret (.cons p.1 q.1, q.2)

/-- map loop, key part: `if bytes.len() < pos + 4`, `k_len`, `if bytes.len() < pos + k_len`,
    `String::from_utf8(bytes[pos..pos + k_len].to_vec())` on the suffix `bytes[pos..]` -/
def readKey (bs : Bytes) : Res (Bytes × Bytes) :=
  if bs.length < 4 then .fail .invalidLength
  else match readU32 bs 0 with
    | none => .fail .panic
    | some klen =>
      if bs.length < 4 + klen then .fail .invalidLength
      else match slice bs 4 (4 + klen) with
        | none => .fail .panic
        | some k => .alloc klen (bs.length - 4) (if validUtf8 k then .ret (k, bs.drop (4 + klen)) else .fail .invalidUtf8)

/-- `for _ in 0..count { key; let (val, consumed) = decode_recursive(&bytes[pos..])?; map.insert(key, val); … }` -/
def loopMap (f : Bytes → Res (PV × Bytes)) : Nat → Bytes → PVMap → Res (PVMap × Bytes)
  | 0, bs, acc => .ret (acc, bs)
  | n + 1, bs, acc =>
    (readKey bs).bind fun kr => (f kr.2).bind fun p => loopMap f n p.2 (acc.insert kr.1 p.1)

/-- `if depth >= MAX_NESTING_DEPTH` -/
def tooDeep (cfg : Cfg) (d : Nat) : Bool :=
  match cfg.maxDepth with
  | some m => decide (m ≤ d)
  | none => false

/-- arm 7: nesting guard, `if bytes.len() < 5`, `count`, `Vec::with_capacity(..)`, the item loop -/
def decList (cfg : Cfg) (f : Bytes → Res (PV × Bytes)) (d : Nat) (bs : Bytes) : Res (PV × Bytes) :=
  if tooDeep cfg d then .fail .tooDeep
  else if bs.length < 5 then .fail .invalidLength
  else match readU32 bs 1 with
    | none => .fail .panic
    | some count =>
      .alloc (if cfg.capAlloc then min count (bs.length - 5) else count) (bs.length - 5)
        ((loopList f count (bs.drop 5)).bind fun q => .ret (.list q.1, q.2))

/-- arm 8: nesting guard, `if bytes.len() < 5`, `count`, `BTreeMap::new()` (no allocation), the entry loop -/
def decMap (cfg : Cfg) (f : Bytes → Res (PV × Bytes)) (d : Nat) (bs : Bytes) : Res (PV × Bytes) :=
  if tooDeep cfg d then .fail .tooDeep
  else if bs.length < 5 then .fail .invalidLength
  else match readU32 bs 1 with
    | none => .fail .panic
    | some count => (loopMap f count (bs.drop 5) .nil).bind fun q => .ret (.map q.1, q.2)

open Generated in
/-- mirrors `PropertyValue::decode_recursive(bytes, depth)`; returns the value and the unconsumed suffix
    (`consumed = bytes.len() - suffix.len()`).  `fuel` bounds the recursion depth of the model
    (`decode` supplies `bytes.len() + 1`, which is never exhausted: theorem `decode_total`). -/
def decodeRec (cfg : Cfg) : Nat → Nat → Bytes → Res (PV × Bytes)
  | 0, d, _ => (Res.fail .fuel).enter d
  | fuel + 1, d, bs => Res.enter d <|
    match bs with
    | [] => .fail .empty
    | ty :: _ =>
      if ty = pvTagNull then .ret (.null, bs.drop 1)
      else if ty = pvTagBool then
        (if bs.length < 2 then .fail .invalidLength
         else match slice bs 1 2 with
           | some [b] => .ret (.bool (b != 0), bs.drop 2)
           | _ => .fail .panic)
      else if ty = pvTagInt then decFixed8 bs (fun u => .int (ofU64 u))
      else if ty = pvTagFloat then decFixed8 bs .float
      else if ty = pvTagString then decLenPrefixed bs validUtf8 .str
      else if ty = pvTagDateTime then decFixed8 bs (fun u => .datetime (ofU64 u))
      else if ty = pvTagBlob then decLenPrefixed bs (fun _ => true) .blob
      else if ty = pvTagList then decList cfg (decodeRec cfg fuel (d + 1)) d bs
      else if ty = pvTagMap then decMap cfg (decodeRec cfg fuel (d + 1)) d bs
      else .fail (.unknownType ty)

/-- the instrumented `PropertyValue::decode` (trailing bytes are ignored: `let (value, _) = …`) -/
def decodeRes (cfg : Cfg) (bs : Bytes) : Res (PV × Bytes) := decodeRec cfg (bs.length + 1) 0 bs

/-- mirrors `PropertyValue::decode` -/
def decode (cfg : Cfg) (bs : Bytes) : Except DErr PV := (decodeRes cfg bs).val.map (·.1)

/-- `[7,1,0,0,0]` repeated `n` times around a `Null`: `n` nested one-element lists -/
def nestBytes : Nat → Bytes
  | 0 => [Generated.pvTagNull]
  | n + 1 => Generated.pvTagList :: 1 :: 0 :: 0 :: 0 :: nestBytes n

/-- `n` nested one-element lists around `Null` -/
def nestVal : Nat → PV
  | 0 => .null
  | n + 1 => .list (.cons (nestVal n) .nil)

/-- `n` one-element lists around an EMPTY list: nesting `n + 1`, no scalar anywhere -/
def nestEmpty : Nat → PV
  | 0 => .list .nil
  | n + 1 => .list (.cons (nestEmpty n) .nil)

end Nervus.PropVal
