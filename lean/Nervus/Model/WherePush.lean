/-
  Model of the planner's WHERE pushdown after a MATCH (nervusdb-query/src/query_api):
  `ast_walk::extract_predicates` collects the top-level AND-ed `alias.prop = <literal|$param>`
  conjuncts of the WHERE into a map keyed by (alias, property) — ONE value per key, a later
  conjunct overwrites an earlier one; `match_compile` overlays the inline pattern property maps
  (`extend_predicates_from_properties`, overwriting again) and pushes every entry of the map down as
  a filter / index seek on the operator that binds the alias (`apply_filters_for_alias`);
  `compile_core` (the `Clause::Where` arm) then puts a `Plan::Filter` on top — with the FULL WHERE
  expression (flag `whereFilterKeepsFullPredicate`, regenerated from the source) or, if that flag is
  false, with the "residual" that drops the conjuncts whose key is in the map.
  Generic in rows, constants and the opaque rest of the expression language.   core-only.
-/
import Nervus.Model.PlanOps
import Nervus.Model.Generated.WherePushdown
namespace Nervus.WherePush
open Nervus.PlanOps

/-- (alias, property) -/
abbrev Key := String × String

/-- the conjunctive skeleton of a WHERE expression, as `extract_predicates` walks it -/
inductive W (χ κ : Type) where
  | and (a b : W χ κ)
  /-- `alias.prop = c` or `c = alias.prop`, `c` a literal or a parameter -/
  | eqProp (k : Key) (c : κ)
  /-- anything else (OR, NOT, comparisons, functions, …): never pushed down -/
  | other (e : χ)

/-- the predicate map: one value per key -/
abbrev PMap (κ : Type) := Key → Option κ

def PMap.empty {κ : Type} : PMap κ := fun _ => none
def PMap.insert {κ : Type} (m : PMap κ) (k : Key) (c : κ) : PMap κ := fun k' => if k' = k then some c else m k'

/-- `extract_predicates`: left to right, `insert` overwrites -/
def extract {χ κ : Type} : W χ κ → PMap κ → PMap κ
  | .and a b, m => extract b (extract a m)
  | .eqProp k c, m => m.insert k c
  | .other _, m => m

/-- the inline pattern properties overlay the WHERE entries (`extend_predicates_from_properties`) -/
def overlay {κ : Type} (m inline : PMap κ) : PMap κ := fun k => (inline k).orElse (fun _ => m k)

/-- what `residual_predicate`-style stripping leaves of the WHERE: the conjuncts whose key is in the map are dropped -/
def residual {χ κ : Type} (m : PMap κ) : W χ κ → Option (W χ κ)
  | .and a b =>
    match residual m a, residual m b with
    | some a', some b' => some (.and a' b')
    | some a', none => some a'
    | none, some b' => some b'
    | none, none => none
  | .eqProp k c => if (m k).isSome then none else some (.eqProp k c)
  | .other e => some (.other e)

section sem
variable {χ κ ρ : Type}

/-- evaluation of the skeleton on a row: the evaluator's 3-valued AND over the leaves -/
structure WSem (χ κ ρ : Type) where
  /-- truth class of `alias.prop = c` on the row -/
  eqT : Key → κ → ρ → Truth
  /-- truth class of an opaque sub-expression -/
  otherT : χ → ρ → Truth
  /-- the pushed-down filter / index seek for one map entry keeps the row -/
  pushKeeps : Key → κ → ρ → Bool

/-- evaluator.rs `BinaryOperator::And` on truth classes (a non-boolean operand counts as null) -/
def andT : Truth → Truth → Truth
  | .ff, _ => .ff
  | _, .ff => .ff
  | .tt, .tt => .tt
  | _, _ => .null

def tv (S : WSem χ κ ρ) : W χ κ → ρ → Truth
  | .and a b, r => andT (tv S a r) (tv S b r)
  | .eqProp k c, r => S.eqT k c r
  | .other e, r => S.otherT e r

/-- the row passes every pushed-down entry of the map -/
def PushedKeeps (S : WSem χ κ ρ) (m : PMap κ) (r : ρ) : Prop :=
  ∀ k c, m k = some c → S.pushKeeps k c r = true

/-- the row is in the result of `MATCH <pattern with inline map> WHERE w` as compiled:
    pushed-down entries (WHERE entries overlaid by the inline map) and the final filter -/
def compiledKeeps (S : WSem χ κ ρ) (keepsFull : Bool) (w : W χ κ) (inline : PMap κ) (r : ρ) : Prop :=
  PushedKeeps S (overlay (extract w PMap.empty) inline) r ∧
    (if keepsFull then tv S w r = .tt
     else match residual (extract w PMap.empty) w with
       | some w' => tv S w' r = .tt
       | none => True)

/-- the working tree's final filter (regenerated flag) -/
def keepsFullCurrent : Bool := Generated.whereFilterKeepsFullPredicate

end sem

end Nervus.WherePush

/-! ## where a pushed-down filter may be placed: free variables

  `apply_filters_for_alias` emits the hop-level filter `alias.prop = value` right after the scan /
  hop that binds `alias`.  That is only sound where every FREE variable of `value` is bound.  The
  planner computes "the variables of an expression" with `extract_variables_from_expr`
  (query_api/ast_walk.rs), a walker that has arms for SOME variants of `ast::Expression` only
  (regenerated: `Generated.walkerVariants`); the real free variables are the full recursion. -/

namespace Nervus.WherePush

/-- the non-leaf variants of `ast::Expression` (FunctionCall is split: quantifiers and reduce bind) -/
inductive EKind where
  | unary | binary | call | list | map | quant | reduce | case | listComp | patComp | exists
  deriving DecidableEq, Repr

def EKind.all : List EKind :=
  [.unary, .binary, .call, .list, .map, .quant, .reduce, .case, .listComp, .patComp, .exists]

/-- the name of the variant in the source (`Generated.walkerVariants`) -/
def EKind.variant : EKind → String
  | .unary => "Unary" | .binary => "Binary" | .call => "FunctionCall" | .list => "List" | .map => "Map"
  | .quant => "Quantifier" | .reduce => "Reduce" | .case => "Case" | .listComp => "ListComprehension"
  | .patComp => "PatternComprehension" | .exists => "Exists"

/-- expressions as far as variables go: a leaf reads variables (Literal / Parameter: none;
    Variable / PropertyAccess: one), a node has children evaluated in the enclosing scope (`outer`)
    and children evaluated under the variables it binds (`inner`) -/
inductive VE where
  | leaf (reads : List String)
  | pair (a b : VE)
  | node (k : EKind) (binds : List String) (outer inner : VE)

/-- the free variables: the full recursion -/
def VE.free : VE → List String
  | .leaf reads => reads
  | .pair a b => a.free ++ b.free
  | .node _ binds outer inner => outer.free ++ inner.free.filter (fun x => !binds.contains x)

/-- the planner's walker: it only looks inside the variants it has an arm for -/
def VE.walker (descends : EKind → Bool) : VE → List String
  | .leaf reads => reads
  | .pair a b => a.walker descends ++ b.walker descends
  | .node k binds outer inner =>
    if descends k then outer.walker descends ++ (inner.walker descends).filter (fun x => !binds.contains x)
    else []

/-- the walker of the working tree -/
def walkerDescendsCurrent (k : EKind) : Bool := Generated.walkerVariants.contains k.variant

/-- the planner places the filter where the walker's variables are bound -/
def placementAllowed (descends : EKind → Bool) (bound : List String) (value : VE) : Prop :=
  ∀ x ∈ value.walker descends, x ∈ bound

/-- what soundness needs: every free variable is bound -/
def ScopeSound (bound : List String) (value : VE) : Prop := ∀ x ∈ value.free, x ∈ bound

end Nervus.WherePush
