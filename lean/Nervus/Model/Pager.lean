/-
  Nervus.Model.Pager — executable model of nervusdb-storage/src/pager.rs (bitmap allocator) and of
  WHO writes WHICH page (C18).

  * `Pg`      = the bitmap (set of allocated data pages) + `next_page_id`; `allocate`, `ensure`,
                `free` mirror Pager::{allocate_page, ensure_allocated, free_page}.
  * `Sys`     = pager + ownership claims (page, owner) + the node table's (i2e_start, i2e_len) +
                abstract page contents (last writer, write counter).
  * `Op`      = what the engine does to pages, at the granularity "who allocates / writes what":
                `createNode`  — IdMap::apply_create_node: the record of node k goes to page
                                `start + k / RECORDS_PER_PAGE`, through `ensure_allocated`, whether or
                                not that page already belongs to someone else;
                `alloc o`     — structure `o` (a B-tree, a blob chain, a CSR segment, the index
                                catalog, the statistics blob) allocates a page and writes it;
                `rewrite o p` — structure `o` rewrites a page it reached from its own root.
  The engine never frees a page (Pager::free_page has no caller outside WAL page replay, which nothing
  produces, and BlobStore::delete, which nothing calls); `free` exists for the pager-level stream.
  Core only.
-/
import Nervus.Model.BTree
namespace Nervus.Pager
open Nervus

structure Cfg where
  firstPage : Nat        -- FIRST_DATA_PAGE_ID
  maxPages : Nat         -- BITMAP_BITS
  recsPerPage : Nat      -- I2E_RECORDS_PER_PAGE
  deriving Repr, DecidableEq

inductive Err where
  | range | notAllocated | notOwner
  deriving Repr, DecidableEq

structure Pg where
  bits : List Nat        -- data pages whose bitmap bit is set
  next : Nat             -- meta.next_page_id
  deriving Repr, DecidableEq

def Pg.isAlloc (s : Pg) (p : Nat) : Bool := s.bits.contains p

/-- Pager::open on a new file -/
def fresh (c : Cfg) : Pg := ⟨[], c.firstPage⟩

/-- Bitmap::find_free_in_range(start, start + n) -/
def findFree (s : Pg) : Nat → Nat → Option Nat
  | _, 0 => none
  | p, n+1 => if s.isAlloc p then findFree s (p + 1) n else some p

/-- Pager::validate_data_page_id -/
def valid (c : Cfg) (p : Nat) : Bool := c.firstPage ≤ p && p < c.maxPages

/-- mirrors Pager::ensure_allocated: marks ANY valid page, moves next_page_id past it -/
def ensure (c : Cfg) (s : Pg) (p : Nat) : Except Err Pg :=
  if !valid c p then .error .range
  else .ok { bits := if s.isAlloc p then s.bits else p :: s.bits, next := if s.next ≤ p then p + 1 else s.next }

/-- mirrors Pager::allocate_page: first free page below next_page_id, else next_page_id -/
def allocate (c : Cfg) (s : Pg) : Except Err (Nat × Pg) :=
  let cand := (findFree s c.firstPage (s.next - c.firstPage)).getD s.next
  if c.maxPages ≤ cand then .error .range
  else
    match ensure c { s with next := if cand = s.next then cand + 1 else s.next } cand with
    | .ok s' => .ok (cand, s')
    | .error e => .error e

/-- mirrors Pager::free_page -/
def free (c : Cfg) (s : Pg) (p : Nat) : Except Err Pg :=
  if !valid c p then .error .range
  else if !s.isAlloc p then .error .notAllocated
  else .ok { s with bits := s.bits.erase p }

/-- mirrors the checks of Pager::read_page / write_page -/
def access (c : Cfg) (s : Pg) (p : Nat) : Except Err Unit :=
  if !valid c p then .error .range
  else if !s.isAlloc p then .error .notAllocated
  else .ok ()

/-! ### who owns what -/

inductive Owner where
  | i2e                   -- the node table (IdMap i2e records)
  | other (id : Nat)      -- any other structure: a B-tree, a blob chain, a CSR segment, the catalog, …
  deriving Repr, DecidableEq

structure Sys where
  pg : Pg
  own : List (Nat × Owner)                     -- ownership claims, newest first
  i2eStart : Option Nat                        -- meta.i2e_start_page_id
  i2eLen : Nat                                 -- meta.i2e_len
  data : BTree.PageMap (Owner × Nat)           -- page ↦ (last writer, its write counter)
  clock : Nat
  deriving Repr, DecidableEq

def init (c : Cfg) : Sys := ⟨fresh c, [], none, 0, [], 0⟩

inductive Op where
  | createNode
  | alloc (o : Nat)
  | rewrite (o : Nat) (p : Nat)
  deriving Repr, DecidableEq

def owners (s : Sys) (p : Nat) : List Owner := (s.own.filter (·.1 == p)).map (·.2)

def claim (s : Sys) (p : Nat) (o : Owner) : Sys :=
  if s.own.contains (p, o) then s else { s with own := (p, o) :: s.own }

def writePage (s : Sys) (p : Nat) (o : Owner) : Sys :=
  { s with data := s.data.set p (o, s.clock), clock := s.clock + 1 }

/-- mirrors idmap.rs i2e_location: page of the record of internal id `k` -/
def i2ePage (c : Cfg) (start k : Nat) : Nat := start + k / c.recsPerPage

/-- first half of IdMap::apply_create_node: `i2e_start` is allocated on first use -/
def ensureStart (c : Cfg) (s : Sys) : Except Err (Nat × Sys) :=
  match s.i2eStart with
  | some st => .ok (st, s)
  | none =>
    match allocate c s.pg with
    | .ok (p, pg') => .ok (p, claim { s with pg := pg', i2eStart := some p } p .i2e)
    | .error e => .error e

/-- mirrors write_i2e_record: ensure_allocated(start + k/512) ; read ; patch the record ; write -/
def putRecord (c : Cfg) (st : Nat) (s : Sys) : Except Err Sys :=
  let page := i2ePage c st s.i2eLen
  match ensure c s.pg page with
  | .error e => .error e
  | .ok pg' =>
    .ok { writePage (claim { s with pg := pg' } page .i2e) page .i2e with i2eLen := s.i2eLen + 1 }

/-- mirrors IdMap::apply_create_node (the page side) -/
def createNode (c : Cfg) (s : Sys) : Except Err Sys :=
  match ensureStart c s with
  | .error e => .error e
  | .ok (st, s1) => putRecord c st s1

def step (c : Cfg) (s : Sys) : Op → Except Err Sys
  | .createNode => createNode c s
  | .alloc o =>
    match allocate c s.pg with
    | .ok (p, pg') => .ok (writePage (claim { s with pg := pg' } p (.other o)) p (.other o))
    | .error e => .error e
  | .rewrite o p =>
    if s.own.contains (p, .other o) then
      match access c s.pg p with
      | .ok () => .ok (writePage s p (.other o))
      | .error e => .error e
    else .error .notOwner

def writer : Op → Owner
  | .createNode => .i2e
  | .alloc o => .other o
  | .rewrite o _ => .other o

/-- the known-finding trigger: the next node record goes to a page that the node table has not
    claimed yet and that is already claimed by another structure -/
def i2eConflict (c : Cfg) (s : Sys) : Op → Bool
  | .createNode =>
    match s.i2eStart with
    | none => false
    | some st =>
      let page := i2ePage c st s.i2eLen
      !s.own.contains (page, .i2e) && (s.own.map (·.1)).contains page
  | _ => false

/-- run a history; failed ops (page ids exhausted, rewrite of a page one does not own) change nothing.
    The flag says whether some step met the trigger. -/
def run (c : Cfg) : Sys → List Op → Sys × Bool
  | s, [] => (s, false)
  | s, op :: ops =>
    let t := i2eConflict c s op
    let s' := match step c s op with | .ok s' => s' | .error _ => s
    let (s'', t') := run c s' ops
    (s'', t || t')

/-- page ownership is a partial function: no page is claimed twice -/
def ownedOnce (s : Sys) : Prop := (s.own.map (·.1)).Nodup
instance (s : Sys) : Decidable (ownedOnce s) := by unfold ownedOnce; exact inferInstance

end Nervus.Pager
