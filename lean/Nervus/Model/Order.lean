/-
  Nervus.Model.Order — ORDER BY, SKIP, LIMIT
  (nervusdb-query/src/executor/plan_mid.rs `execute_order_by`, plan_tail.rs `execute_skip/execute_limit`).

  `execute_order_by` materialises the input, evaluates the sort keys of every row and calls
  `Vec::sort_by` with a closure that walks the keys.  `sort_by` is the standard library's stable sort;
  *given a comparator that is a total preorder* its result is the unique stable sorted permutation, which
  is what `isort` computes (trusted base: std's `sort_by` contract).  Rows carrying an `Err` are outside
  this model (C22).   Import-free (core only).
-/
import Nervus.Model.Eval
import Nervus.Model.Generated.OrderBy
namespace Nervus
namespace Order
open Eval

/-- `Direction::{Ascending, Descending}` -/
inductive Dir
  | asc | desc
  deriving Repr, DecidableEq

/-- a materialised row: its evaluated sort keys (value and direction of each ORDER BY item) and a payload -/
abbrev Keyed (α : Type) := List (Value × Dir) × α

/-- mirrors the closure given to `sort_by` in `execute_order_by`: walk `a.1.iter().zip(b.1.iter())`,
    the first key that is not `Equal` decides, reversed when *a's* direction is descending. -/
def keyCompare (E : Env) : List (Value × Dir) → List (Value × Dir) → Ordering
  | (va, da) :: as, (vb, _) :: bs =>
    let o := orderCompare E va vb
    if o == .eq then keyCompare E as bs
    else if da == .asc then o else o.swap
  | _, _ => .eq

/-- insertion into a sorted list, *before* the first element that is not smaller (keeps equal elements
    in their original relative order when used from the right) -/
def insertSorted {α} (cmp : α → α → Ordering) (x : α) : List α → List α
  | [] => [x]
  | y :: ys => if cmp x y != .gt then x :: y :: ys else y :: insertSorted cmp x ys

/-- stable insertion sort: what a stable sort returns for a total-preorder comparator -/
def isort {α} (cmp : α → α → Ordering) : List α → List α
  | [] => []
  | x :: xs => insertSorted cmp x (isort cmp xs)

/-- `execute_order_by` on rows whose keys evaluated without error -/
def orderBy {α} (E : Env) (rows : List (Keyed α)) : List (Keyed α) :=
  isort (fun a b => keyCompare E a.1 b.1) rows

/-- `Iterator::skip(n)` (plan_tail.rs `execute_skip`) -/
def skip {α} (n : Nat) (rows : List α) : List α := rows.drop n

/-- `Iterator::take(n)` (plan_tail.rs `execute_limit`) -/
def limit {α} (n : Nat) (rows : List α) : List α := rows.take n

/-- The shape of the source this model covers, regenerated on every run (`Generated/OrderBy.lean`, recogniser
    `table_orderby` of tools/extract.py; unknown shapes make the recogniser fail): `execute_order_by` takes no row
    bound and buffers + sorts its WHOLE input; `execute_skip` / `execute_limit` are `skip(n)` / `take(n)` over the
    unrestricted input plan (errors aside: C22).  A top-k variant of ORDER BY would have to satisfy
    `Proofs.TopK.topk_drop_sound`. -/
def orderByBuffersAll : Bool := !Generated.orderByPrunesWithBound && Generated.skipLimitArePlain

/-- `ORDER BY … SKIP s LIMIT l`: the planner stacks Limit(Skip(OrderBy(input))) and each operator executes its
    input plan unrestricted (`execute_plan(snapshot, input, params)`) -/
def orderBySkipLimit {α} (E : Env) (s : Option Nat) (l : Option Nat) (rows : List (Keyed α)) : List (Keyed α) :=
  let sorted := orderBy E rows
  let skipped := match s with | some n => skip n sorted | none => sorted
  match l with | some n => limit n skipped | none => skipped

end Order
end Nervus
