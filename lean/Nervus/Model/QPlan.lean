/-
  Model of the physical plan of nervusdb-query (executor/plan_types.rs `Plan`), restricted to the operators the
  planner emits for fragment F1, and of query_api/plan_render.rs `render_plan` (the EXPLAIN text; expressions
  are printed with Rust's derived `Debug`).  The harness compares the real `EXPLAIN <query>` text with
  `render (compile q)`; that pins the compile model.
  Not modelled (never produced for F1 queries): `input: None` of the Match* operators (match_compile always
  supplies the scan as input), the `optional`/`optional_unbind` fields (compile_m3_plan clears `optional` on the
  MATCH it compiles and wraps the clause in OptionalWhereFixup instead), `limit`/`project` push-down fields
  (always None / empty).
-/
import Nervus.Spec.CyAst
namespace Nervus.Cy

/-- ast.rs `AggregateFunction` (the variants of the fragment) -/
structure AggFn where
  kind : AggKind
  arg : Expr          -- ignored for countStar
deriving DecidableEq, Repr, Inhabited

/-- query_api.rs `BindingKind` -/
inductive Kind | node | rel | relList | path | scalar | unknown
deriving DecidableEq, Repr, Inhabited

inductive Plan
  | returnOne
  | nodeScan (alias : String) (label : Option String)
  | matchOut (input : Plan) (src : String) (rels : List String) (edge : Option String) (dst : String)
      (dstLabels : List String) (srcPrebound : Bool) (pathAlias : Option String)
  | matchIn (input : Plan) (src : String) (rels : List String) (edge : Option String) (dst : String)
      (dstLabels : List String) (srcPrebound : Bool) (pathAlias : Option String)
  | matchUndirected (input : Plan) (src : String) (rels : List String) (edge : Option String) (dst : String)
      (dstLabels : List String) (srcPrebound : Bool) (pathAlias : Option String)
  | filter (input : Plan) (pred : Expr)
  | optionalWhereFixup (outer filtered : Plan) (nullAliases : List String)
  | project (input : Plan) (projs : List (String × Expr))
  | aggregate (input : Plan) (groupBy : List String) (aggs : List (AggFn × String))
  | orderBy (input : Plan) (items : List (Expr × Bool))
  | skip (input : Plan) (n : Lit)
  | limit (input : Plan) (n : Lit)
  | distinct (input : Plan)
  | unwind (input : Plan) (e : Expr) (alias : String)
  | indexSeek (alias label field : String) (value : Expr) (fallback : Plan)
  | cartesianProduct (left right : Plan)
deriving DecidableEq, Repr, Inhabited

/-! ### Rust `Debug` of AST pieces -/

def dbgStr (s : String) : String := "\"" ++ s ++ "\""
def dbgOptStr : Option String → String
  | none => "None" | some s => "Some(" ++ dbgStr s ++ ")"
def dbgStrList (xs : List String) : String := "[" ++ ", ".intercalate (xs.map dbgStr) ++ "]"

def dbgLit : Lit → String
  | .null => "Literal(Null)"
  | .bool b => "Literal(Boolean(" ++ (if b then "true" else "false") ++ "))"
  | .int i => "Literal(Integer(" ++ toString i ++ "))"
  | .str s => "Literal(String(" ++ dbgStr s ++ "))"

def dbgCmp : CmpOp → String
  | .eq => "Equals" | .ne => "NotEquals" | .lt => "LessThan" | .le => "LessEqual"
  | .gt => "GreaterThan" | .ge => "GreaterEqual"
def dbgBoolOp : BoolOp → String
  | .and => "And" | .or => "Or" | .xor => "Xor"

def dbgBin (l op r : String) : String :=
  "Binary(BinaryExpression { left: " ++ l ++ ", operator: " ++ op ++ ", right: " ++ r ++ " })"

def dbgExpr : Expr → String
  | .lit l => dbgLit l
  | .var x => "Variable(" ++ dbgStr x ++ ")"
  | .prop x k => "PropertyAccess(PropertyAccess { variable: " ++ dbgStr x ++ ", property: " ++ dbgStr k ++ " })"
  | .param p => "Parameter(" ++ dbgStr p ++ ")"
  | .cmp op a b => dbgBin (dbgExpr a) (dbgCmp op) (dbgExpr b)
  | .bool op a b => dbgBin (dbgExpr a) (dbgBoolOp op) (dbgExpr b)
  | .not a => "Unary(UnaryExpression { operator: Not, operand: " ++ dbgExpr a ++ " })"
  | .isNull a => dbgBin (dbgExpr a) "IsNull" "Literal(Null)"
  | .isNotNull a => dbgBin (dbgExpr a) "IsNotNull" "Literal(Null)"
  | .hasLabel a l => dbgBin (dbgExpr a) "HasLabel" ("Literal(String(" ++ dbgStr l ++ "))")
  | .listLit xs => "List([" ++ ", ".intercalate (xs.map dbgLit) ++ "])"

def dbgAgg (f : AggFn) : String :=
  match f.kind with
  | .countStar => "Count(None)"
  | .count => "Count(Some(" ++ dbgExpr f.arg ++ "))"
  | .countDistinct => "CountDistinct(" ++ dbgExpr f.arg ++ ")"
  | .sum => "Sum(" ++ dbgExpr f.arg ++ ")"
  | .min => "Min(" ++ dbgExpr f.arg ++ ")"
  | .max => "Max(" ++ dbgExpr f.arg ++ ")"
  | .collect => "Collect(" ++ dbgExpr f.arg ++ ")"

/-! ### plan_render.rs `render_plan` -/

def pad (d : Nat) : String := String.join (List.replicate d "  ")

def matchLine (name src : String) (rels : List String) (edge : Option String) (dst : String)
    (pathAlias : Option String) : String :=
  name ++ "(src=" ++ src ++ ", rels=" ++ dbgStrList rels ++ ", edge=" ++ dbgOptStr edge ++ ", dst=" ++ dst ++
    ", limit=None" ++ (match pathAlias with | some p => " path=" ++ p | none => "") ++ ")"

/-- lines of the rendering (mirrors `go`; note that MatchOut does not print its input, and IndexSeek does not
    print its fallback) -/
def renderLines : Plan → Nat → List String
  | .returnOne, d => [pad d ++ "ReturnOne"]
  | .nodeScan a l, d => [pad d ++ "NodeScan(alias=" ++ a ++ ", label=" ++ dbgOptStr l ++ ")"]
  | .matchOut _ s rs e t _ _ p, d => [pad d ++ matchLine "MatchOut" s rs e t p]
  | .matchIn i s rs e t _ _ p, d => (pad d ++ matchLine "MatchIn" s rs e t p) :: renderLines i (d + 1)
  | .matchUndirected i s rs e t _ _ p, d =>
    (pad d ++ matchLine "MatchUndirected" s rs e t p) :: renderLines i (d + 1)
  | .filter i e, d => (pad d ++ "Filter(predicate=" ++ dbgExpr e ++ ")") :: renderLines i (d + 1)
  | .optionalWhereFixup o f ns, d =>
    [pad d ++ "OptionalWhereFixup(null_aliases=" ++ dbgStrList ns ++ ")", pad d ++ "  Outer:"] ++
      renderLines o (d + 2) ++ [pad d ++ "  Filtered:"] ++ renderLines f (d + 2)
  | .project i ps, d => (pad d ++ "Project(len=" ++ toString ps.length ++ ")") :: renderLines i (d + 1)
  | .aggregate i gb as, d =>
    (pad d ++ "Aggregate(group_by=" ++ dbgStrList gb ++ ", aggregates=[" ++
      ", ".intercalate (as.map fun (f, a) => "(" ++ dbgAgg f ++ ", " ++ dbgStr a ++ ")") ++ "])") ::
      renderLines i (d + 1)
  | .orderBy i items, d =>
    (pad d ++ "OrderBy(items=[" ++ ", ".intercalate (items.map fun (e, asc) =>
      "(" ++ dbgExpr e ++ ", " ++ (if asc then "Ascending" else "Descending") ++ ")") ++ "])") ::
      renderLines i (d + 1)
  | .skip i n, d => (pad d ++ "Skip(skip=" ++ dbgLit n ++ ")") :: renderLines i (d + 1)
  | .limit i n, d => (pad d ++ "Limit(limit=" ++ dbgLit n ++ ")") :: renderLines i (d + 1)
  | .distinct i, d => (pad d ++ "Distinct") :: renderLines i (d + 1)
  | .unwind i e a, d =>
    (pad d ++ "Unwind(alias=" ++ a ++ ", expression=" ++ dbgExpr e ++ ")") :: renderLines i (d + 1)
  | .indexSeek a l f v _, d =>
    [pad d ++ "IndexSeek(alias=" ++ a ++ ", label=" ++ l ++ ", field=" ++ f ++ ", value=" ++ dbgExpr v ++ ")"]
  | .cartesianProduct l r, d => (pad d ++ "CartesianProduct") :: (renderLines l (d + 1) ++ renderLines r (d + 1))

/-- the EXPLAIN text with newlines written `" // "` (as the harness prints it) -/
def render (p : Plan) : String := " // ".intercalate (renderLines p 0)

end Nervus.Cy
