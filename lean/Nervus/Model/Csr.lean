/-
  Model/Csr.lean — mirrors nervusdb-storage/src/csr.rs (CsrSegment: neighbors, incoming_neighbors,
  the reverse-index construction in `persist`) and the CSR construction shared by
  engine.rs `build_segment_from_runs` and bulkload.rs `build_segments`.
  Every slice/index operation that can panic in Rust yields `none`.  core/Std imports only.
-/
import Nervus.Model.Run
namespace Nervus.Storage

/-- csr.rs CsrSegment (EdgeRecord = (rel, dst); `inEdges` stores the SRC in the dst field) -/
structure Seg where
  id : Nat
  minSrc : Nat
  maxSrc : Nat
  minDst : Nat
  maxDst : Nat
  offsets : List Nat
  edges : List (Nat × Nat)
  inOffsets : List Nat
  inEdges : List (Nat × Nat)
deriving DecidableEq, Repr

/-- `&v[s..e]` (panics unless s ≤ e ≤ len) -/
def slice {α} (xs : List α) (s e : Nat) : Option (List α) :=
  if s ≤ e ∧ e ≤ xs.length then some ((xs.drop s).take (e - s)) else none

def recOk (rel : Option Nat) (r : Nat × Nat) : Bool :=
  match rel with
  | none => true
  | some x => r.1 == x

namespace Seg

/-- CsrSegment::neighbors -/
def neighbors (g : Seg) (src : Nat) (rel : Option Nat) : Option (List Edge) :=
  if src < g.minSrc || src > g.maxSrc then some []
  else
    let idx := src - g.minSrc
    match g.offsets[idx]?, g.offsets[idx + 1]? with
    | some s, some e =>
      (slice g.edges s e).map (fun es => (es.filter (recOk rel)).map (fun r => ⟨src, r.1, r.2⟩))
    | _, _ => none

/-- CsrSegment::incoming_neighbors; `guard` = the emptiness guard added by the C05/C30 `fix:`
    (an edge-free segment has `min_dst = max_dst = 0` and NO reverse offsets) -/
def incomingG (guard : Bool) (g : Seg) (dst : Nat) (rel : Option Nat) : Option (List Edge) :=
  if (guard && g.inOffsets.isEmpty) || dst < g.minDst || dst > g.maxDst then some []
  else
    let idx := dst - g.minDst
    match g.inOffsets[idx]?, g.inOffsets[idx + 1]? with
    | some s, some e =>
      (slice g.inEdges s e).map (fun es => (es.filter (recOk rel)).map (fun r => ⟨r.2, r.1, dst⟩))
    | _, _ => none

end Seg

/-- offsets of consecutive groups: `[c, c+l₀, c+l₀+l₁, …]` -/
def prefixSums : List Nat → Nat → List Nat
  | [], c => [c]
  | l :: ls, c => c :: prefixSums ls (c + l)

def rdLe (a b : Nat × Nat) : Bool := a.1 < b.1 || (a.1 == b.1 && a.2 ≤ b.2)

/-- the `(rel, dst)` records of source `s`, `sort_by_key(|r| (r.rel, r.dst))` -/
def srcGroup (es : List Edge) (s : Nat) : List (Nat × Nat) :=
  isort rdLe ((es.filter (·.src == s)).map (fun e => (e.rel, e.dst)))

def emptySeg (id : Nat) : Seg :=
  { id, minSrc := 0, maxSrc := 0, minDst := 0, maxDst := 0, offsets := [0, 0], edges := [],
    inOffsets := [], inEdges := [] }

/-- the CSR construction of engine.rs build_segment_from_runs (second half) and
    bulkload.rs build_segments: sort, group by src over `min_src..=max_src`, offsets = running count -/
def buildForward (id : Nat) (edges : List Edge) : Seg :=
  let es := isort Edge.le edges
  if es.isEmpty then emptySeg id
  else
    let minSrc := es.foldl (fun m e => min m e.src) 4294967295
    let maxSrc := es.foldl (fun m e => max m e.src) 0
    let groups := (List.range (maxSrc - minSrc + 1)).map (fun i => srcGroup es (minSrc + i))
    { id, minSrc, maxSrc, minDst := 0, maxDst := 0,
      offsets := prefixSums (groups.map List.length) 0, edges := groups.flatten,
      inOffsets := [], inEdges := [] }

/-- `edges_with_src` of CsrSegment::persist: every record with the source its offset interval names -/
def Seg.expand (g : Seg) : List Edge :=
  (List.range (g.offsets.length - 1)).flatMap (fun i =>
    match g.offsets[i]?, g.offsets[i + 1]? with
    | some s, some e => ((g.edges.drop s).take (e - s)).map (fun r => ⟨g.minSrc + i, r.1, r.2⟩)
    | _, _ => [])

/-- `sort_by_key(|e| (e.dst, e.rel, e.src))` -/
def dstLe (a b : Edge) : Bool :=
  a.dst < b.dst || (a.dst == b.dst && (a.rel < b.rel || (a.rel == b.rel && a.src ≤ b.src)))

/-- CsrSegment::persist, reverse-index part (the page writes are not modelled): built only when
    there are edges and no reverse index yet; the offsets loop computes the running count per dst -/
def Seg.persist (g : Seg) : Seg :=
  if !g.edges.isEmpty && g.inEdges.isEmpty then
    let ews := isort dstLe g.expand
    match ews.head?, ews.getLast? with
    | some f, some l =>
      let groups := (List.range (l.dst - f.dst + 1)).map (fun j =>
        (ews.filter (·.dst == f.dst + j)).map (fun e => (e.rel, e.src)))
      { g with minDst := f.dst, maxDst := l.dst,
               inOffsets := prefixSums (groups.map List.length) 0, inEdges := groups.flatten }
    | _, _ => g
  else g

/-- engine.rs build_segment_from_runs, first half: newest→oldest, key-based tombstones.
    `ownFirst = true` is the pinned behaviour: a run's tombstones are added to the blocked sets
    BEFORE its own edges are filtered (unlike the read path, where a run's edge tombstones never
    hide the run's own edges); `false` after the C05 `fix:` (edge tombstones are added afterwards). -/
def collectRunEdges (ownFirst : Bool) : List Run → List Nat → List Edge → List Edge
  | [], _, _ => []
  | r :: rs, bn, be =>
    let bn' := bn ++ r.tombNodes
    let be' := be ++ r.tombEdges
    let beCur := if ownFirst then be' else be
    let cur := r.edges.filter (fun e => !(bn'.contains e.src || bn'.contains e.dst) && !beCur.contains e)
    cur ++ collectRunEdges ownFirst rs bn' be'

end Nervus.Storage
