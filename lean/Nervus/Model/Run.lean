/-
  Model/Run.lean — the read path over the published L0 runs (newest first):
  read_path_iters.rs (NeighborsIter / IncomingNeighborsIter, run phase), read_path_overlay.rs
  (property overlay), read_path_nodes.rs (node tombstones).  core/Std imports only.
-/
import Nervus.Model.MemTable
namespace Nervus.Storage

/-- optional relationship-type filter of `neighbors(src, rel)` -/
def relOk (rel : Option Nat) (e : Edge) : Bool :=
  match rel with
  | none => true
  | some r => e.rel == r

/-- read_path_neighbors.rs edge_blocked_outgoing -/
def blockedOut (bn : List Nat) (be : List Edge) (e : Edge) : Bool := bn.contains e.dst || be.contains e

/-- read_path_neighbors.rs edge_blocked_incoming -/
def blockedIn (bn : List Nat) (be : List Edge) (e : Edge) : Bool := bn.contains e.src || be.contains e

/-- read_path_iters.rs NeighborsIter, run phase.  `bn`/`be` are `blocked_nodes`/`blocked_edges`,
    i.e. the tombstones of the runs ALREADY left behind: the tombstones of the run being read are
    only *pending* and block older runs, never the run's own edges (except that a run which
    tombstones `src` yields nothing).  Result: the edges yielded, and the final blocked sets, or
    `none` when the iterator terminated (`src` tombstoned) and must not look at the segments. -/
def outRuns (src : Nat) (rel : Option Nat) :
    List Run → List Nat → List Edge → List Edge × Option (List Nat × List Edge)
  | [], bn, be => if bn.contains src then ([], none) else ([], some (bn, be))
  | r :: rs, bn, be =>
    if bn.contains src then ([], none)
    else
      let cur := if r.tombNodes.contains src then []
                 else (r.edgesForSrc src).filter (fun e => relOk rel e && !blockedOut bn be e)
      let (rest, fin) := outRuns src rel rs (bn ++ r.tombNodes) (be ++ r.tombEdges)
      (cur ++ rest, fin)

/-- read_path_iters.rs IncomingNeighborsIter, run phase -/
def inRuns (dst : Nat) (rel : Option Nat) :
    List Run → List Nat → List Edge → List Edge × Option (List Nat × List Edge)
  | [], bn, be => if bn.contains dst then ([], none) else ([], some (bn, be))
  | r :: rs, bn, be =>
    if bn.contains dst then ([], none)
    else
      let cur := if r.tombNodes.contains dst then []
                 else (r.edgesForDst dst).filter (fun e => relOk rel e && !blockedIn bn be e)
      let (rest, fin) := inRuns dst rel rs (bn ++ r.tombNodes) (be ++ r.tombEdges)
      (cur ++ rest, fin)

/-- read_path_overlay.rs node_property_from_runs: newest run that removed or set the key decides;
    "removed" and "never seen" are both `None` (the caller then falls through to the store). -/
def npropRuns (n k : Nat) : List Run → Option PV
  | [] => none
  | r :: rs =>
    if r.nDel.contains (n, k) then none
    else match r.nprops.lookup (n, k) with
      | some v => some v
      | none => npropRuns n k rs

/-- read_path_overlay.rs edge_property_from_runs -/
def epropRuns (e : Edge) (k : Nat) : List Run → Option PV
  | [] => none
  | r :: rs =>
    if r.eDel.contains (e, k) then none
    else match r.eprops.lookup (e, k) with
      | some v => some v
      | none => epropRuns e k rs

/-- one step of the merge loops: `if resolved.insert(key) { merged.insert(key, value) }` -/
def mergeStep (acc : List (Nat × PV) × List Nat) (kv : Nat × PV) : List (Nat × PV) × List Nat :=
  if acc.2.contains kv.1 then acc else (acc.1 ++ [kv], kv.1 :: acc.2)

/-- read_path_overlay.rs merge_node_properties_from_runs (`merged`, `resolved` accumulators) -/
def mergeNProps (n : Nat) : List Run → List (Nat × PV) → List Nat → List (Nat × PV)
  | [], m, _ => m
  | r :: rs, m, res =>
    let res1 := res ++ (r.nDel.filter (·.1 == n)).map (·.2)
    let ps := (r.nprops.filter (·.1.1 == n)).map (fun p => (p.1.2, p.2))
    let acc := ps.foldl mergeStep (m, res1)
    mergeNProps n rs acc.1 acc.2

/-- read_path_overlay.rs merge_edge_properties_from_runs -/
def mergeEProps (e : Edge) : List Run → List (Nat × PV) → List Nat → List (Nat × PV)
  | [], m, _ => m
  | r :: rs, m, res =>
    let res1 := res ++ (r.eDel.filter (·.1 == e)).map (·.2)
    let ps := (r.eprops.filter (·.1.1 == e)).map (fun p => (p.1.2, p.2))
    let acc := ps.foldl mergeStep (m, res1)
    mergeEProps e rs acc.1 acc.2

/-- read_path_nodes.rs is_tombstoned_node_in_runs / read_path_tombstones.rs collect_tombstoned_nodes -/
def isTombNode (runs : List Run) (n : Nat) : Bool := runs.any (·.tombNodes.contains n)

/-- read_path_nodes.rs live_node_ids: dense ids minus run tombstones -/
def liveNodeIds (max : Nat) (runs : List Run) : List Nat :=
  (List.range max).filter (fun n => !isTombNode runs n)

end Nervus.Storage
