/-
  Nervus.Model.Handles — database handles per path, across processes (C10).

  mirrors nervusdb/src/lib.rs `Db::open_paths` → nervusdb-storage `GraphEngine::open` → `Pager::open`:
  the page file is opened read+write; whether `Pager::open` then takes an exclusive advisory lock on
  it (`File::try_lock`, held until the file is closed) is the parameter `guard`, instantiated by the
  regenerated `Generated.openTakesLock`.  Every handle can write (`Db::begin_write`, `compact`, …), so
  "writers of a path" = open handles of that path.
  The operating system's lock table is part of the state; its contract is the parameter `os`
  (`try_lock` answers from the table) — the theorems take its soundness as an explicit hypothesis.
-/
import Nervus.Model.Generated.OpenLock
namespace Nervus.Handles

structure Handle where
  id : Nat
  proc : Nat
  path : Nat
  deriving DecidableEq, Repr

structure State where
  handles : List Handle
  lockTable : Nat → Option Nat     -- path ↦ id of the handle whose open file description holds the lock
  nextId : Nat

inductive Label where
  | open (proc path : Nat)          -- Db::open
  | close (id : Nat)                -- Db::close / drop: the file is closed, the OS releases the lock
  | crash (proc : Nat)              -- process death: all its files are closed by the OS
  deriving DecidableEq, Repr

/-- `File::try_lock` as the OS implements it: a decision from the current lock table -/
abbrev OsTryLock := (Nat → Option Nat) → Nat → Bool

/-- the contract assumed of the OS: `try_lock` succeeds only if no open file description holds the lock -/
def OsSound (os : OsTryLock) : Prop := ∀ tbl p, os tbl p = true → tbl p = none

/-- the intended OS: succeeds exactly when the table entry is free -/
def osFlock : OsTryLock := fun tbl p => (tbl p).isNone

inductive Outcome where
  | ok (id : Nat) | busy | noop
  deriving DecidableEq, Repr

def release (tbl : Nat → Option Nat) (ids : List Nat) : Nat → Option Nat :=
  fun p => match tbl p with
    | some i => if ids.contains i then none else some i
    | none => none

def step (guard : Bool) (os : OsTryLock) (s : State) : Label → State × Outcome
  | .open proc path =>
    if guard then
      if os s.lockTable path then
        ({ handles := ⟨s.nextId, proc, path⟩ :: s.handles,
           lockTable := fun p => if p = path then some s.nextId else s.lockTable p,
           nextId := s.nextId + 1 }, .ok s.nextId)
      else (s, .busy)                -- Error::Io(WouldBlock): the open is refused
    else
      ({ s with handles := ⟨s.nextId, proc, path⟩ :: s.handles, nextId := s.nextId + 1 }, .ok s.nextId)
  | .close id =>
    ({ s with handles := s.handles.filter (fun h => h.id != id), lockTable := release s.lockTable [id] }, .noop)
  | .crash proc =>
    let dead := (s.handles.filter (fun h => h.proc == proc)).map (·.id)
    ({ s with handles := s.handles.filter (fun h => h.proc != proc), lockTable := release s.lockTable dead }, .noop)

def init : State := { handles := [], lockTable := fun _ => none, nextId := 0 }

inductive Reach (guard : Bool) (os : OsTryLock) : State → Prop where
  | init : Reach guard os init
  | step {s} (l : Label) : Reach guard os s → Reach guard os (step guard os s l).1

/-- handles that can write the database at `path` -/
def writers (s : State) (path : Nat) : List Handle := s.handles.filter (fun h => h.path == path)

end Nervus.Handles
