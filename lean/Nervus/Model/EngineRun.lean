/-
  Model/EngineRun.lean — histories on the engine model: how a staged write of the history alphabet
  (`GraphSpec.TxOp`, names as opaque tokens) drives the storage write API (names are interned with
  `get_or_create_label` inside the transaction, the way nervusdb-query does and the harness stream
  does), transactions, maintenance operations, reopen.  core/Std imports only.
-/
import Nervus.Model.Engine
import Nervus.Spec.Graph
namespace Nervus.Storage
open Nervus.GraphSpec (TxOp Op)

/-- the label id a `node` write passes to `create_node` (and the engine after interning it) -/
def internLabel (s : Engine) : Option Nat → Engine × Nat
  | some l => s.getOrCreateLabel l
  | none => (s, labelMax)

/-- one staged write: intern the names, call the WriteTxn method -/
def stepTx (c : Cfg) (st : Engine × Txn) : TxOp → Engine × Txn
  | .node x lab =>
    match st.2.createNode (internLabel st.1 lab).1 x (internLabel st.1 lab).2 with
    | some r => ((internLabel st.1 lab).1, r.1)
    | none => ((internLabel st.1 lab).1, st.2)
  | .labelAdd n l => ((st.1.getOrCreateLabel l).1, st.2.addNodeLabel n (st.1.getOrCreateLabel l).2)
  | .labelDel n l => ((st.1.getOrCreateLabel l).1, st.2.removeNodeLabel n (st.1.getOrCreateLabel l).2)
  | .edge a t b => ((st.1.getOrCreateLabel t).1, st.2.createEdge ⟨a, (st.1.getOrCreateLabel t).2, b⟩)
  | .tombNode n => (st.1, st.2.tombstoneNode n)
  | .tombEdge a t b => ((st.1.getOrCreateLabel t).1, st.2.tombstoneEdge ⟨a, (st.1.getOrCreateLabel t).2, b⟩)
  | .nprop n k v => (st.1, st.2.setNodeProp n k v)
  | .npropDel n k => (st.1, st.2.removeNodeProp n k)
  | .eprop a t b k v =>
    ((st.1.getOrCreateLabel t).1, st.2.setEdgeProp ⟨a, (st.1.getOrCreateLabel t).2, b⟩ k v)
  | .epropDel a t b k =>
    ((st.1.getOrCreateLabel t).1, st.2.removeEdgeProp ⟨a, (st.1.getOrCreateLabel t).2, b⟩ k)
  | .vec n v => st.2.setVector c st.1 n v

/-- begin_write, the staged writes, then commit or drop -/
def runTx (c : Cfg) (s : Engine) (ops : List TxOp) (commit : Bool) : Engine :=
  let st := ops.foldl (stepTx c) s.beginWrite
  if commit then (st.1.commit c st.2).1 else st.1.abort st.2

/-- drop the engine and open the files again -/
def Engine.reopen (s : Engine) : Except OpenErr Engine := Engine.open s.disk

def runOp (c : Cfg) (s : Engine) : Op → Except OpenErr Engine
  | .tx ops commit => .ok (runTx c s ops commit)
  | .compact => .ok (s.compact c)
  | .close => s.checkpointOnClose.reopen
  | .reopen => s.reopen

/-- a write transaction whose commit fails at its `j`-th log append -/
def runTxFail (c : Cfg) (s : Engine) (ops : List TxOp) (j : Nat) : Engine :=
  let st := ops.foldl (stepTx c) s.beginWrite
  st.1.commitFail c st.2 j

/-- histories that also hold failed commits (C07) -/
inductive XOp
  | op (o : Op)
  | txFail (ops : List TxOp) (j : Nat)

def runX (c : Cfg) (s : Engine) : XOp → Except OpenErr Engine
  | .op o => runOp c s o
  | .txFail ops j => .ok (runTxFail c s ops j)

/-- what the history looks like to everyone but the log: a failed commit is an abandoned transaction -/
def XOp.erase : XOp → Op
  | .op o => o
  | .txFail ops _ => .tx ops false

/-- `M.run`: the engine after a history, starting from a fresh database -/
def run (c : Cfg) (h : List Op) : Except OpenErr Engine := h.foldlM (runOp c) {}

end Nervus.Storage
