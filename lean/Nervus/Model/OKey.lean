/-
  Nervus.Model.OKey — mirrors nervusdb-storage/src/index/ordered_key.rs
  (`encode_ordered_value`, `encode_index_key`).
-/
import Nervus.Model.Bytes
import Nervus.Model.Generated.Tags
namespace Nervus.OKey
open Nervus

/-- The scalar index-key values (`PropertyValue` without List/Map, which
    `encode_ordered_value` collapses to a bare tag).  `float` carries the IEEE-754
    bit pattern (`f64::to_bits`), `int`/`datetime` an `i64`. -/
inductive OV
  | null
  | bool (b : Bool)
  | int (i : Int)
  | float (bits : Nat)
  | str (s : Bytes)
  | datetime (i : Int)
  | blob (b : Bytes)
  deriving Repr, DecidableEq

def two63 : Nat := 9223372036854775808
def two64 : Nat := 18446744073709551616

/-- byte stuffing of `encode_ordered_value` for String/Blob: `00 ↦ 00 FF`, terminator `00 00`. -/
def stuff : Bytes → Bytes
  | [] => [0x00, 0x00]
  | b :: bs => if b = 0x00 then 0x00 :: 0xFF :: stuff bs else b :: stuff bs

/-- `(*i as u64) ^ 0x8000_0000_0000_0000` -/
def signFlip (i : Int) : Nat := (toU64 i + two63) % two64

/-- `if bits & (1<<63) != 0 { !bits } else { bits ^ (1<<63) }` -/
def floatSortable (bits : Nat) : Nat :=
  if two63 ≤ bits then two64 - 1 - bits else bits + two63

/-- `-0.0` normalisation: after the `fix:` commit for C27 `encode_ordered_value`
    maps `-0.0` to `+0.0` before taking the bit pattern (value of the table entry
    `Generated.okeyNormalisesNegZero`, regenerated from the source on every run). -/
def normZero (bits : Nat) : Nat :=
  if Generated.okeyNormalisesNegZero && bits == two63 then 0 else bits

/-- mirrors `encode_ordered_value`. -/
def enc : OV → Bytes
  | .null => [Generated.okTagNull]
  | .bool b => [Generated.okTagBool, if b then 1 else 0]
  | .int i => Generated.okTagInt :: beBytes 8 (signFlip i)
  | .float bits => Generated.okTagFloat :: beBytes 8 (floatSortable (normZero bits))
  | .str s => Generated.okTagString :: stuff s
  | .datetime i => Generated.okTagDateTime :: beBytes 8 (signFlip i)
  | .blob b => Generated.okTagBlob :: stuff b

/-- mirrors `encode_index_key`. -/
def encIndexKey (indexId : Nat) (v : OV) (node : Nat) : Bytes :=
  beBytes 4 indexId ++ enc v ++ beBytes 8 node

end Nervus.OKey
