/-
  Nervus.Model.Crc32 — the checksum of wal.rs `crc32` (`crc32fast::Hasher`): CRC-32/ISO-HDLC (IEEE 802.3),
  reflected polynomial 0xEDB88320, initial value and final xor 0xFFFFFFFF; table-free, bit by bit.
  Validated against `crc32fast` by the `codec` and `walframe` streams.
-/
import Nervus.Model.Bytes
namespace Nervus

/-- one bit: `crc = (crc >> 1) ^ (poly if crc & 1)` -/
def crcBit (c : Nat) : Nat := if c % 2 = 1 then (c >>> 1) ^^^ 0xEDB88320 else c >>> 1

/-- one byte: xor into the low byte, then eight bit steps -/
def crcByte (c : Nat) (b : UInt8) : Nat :=
  crcBit (crcBit (crcBit (crcBit (crcBit (crcBit (crcBit (crcBit (c ^^^ b.toNat))))))))

def crc32 (bs : Bytes) : Nat := (bs.foldl crcByte 0xFFFFFFFF) ^^^ 0xFFFFFFFF

end Nervus
