/-
  Nervus.Model.OpenRace — openers racing to CREATE a database that does not exist yet (C10).

  mirrors the file-system steps of nervusdb-storage/src/pager.rs `Pager::open` (regenerated as
  `Generated.openSteps`), at the level of inodes: a path names at most one inode at a time, an
  exclusive advisory lock (`File::try_lock`) belongs to an inode, a file descriptor keeps the inode it
  was opened on even if the path is later made to name another one.

  Two protocols, selected by `replaces` (= `Generated.openReplacesPathInode`):
   * `replaces = false` — the source: `open(path, O_CREAT)` (atomic in the OS: creates the inode iff the
     path names none), then `try_lock` on that descriptor, then initialise in place UNDER the lock.
   * `replaces = true`  — check the path, build the file under a temporary name and RENAME it over the
     path (the path now names a NEW inode), then open the path and lock what was opened.
  Openers are numbered (threads of one process or different processes — the lock is per open file
  description, so the distinction does not matter here).
-/
import Nervus.Model.Generated.OpenLock
namespace Nervus.OpenRace

inductive OPc where
  | start
  | sawMissing               -- `metadata(path)`: not found / empty  → will create
  | sawPresent               -- the path named an initialised file (or this opener has just renamed one in)
  | haveFd (ino : Nat)
  | locked (ino : Nat)       -- the open succeeded: this opener believes it owns the database
  | refused                  -- WouldBlock
  deriving DecidableEq, Repr

structure State where
  pathIno : Option Nat       -- the inode the database path names
  nextIno : Nat
  lockOf : Nat → Option Nat  -- inode ↦ opener whose descriptor holds the exclusive lock
  ops : Nat → OPc

inductive Label where
  | check (i : Nat) | create (i : Nat) | openp (i : Nat) | lock (i : Nat)
  deriving DecidableEq, Repr

def setOp (s : State) (i : Nat) (p : OPc) : State := { s with ops := fun j => if j = i then p else s.ops j }

def step (replaces : Bool) (s : State) : Label → Option State
  | .check i =>
    if replaces then
      match s.ops i with
      | .start => some (setOp s i (if s.pathIno.isNone then .sawMissing else .sawPresent))
      | _ => none
    else none
  | .create i =>                -- write temp file, sync, rename over the path: the path names a NEW inode
    if replaces then
      match s.ops i with
      | .sawMissing => some { setOp s i .sawPresent with pathIno := some s.nextIno, nextIno := s.nextIno + 1 }
      | _ => none
    else none
  | .openp i =>
    if replaces then
      match s.ops i, s.pathIno with
      | .sawPresent, some n => some (setOp s i (.haveFd n))
      | _, _ => none
    else
      match s.ops i with
      | .start =>
        match s.pathIno with
        | some n => some (setOp s i (.haveFd n))
        | none => some { setOp s i (.haveFd s.nextIno) with pathIno := some s.nextIno, nextIno := s.nextIno + 1 }
      | _ => none
  | .lock i =>
    match s.ops i with
    | .haveFd n =>
      match s.lockOf n with
      | none => some { setOp s i (.locked n) with lockOf := fun m => if m = n then some i else s.lockOf m }
      | some _ => some (setOp s i .refused)
    | _ => none

def init : State := { pathIno := none, nextIno := 0, lockOf := fun _ => none, ops := fun _ => .start }

inductive Reach (replaces : Bool) : State → Prop where
  | init : Reach replaces init
  | step {s s'} (l : Label) : Reach replaces s → step replaces s l = some s' → Reach replaces s'

def runTrace (replaces : Bool) : State → List Label → Option State
  | s, [] => some s
  | s, l :: ls => match step replaces s l with
    | some s' => runTrace replaces s' ls
    | none => none

/-- opener `i` holds the database open -/
def owns (s : State) (i : Nat) : Prop := ∃ n, s.ops i = .locked n

end Nervus.OpenRace
