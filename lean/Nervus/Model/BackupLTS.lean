/-
  Nervus.Model.BackupLTS — online backup (copy the page file, then copy the WAL) interleaved with a
  writer's file-level steps, and recovery of the restored pair (C29).

  mirrors nervusdb-storage/src/backup.rs `BackupManager::begin_backup / execute_backup`
  (`copy_ndb_file` then `copy_wal_file`, hook point `backup.between_copies`), `restore_from_backup`
  (copies both files back) and what `GraphEngine::open` makes of a (page file, WAL) pair.

  Transactions are the uniform transactions 0,1,2,… of the `backup` stream (node `k`, its label, an
  edge, a property, an index entry).  Files are abstracted to counters, because every component grows
  as a prefix of the transaction sequence:

    page file  nodes  — node-table records (idmap pages): transactions < nodes have their node on disk
               segs   — number of CSR segments persisted (compaction `j` persists segment `j`)
               store  — transactions < store have their properties in the property B-tree (sunk in place)
               index  — transactions < index are in the index tree (written in place by commit, never logged)
    WAL        txs    — committed graph transactions 0 … txs-1 (CommitTx fsync'ed)
               ckpt   — `Checkpoint.up_to_txid` of the last manifest: replay skips transactions < ckpt
               msegs  — number of segments the last `ManifestSwitch` lists (0 = no manifest: root 0)
               first  — records of transactions < first are physically gone (close-time rewrite)

  Writer steps at file level (order of the source, engine.rs `commit` / `compact`):
    commit  : cW (WAL records + CommitTx + fsync, index pages in place)  →  cI (idmap pages)
    compact : kP (segment pages + sync) → kS (property tree in place) → kM (ManifestSwitch+Checkpoint in WAL)
  Close (`Db::close` → `checkpoint_on_close`): when no run is unmerged (`ckpt = txs`) the WAL is REPLACED
  (written to a temp file, renamed over the log — `Wal::rewrite_as_snapshot`) by one transaction holding
  the labels, the current manifest and a checkpoint: the older records are gone (`first := txs`);
  otherwise both files are only synced.  Afterwards the handle is closed until `reopen`.
  Backup steps: bStart → bPf (whole page file: ONE step — `std::io::copy`, no hook inside) → bWal.
-/
namespace Nervus.BackupLTS

structure PF where
  nodes : Nat
  segs : Nat
  store : Nat
  index : Nat
  deriving DecidableEq, Repr

structure Wal where
  txs : Nat
  ckpt : Nat
  msegs : Nat
  first : Nat
  deriving DecidableEq, Repr

inductive Mode where
  | idle | midCommit | compact1 | compact2
  deriving DecidableEq, Repr

inductive Bk where
  | none
  | started (c0 : Nat)
  | copiedPf (c0 : Nat) (pf0 : PF)
  | done (c0 c1 : Nat) (pf0 : PF) (w1 : Wal)
  deriving DecidableEq, Repr

structure State where
  pf : PF
  wal : Wal
  mode : Mode
  hasIndex : Bool
  closed : Bool          -- the writer's handle is closed (no writer step until `reopen`)
  bk : Bk
  sawCommit : Bool       -- a commit step ran between bPf and bWal
  sawCompact : Bool      -- a compaction step ran between bPf and bWal
  sawAny : Bool          -- any writer step ran between bStart and bWal
  deriving DecidableEq, Repr

inductive Label where
  | cW | cI | kP | kS | kM | close | reopen | bStart | bPf | bWal | bForget
  deriving DecidableEq, Repr

def between (s : State) : Bool := match s.bk with
  | .copiedPf _ _ => true
  | _ => false

def inBackup (s : State) : Bool := match s.bk with
  | .started _ | .copiedPf _ _ => true
  | _ => false

def noteCommit (s : State) : State :=
  { s with sawCommit := s.sawCommit || between s, sawAny := s.sawAny || inBackup s }
def noteCompact (s : State) : State :=
  { s with sawCompact := s.sawCompact || between s, sawAny := s.sawAny || inBackup s }

/-- `checkpoint_on_close`: rewrite the log as one snapshot transaction when no run is unmerged -/
def closeWal (w : Wal) : Wal := { w with first := if w.ckpt = w.txs then w.txs else w.first }

def noteClose (s : State) : State := { s with sawAny := s.sawAny || inBackup s }

def step (s : State) : Label → Option State
  | .close => if s.mode = .idle ∧ s.closed = false then
      some (noteClose { s with closed := true, wal := closeWal s.wal })
    else none
  | .reopen => if s.closed = true then some { s with closed := false } else none
  | .cW => if s.mode = .idle ∧ s.closed = false then
      some (noteCommit { s with mode := .midCommit, wal := { s.wal with txs := s.wal.txs + 1 },
                                pf := { s.pf with index := if s.hasIndex then s.pf.index + 1 else s.pf.index } })
    else none
  | .cI => if s.mode = .midCommit then
      some (noteCommit { s with mode := .idle, pf := { s.pf with nodes := s.pf.nodes + 1 } })
    else none
  | .kP => if s.mode = .idle ∧ s.closed = false ∧ s.wal.ckpt < s.wal.txs then     -- `compact` returns early when there are no runs
      some (noteCompact { s with mode := .compact1, pf := { s.pf with segs := s.pf.segs + 1 } })
    else none
  | .kS => if s.mode = .compact1 then
      some (noteCompact { s with mode := .compact2, pf := { s.pf with store := s.wal.txs } })
    else none
  | .kM => if s.mode = .compact2 then
      some (noteCompact { s with mode := .idle, wal := { s.wal with ckpt := s.wal.txs, msegs := s.pf.segs } })
    else none
  | .bStart => match s.bk with
    | .none => some { s with bk := .started s.wal.txs, sawCommit := false, sawCompact := false, sawAny := false }
    | _ => none
  | .bPf => match s.bk with
    | .started c0 => some { s with bk := .copiedPf c0 s.pf }
    | _ => none
  | .bWal => match s.bk with
    | .copiedPf c0 pf0 => some { s with bk := .done c0 s.wal.txs pf0 s.wal }
    | _ => none
  | .bForget => match s.bk with
    | .done _ _ _ _ => some { s with bk := .none }
    | _ => none

def init (hasIndex : Bool) : State :=
  { pf := ⟨0, 0, 0, 0⟩, wal := ⟨0, 0, 0, 0⟩, mode := .idle, hasIndex := hasIndex, closed := false, bk := .none,
    sawCommit := false, sawCompact := false, sawAny := false }

inductive Reach (s0 : State) : State → Prop where
  | refl : Reach s0 s0
  | step {s s'} (l : Label) : Reach s0 s → step s l = some s' → Reach s0 s'

def runTrace : State → List Label → Option State
  | s, [] => some s
  | s, l :: ls => match step s l with
    | some s' => runTrace s' ls
    | none => none

/-! ### recovery of a (page file, WAL) pair — what `GraphEngine::open` reconstructs -/

/-- content as prefix bounds: the database shows nodes 0…nodes-1, edges of transactions in
    `[0, edgesTo)`, properties of transactions in `[0, propsLo) ∪ [propsFrom, propsTo)`, index entries
    of transactions `< idx` -/
structure Content where
  nodes : Nat
  edgesTo : Nat
  propsLo : Nat
  propsFrom : Nat
  propsTo : Nat
  idx : Nat
  deriving DecidableEq, Repr

/-- mirrors `GraphEngine::open`: segments of the manifest are loaded from the page file
    (`CsrSegment::load(meta_page_id)`: fails / reads garbage when the page is not there), the idmap is
    loaded from the page file, committed transactions `≥ ckpt` are replayed (`CreateNode` of an id the
    idmap already has is skipped — idempotent; an id beyond the next dense id is `non-dense internal id`),
    the property root comes from the manifest and is read through the page file. -/
def recover (pf : PF) (w : Wal) : Option Content :=
  if pf.segs < w.msegs then none              -- manifest points at segment pages absent from the page file
  else if pf.nodes < w.ckpt then none         -- replay starts beyond the next dense internal id
  else if w.ckpt < w.first then none          -- records that would have to be replayed were rewritten away
  else some {
    nodes := max pf.nodes w.txs,
    edgesTo := w.txs,                         -- segments cover [0,ckpt), replayed runs cover [ckpt,txs)
    propsLo := if w.msegs = 0 then 0 else pf.store,   -- root 0: the store is not consulted
    propsFrom := w.ckpt,
    propsTo := w.txs,
    idx := pf.index }

/-- transaction `k`'s property is visible -/
def Content.hasProp (v : Content) (k : Nat) : Prop := k < v.propsLo ∨ (v.propsFrom ≤ k ∧ k < v.propsTo)

/-- the content shows exactly transactions `0 … c-1` -/
def Shows (hasIndex : Bool) (v : Content) (c : Nat) : Prop :=
  v.nodes = c ∧ v.edgesTo = c ∧ (∀ k, v.hasProp k ↔ k < c) ∧ v.idx = (if hasIndex then c else 0)

/-! ### restore over an existing database

    mirrors `BackupManager::restore_from_backup`: each backup file is written to its target path.  How
    the destination is opened (regenerated `Generated.restoreDestModes`) decides what happens to a file
    that is already there. -/

/-- bytes: writing `new` into a file that holds `old`.  Replacing (truncate / create / rename over)
    leaves exactly `new`; an in-place overwrite without truncation keeps the old bytes beyond `new.length`. -/
def overwrite {α} (replaces : Bool) (old new : List α) : List α :=
  if replaces then new else new ++ old.drop new.length

/-- counters: the log `t` is the log `b` continued (same history, strictly more records) — then `b`'s
    bytes are a proper prefix of `t`'s, the WAL being append-only and record-aligned -/
def Wal.continues (t b : Wal) : Bool :=
  t.first == b.first && decide (b.txs ≤ t.txs) && decide (b.ckpt ≤ t.ckpt) && decide (b.msegs ≤ t.msegs) &&
    (decide (b.txs < t.txs) || decide (b.msegs < t.msegs))

/-- the pair of files a restore of backup `b` leaves at a target that held `target` -/
def restoreOver (replaces : Bool) (target : Option (PF × Wal)) (b : PF × Wal) : PF × Wal :=
  if replaces then b else
  match target with
  | none => b
  | some (_, tw) => (b.1, if tw.continues b.2 then tw else b.2)   -- the old log's tail survives behind the restored bytes

end Nervus.BackupLTS
