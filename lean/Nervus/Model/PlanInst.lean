/-
  A concrete instantiation (`dsem`) of the abstract evaluation environment `Sem` for the
  correspondence stream `plan` and for the witness theorems: a small fragment of Cypher values
  and expressions, evaluated as nervusdb-query/src/evaluator.rs evaluates them.

  The property theorems (Props/C22, C33, C19) are proved for EVERY `Sem`; this instance only
  makes the operator model executable on the queries the harness generates (scalars null / bool /
  int / string, flat lists, `toBoolean`, `toInteger`, `range`, comparison, 3-valued logic).
  It is deliberately NOT the value model of C23/C20/C21.   core-only imports.
-/
import Nervus.Model.Limits
namespace Nervus.PlanInst
open Nervus.PlanOps

/-- scalar values of the fragment -/
inductive DS where
  | null
  | bool (b : Bool)
  | int (i : Int)
  | str (s : String)
  | node (id : Nat)
  deriving DecidableEq, Repr, Inhabited

/-- values: scalars and flat lists of scalars -/
inductive DV where
  | s (x : DS)
  | list (xs : List DS)
  deriving DecidableEq, Repr, Inhabited

abbrev DRow := List (String × DV)

/-- error classes (the harness maps `Error` to the same classes) -/
inductive DErr where
  | runtime
  | syntax
  /-- `Error::Other` with any other text (ExpandIter: "Variable … is not a node") -/
  | other
  | limit (k : LimitKind)
  deriving DecidableEq, Repr

def DErr.isLimit : DErr → Bool
  | .limit _ => true
  | _ => false

/-- expressions of the fragment -/
inductive DE where
  | lit (v : DV)
  | var (x : String)
  | toBoolean (e : DE)
  | toInteger (e : DE)
  | not (e : DE)
  | isNull (e : DE)
  | isNotNull (e : DE)
  | eq (a b : DE)
  | lt (a b : DE)
  | gt (a b : DE)
  | and (a b : DE)
  | or (a b : DE)
  | add (a b : DE)
  | mod (a b : DE)
  | range (a b : DE)
  /-- `CASE WHEN c THEN t ELSE e END` (no ELSE = `null`) -/
  | caseWhen (c t e : DE)
  /-- `EXISTS { subquery }`: the subquery is number `id` of the line (run by the driver) -/
  | existsSub (id : Nat)
  /-- the one-element list `[e]` -/
  | single (e : DE)
  deriving Repr, Inhabited

/-- outcome of an `EXISTS { subquery }` for one row: it has rows or not, or it failed -/
inductive ExOut where
  | has (b : Bool)
  | failed (e : DErr)
  /-- pinned tree: the subquery failed and the evaluator answered `null` without telling anybody -/
  | swallowed
  deriving Repr

/-- how the `EXISTS` subqueries of the line answer (parameters, row) -/
abbrev ExFn := Nat → DRow → DRow → ExOut

def noEx : ExFn := fun _ _ _ => .has false

/-- aggregate functions of the fragment (`AggregateFunction`) -/
inductive DAgg where
  | countStar
  | count (e : DE)
  | collect (e : DE)
  | sum (e : DE)
  | min (e : DE)
  | max (e : DE)
  deriving Repr, Inhabited

def rowGet (r : DRow) (x : String) : Option DV := (r.find? (·.1 == x)).map (·.2)

/-- `Row::with` -/
def rowSet : DRow → String → DV → DRow
  | [], x, v => [(x, v)]
  | (k, w) :: r, x, v => if k == x then (k, v) :: r else (k, w) :: rowSet r x v

def dnull : DV := .s .null
def dbool (b : Bool) : DV := .s (.bool b)
def dint (i : Int) : DV := .s (.int i)

def asciiLower (s : String) : String := String.ofList (s.toList.map Char.toLower)

/-- `i64` strings as Rust's `str::parse::<i64>` accepts them (optional sign, digits) -/
def parseI64 (s : String) : Option Int :=
  let body := if s.startsWith "-" || s.startsWith "+" then (s.drop 1).toString else s
  if body.isEmpty || !body.toList.all Char.isDigit then none
  else
    let n : Int := body.toNat!
    let v := if s.startsWith "-" then -n else n
    if v < -9223372036854775808 || v > 9223372036854775807 then none else some v

/-- `compare_values` on the fragment (strings are not compared by the generated queries) -/
def cmpVals (a b : DV) (f : Ordering → Bool) : DV :=
  match a, b with
  | .s .null, _ => dnull
  | _, .s .null => dnull
  | .s (.int x), .s (.int y) => dbool (f (compare x y))
  | .s (.bool x), .s (.bool y) => dbool (f (compare x y))
  | _, _ => dnull

/-- `evaluate_expression_value` on the fragment (`X` answers the EXISTS subqueries; a failed one
    yields `null`) -/
def evalV (X : ExFn) (env row : DRow) : DE → DV
  | .lit v => v
  | .var x => ((rowGet row x).orElse (fun _ => rowGet env x)).getD dnull
  | .toBoolean e =>
    match evalV X env row e with
    | .s (.bool b) => dbool b
    | .s (.str t) =>
      if asciiLower t == "true" then dbool true else if asciiLower t == "false" then dbool false else dnull
    | _ => dnull
  | .toInteger e =>
    match evalV X env row e with
    | .s (.int i) => dint i
    | .s (.str t) => (match parseI64 t with
                      | some i => dint i
                      | none => dnull)
    | _ => dnull
  | .not e =>
    match evalV X env row e with
    | .s (.bool b) => dbool (!b)
    | _ => dnull
  | .isNull e => dbool (evalV X env row e == dnull)
  | .isNotNull e => dbool (evalV X env row e != dnull)
  | .eq a b =>
    match evalV X env row a, evalV X env row b with
    | .s .null, _ => dnull
    | _, .s .null => dnull
    | .s x, .s y => dbool (x == y)
    | x, y => dbool (x == y)
  | .lt a b => cmpVals (evalV X env row a) (evalV X env row b) (· == .lt)
  | .gt a b => cmpVals (evalV X env row a) (evalV X env row b) (· == .gt)
  | .and a b =>
    match evalV X env row a, evalV X env row b with
    | .s (.bool false), _ => dbool false
    | _, .s (.bool false) => dbool false
    | .s (.bool true), .s (.bool true) => dbool true
    | _, _ => dnull
  | .or a b =>
    match evalV X env row a, evalV X env row b with
    | .s (.bool true), _ => dbool true
    | _, .s (.bool true) => dbool true
    | .s (.bool false), .s (.bool false) => dbool false
    | _, _ => dnull
  | .add a b =>
    match evalV X env row a, evalV X env row b with
    | .s (.int x), .s (.int y) => dint (x + y)
    | _, _ => dnull
  | .mod a b =>
    match evalV X env row a, evalV X env row b with
    | .s (.int x), .s (.int y) => if y == 0 then dnull else dint (Int.tmod x y)
    | _, _ => dnull
  | .range a b =>
    match evalV X env row a, evalV X env row b with
    | .s (.int x), .s (.int y) =>
      if x > y then .list [] else .list ((List.range (y - x + 1).toNat).map (fun (k : Nat) => .int (x + (k : Int))))
    | _, _ => dnull
  | .caseWhen c t e =>
    match evalV X env row c with
    | .s (.bool true) => evalV X env row t
    | _ => evalV X env row e
  | .existsSub i =>
    match X i env row with
    | .has b => dbool b
    | .failed _ => dnull
    | .swallowed => dnull
  | .single e =>
    match evalV X env row e with
    | .s v => .list [v]
    | .list _ => dnull

/-- `ensure_runtime_expression_compatible` on the fragment (the type checks look at the argument's
    value; the harness only sends expressions whose checked arguments contain no EXISTS, so the
    subqueries are not consulted here): arguments first, then the function's
    own check (`toBoolean`: Null/Bool/String; `toInteger`: Null/Int/String; `range`: the
    `Function(range)` collection check on the estimated length) -/
def ensure (coll : String → Nat → Option DErr) (env row : DRow) : DE → Except DErr Unit
  | .lit _ => .ok ()
  | .var _ => .ok ()
  | .toBoolean e => do
    ensure coll env row e
    match evalV noEx env row e with
    | .s .null => .ok ()
    | .s (.bool _) => .ok ()
    | .s (.str _) => .ok ()
    | _ => .error .runtime
  | .toInteger e => do
    ensure coll env row e
    match evalV noEx env row e with
    | .s .null => .ok ()
    | .s (.int _) => .ok ()
    | .s (.str _) => .ok ()
    | _ => .error .runtime
  | .not e => ensure coll env row e
  | .isNull e => ensure coll env row e
  | .isNotNull e => ensure coll env row e
  | .eq a b => do ensure coll env row a; ensure coll env row b
  | .lt a b => do ensure coll env row a; ensure coll env row b
  | .gt a b => do ensure coll env row a; ensure coll env row b
  | .and a b => do ensure coll env row a; ensure coll env row b
  | .or a b => do ensure coll env row a; ensure coll env row b
  | .add a b => do ensure coll env row a; ensure coll env row b
  | .mod a b => do ensure coll env row a; ensure coll env row b
  | .range a b => do
    ensure coll env row a
    ensure coll env row b
    match evalV noEx env row a, evalV noEx env row b with
    | .s (.int x), .s (.int y) =>
      (match coll "Function(range)" (if x > y then 0 else (y - x + 1).toNat) with
       | some e => .error e
       | none => .ok ())
    | _, _ => .ok ()
  | .caseWhen c t e => do ensure coll env row c; ensure coll env row t; ensure coll env row e
  | .existsSub _ => .ok ()
  | .single e => ensure coll env row e

/-- the first failure parked while `evaluate_expression_value` evaluates the expression (left to
    right; `CASE` evaluates only the branch it takes) -/
def parkV (X : ExFn) (env row : DRow) : DE → Option DErr
  | .lit _ => none
  | .var _ => none
  | .toBoolean e | .toInteger e | .not e | .isNull e | .isNotNull e | .single e => parkV X env row e
  | .eq a b | .lt a b | .gt a b | .and a b | .or a b | .add a b | .mod a b | .range a b =>
    firstSome (parkV X env row a) (parkV X env row b)
  | .caseWhen c t e =>
    firstSome (parkV X env row c)
      (match evalV X env row c with
       | .s (.bool true) => parkV X env row t
       | _ => parkV X env row e)
  | .existsSub i =>
    match X i env row with
    | .has _ => none
    | .failed e => some e
    | .swallowed => none

def deval (X : ExFn) (coll : String → Nat → Option DErr) (e : DE) (env row : DRow) : Except DErr DV :=
  match ensure coll env row e with
  | .error err => .error err
  | .ok _ => .ok (evalV X env row e)

/-- `evaluator::order_compare` on the fragment: null last, ints / bools by value -/
def dcmp : DV → DV → Ordering
  | .s .null, .s .null => .eq
  | .s .null, _ => .gt
  | _, .s .null => .lt
  | .s (.int x), .s (.int y) => compare x y
  | .s (.bool x), .s (.bool y) => compare x y
  | _, _ => .eq

def aggArg : DAgg → Option DE
  | .countStar => none
  | .count e | .collect e | .sum e | .min e | .max e => some e

def scalarOf : DV → DS
  | .s x => x
  | .list _ => .null

/-- one aggregate over the rows of a group (projection_sort.rs, the closure's `match func`) -/
def aggValue (X : ExFn) (coll : String → Nat → Option DErr) (env : DRow) (rows : List DRow) : DAgg → Except DErr DV
  | .countStar => .ok (dint rows.length)
  | .count e => .ok (dint ((rows.map (fun r => evalV X env r e)).filter (· != dnull)).length)
  | .collect e =>
    let vs := (rows.map (fun r => evalV X env r e)).filter (· != dnull)
    match coll "Aggregate.collect" vs.length with
    | some err => .error err
    | none => .ok (.list (vs.map scalarOf))
  | .sum e =>
    .ok (dint ((rows.map (fun r => evalV X env r e)).foldl (fun acc v =>
      match v with
      | .s (.int i) => acc + i
      | _ => acc) 0))
  | .min e =>
    .ok (((rows.map (fun r => evalV X env r e)).filter (· != dnull)).foldl (fun acc v =>
      match acc with
      | none => some v
      | some m => if dcmp v m == .lt then some v else some m) none |>.getD dnull)
  | .max e =>
    .ok (((rows.map (fun r => evalV X env r e)).filter (· != dnull)).foldl (fun acc v =>
      match acc with
      | none => some v
      | some m => if dcmp v m == .lt then some m else some v) none |>.getD dnull)

/-- the group's result row: the `group_by` columns (from the group's first row) then the aggregates -/
def aggFinalD (X : ExFn) (coll : String → Nat → Option DErr) (groupBy : List String) (aggs : List (DAgg × String))
    (env : DRow) (rows : List DRow) : Except DErr DRow := do
  let base : DRow := groupBy.foldl (fun acc g =>
    match rows.head? >>= (rowGet · g) with
    | some v => rowSet acc g v
    | none => acc) []
  aggs.foldlM (fun acc a => (aggValue X coll env rows a.1).map (rowSet acc a.2)) base

def dwindow (X : ExFn) (e : DE) (env : DRow) : Except DErr Nat :=
  match evalV X env [] e with
  | .s (.int i) => if i >= 0 then .ok i.toNat else .error .syntax
  | _ => .error .syntax

/-- the concrete evaluation environment of the `plan` stream; `X coll` answers the EXISTS
    subqueries of the line under the collection check `coll` -/
def dsemX (X : (String → Nat → Option DErr) → ExFn) : Sem DE DRow DV DErr (List DV) DAgg where
  eval coll := deval (X coll) coll
  park coll e env r := parkV (X coll) env r e
  truth v :=
    match v with
    | .s (.bool true) => .tt
    | .s (.bool false) => .ff
    | .s .null => .null
    | _ => .other
  listView v :=
    match v with
    | .list xs => .list (xs.map .s)
    | .s .null => .null
    | _ => .scalar
  empty := []
  set := rowSet
  join l r := l ++ r
  bind env r := r.foldl (fun acc kv => rowSet acc kv.1 kv.2) env
  dkey r := r.map (·.2)
  window e env := dwindow (X (fun _ _ => none)) e env
  cmp := dcmp
  gkey gb r := gb.filterMap (rowGet r)
  aggCheck coll aggs env r := aggs.forM (fun a =>
    match aggArg a.1 with
    | some e => ensure coll env r e
    | none => .ok ())
  aggFinal coll := aggFinalD (X coll) coll
  aggPark coll aggs env rows := aggs.findSome? (fun a =>
    match aggArg a.1 with
    | some e => rows.findSome? (fun r => parkV (X coll) env r e)
    | none => none)
  nonBool := .runtime
  lookup _ _ := none
  call _ _ _ _ := .error .runtime
  contains row outer := outer.all (fun kv => rowGet row kv.1 == some kv.2)
  null := dnull

/-- what a line of the correspondence stream says about the graph: the index entries and the
    procedure results (materialised by the harness from the engine's snapshot) -/
structure GraphFns where
  lookup : String → DV → Option (List DRow)
  call : String → DRow → DRow → List DV → Except DErr (List DRow)

def dsemG (G : GraphFns) (X : (String → Nat → Option DErr) → ExFn) : Sem DE DRow DV DErr (List DV) DAgg :=
  { dsemX X with lookup := G.lookup, call := G.call }

/-- without EXISTS-in-expression subqueries -/
def dsem : Sem DE DRow DV DErr (List DV) DAgg := dsemX (fun _ => noEx)

/-! canonical text (must agree with harness/src/streams/plan.rs `canon_row`) -/

def showDS : DS → String
  | .null => "null"
  | .bool b => if b then "b1" else "b0"
  | .int i => "i" ++ toString i
  | .str s => "s" ++ s
  | .node n => "n" ++ toString n

def showDV : DV → String
  | .s x => showDS x
  | .list xs => "[" ++ ",".intercalate (xs.map showDS) ++ "]"

def showRow (r : DRow) : String := ";".intercalate (r.map (fun kv => kv.1 ++ "=" ++ showDV kv.2))

def fnv1a (s : String) : UInt64 :=
  s.toUTF8.foldl (fun h b => (h ^^^ b.toUInt64) * 0x100000001b3) 0xcbf29ce484222325

/-- order-independent hash of a bag of rows -/
def bagHash (rows : List DRow) : UInt64 := rows.foldl (fun a r => a + fnv1a (showRow r)) 0

end Nervus.PlanInst
