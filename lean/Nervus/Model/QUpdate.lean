/-
  Model of the write path of nervusdb-query for C12: query_api/write_compile.rs + write_create_merge.rs (plan
  stages), executor/write_orchestration.rs `execute_write_with_rows` / `execute_merge_with_rows`,
  write_path.rs (`execute_set`, `execute_set_from_maps`, `execute_set_labels`, `execute_remove`,
  `execute_remove_labels`), create_delete_ops.rs (`execute_create_from_rows`, `execute_delete_on_rows`),
  merge_execution.rs + merge_helpers.rs.  A statement = read prefix + update clauses; every read goes to the
  SNAPSHOT taken before the statement, every write is a call on the WriteableGraph (`TxOp`, in call order),
  applied to the graph at commit (`applyOps`, the abstract storage contract: C06).
  Row overlays are modelled (`URow.ov`): once a stage has written through a variable, the row holds a
  materialised `Value::Node` / `Value::Relationship` for it (labels + properties as the stage believes them to
  be); later stages and expressions read that value instead of the snapshot — per VARIABLE, not per entity.
-/
import Nervus.Spec.UpdateSem
import Nervus.Model.QCompile
import Nervus.Model.QExec
namespace Nervus.Cy.Update
open Nervus.Cy

/-- calls on `WriteableGraph`, in call order -/
inductive TxOp
  | createNode (id : Nat) (labels : List String)
  | addLabel (n : Nat) (l : String)
  | removeLabel (n : Nat) (l : String)
  | createEdge (r : RelId)
  | setNodeProp (n : Nat) (k : String) (v : Scalar)
  | removeNodeProp (n : Nat) (k : String)
  | setEdgeProp (r : RelId) (k : String) (v : Scalar)
  | removeEdgeProp (r : RelId) (k : String)
  | tombstoneNode (n : Nat)
  | tombstoneEdge (r : RelId)
deriving DecidableEq, Repr, Inhabited

/-- what a committed transaction does to the graph (the storage contract the query layer relies on).
    The staged write log of a transaction is the ORDERED list of the `WriteableGraph` calls actually issued
    (`St.ops`); committing applies them in call order (`applyOps`), so for every (entity, key) the LAST issued
    `set_*_property` / `remove_*_property` call decides the stored value.  A call that is not issued — whatever the
    reason — is not in the list. -/
def applyOp (g : Graph) : TxOp → Graph
  | .createNode id ls => { g with nodes := g.nodes ++ [⟨id, ls.eraseDups, []⟩] }
  | .addLabel n l => Spec.updNode g n fun nd => if nd.labels.contains l then nd else { nd with labels := nd.labels ++ [l] }
  | .removeLabel n l => Spec.updNode g n fun nd => { nd with labels := nd.labels.filter (· != l) }
  | .createEdge r => Spec.addRelCopy g r
  | .setNodeProp n k v => Spec.updNode g n fun nd => { nd with props := Spec.setKey nd.props k v }
  | .removeNodeProp n k => Spec.updNode g n fun nd => { nd with props := Spec.delKey nd.props k }
  | .setEdgeProp r k v => Spec.updRel g r fun e => { e with props := Spec.setKey e.props k v }
  | .removeEdgeProp r k => Spec.updRel g r fun e => { e with props := Spec.delKey e.props k }
  | .tombstoneNode n => { g with nodes := g.nodes.filter (·.id != n) }
  -- the storage keeps the property map of a deleted relationship identity (hidden, `mult = 0`); a later
  -- create_edge of the same (src,type,dst) finds it again (C06: identity = triple, properties never tombstoned)
  | .tombstoneEdge r => Spec.updRel g r fun e => { e with mult := 0 }

def applyOps (g : Graph) (ops : List TxOp) : Graph := ops.foldl applyOp g

/-- the visible graph: relationship identities with at least one copy -/
def live (g : Graph) : Graph := { g with rels := g.rels.filter (·.mult > 0) }

/-! ### plan stages (write_compile.rs: one SET clause becomes up to three stages, in this fixed order) -/

inductive Stage
  | create (pat : PathPat) (merge : Bool)
  | setProperty (items : List (String × String × Expr))
  | setFromMap (items : List (String × MapLit × Bool))         -- (variable, map, append)
  | setLabels (items : List (String × List String))
  | removeProperty (items : List (String × String))
  | removeLabels (items : List (String × List String))
  | delete (detach : Bool) (vars : List String)
deriving DecidableEq, Repr, Inhabited

structure WPlan where
  input : Plan
  stages : List Stage
  onCreate : List SetItem := []      -- of the (last) MERGE clause
  onMatch : List SetItem := []
  isMerge : Bool := false            -- WriteSemantics::Merge
deriving Repr, Inhabited

def patVarsKinds (p : PathPat) : List (String × Kind) :=
  (p.start.var.toList.map (·, Kind.node)) ++ p.steps.flatMap fun (rp, np) =>
    rp.var.toList.map (·, Kind.rel) ++ np.var.toList.map (·, Kind.node)

/-- write_create_merge.rs `compile_create_plan` / `compile_merge_plan` validation -/
def validateCreate (known : List String) (p : PathPat) (isMerge : Bool) : Except Err Unit := do
  let relCount := p.steps.length
  let nodeChk (known : List String) (np : NodePat) : Except Err (List String) :=
    match np.var with
    | some v =>
      if known.contains v then
        if !np.labels.isEmpty || !np.props.isEmpty || relCount == 0 then .error .syntax else .ok known
      else .ok (known ++ [v])
    | none => .ok known
  let mut known ← nodeChk known p.start
  for (rp, np) in p.steps do
    if rp.dir == .both && !isMerge then throw .syntax
    if rp.types.length != 1 then throw .syntax
    match rp.var with
    | some v => if known.contains v then throw .syntax else known := known ++ [v]
    | none => pure ()
    known ← nodeChk known np

def setRank : SetItem → Nat
  | .prop .. => 0 | .mapReplace .. => 1 | .mapMerge .. => 1 | .labels .. => 2

/-- the SET clauses the parser makes of one SET item list: a new one starts in front of an item whose kind
    ranks below a kind already seen in the current one -/
def setSegments (items : List SetItem) : List (List SetItem) :=
  let (segs, cur, _) := items.foldl (fun (acc : List (List SetItem) × List SetItem × Nat) it =>
    let (segs, cur, mx) := acc
    if setRank it < mx then (segs ++ [cur], [it], setRank it) else (segs, cur ++ [it], max mx (setRank it)))
    ([], [], 0)
  if cur.isEmpty then segs else segs ++ [cur]

/-- compile_core.rs arms for Create / Merge / Set / Remove / Delete -/
def compileUpdates (input : Plan) (us : List UClause) : Except Err WPlan := do
  let mut known : List String := (Compile.outKinds input).map (·.1)
  let mut w : WPlan := { input, stages := [] }
  for u in us do
    match u with
    | .create pats =>
      for p in pats do
        validateCreate known p false
        known := known ++ (patVarsKinds p).map (·.1)
        w := { w with stages := w.stages ++ [.create p false] }
    | .merge p onC onM =>
      validateCreate known p true
      let mvars := (patVarsKinds p).map (·.1)
      let chk (items : List SetItem) : Bool := items.all fun
        | .prop x _ _ => mvars.contains x | .mapReplace x _ => mvars.contains x
        | .mapMerge x _ => mvars.contains x | .labels x _ => mvars.contains x
      if !(chk onC && chk onM) then throw .syntax
      known := known ++ mvars
      w := { w with stages := w.stages ++ [.create p true], onCreate := onC, onMatch := onM, isMerge := true }
    | .set items =>
      let vars := items.map fun
        | .prop x _ _ => x | .mapReplace x _ => x | .mapMerge x _ => x | .labels x _ => x
      if !(vars.all known.contains) then throw .syntax
      -- parser.rs `parse_set` (fix 5723576) starts a new SET clause in front of an item of an earlier kind, so
      -- that the fixed stage order (property, map, label) of each clause is the text order
      for seg in setSegments items do
        let ps := seg.filterMap fun | .prop x k e => some (x, k, e) | _ => none
        let ms := seg.filterMap fun
          | .mapReplace x m => some (x, m, false) | .mapMerge x m => some (x, m, true) | _ => none
        let ls := seg.filterMap fun | .labels x l => some (x, l) | _ => none
        w := { w with stages := w.stages ++ (if ps.isEmpty then [] else [.setProperty ps]) ++
                        (if ms.isEmpty then [] else [.setFromMap ms]) ++ (if ls.isEmpty then [] else [.setLabels ls]) }
    | .remove items =>
      let ps := items.filterMap fun | .prop x k => some (x, k) | _ => none
      let ls := items.filterMap fun | .labels x l => some (x, l) | _ => none
      w := { w with stages := w.stages ++ (if ps.isEmpty then [] else [.removeProperty ps]) ++
                      (if ls.isEmpty then [] else [.removeLabels ls]) }
    | .delete d vars =>
      if !(vars.all known.contains) then throw .syntax
      w := { w with stages := w.stages ++ [.delete d vars] }
  return w

def compileStmt (s : Stmt) : Except Err WPlan := do
  let input ← match s.reads with
    | [] => pure Plan.returnOne
    | q => Compile.compileClauses q {}
  compileUpdates input s.updates

/-! ### execution -/

variable (A : Algebra) (params : List (String × Val))

structure St where
  ops : List TxOp := []
  created : Nat := 0            -- nodes created in this transaction (`created_nodes.len()`)
  count : Nat := 0              -- the u32 the statement reports
  overlayNodes : List (Nat × List String × Props) := []      -- MergeOverlayState.nodes
  overlayEdges : List (RelId × Props) := []                  -- MergeOverlayState.edges
  interned : List String := []      -- names passed to get_or_create_label_id / _rel_type_id without a write

/-- a materialised `Value::Node` / `Value::Relationship` held by a row -/
structure Ent where
  labels : List String
  props : Props
deriving DecidableEq, Repr, Inhabited

/-- a row of the write pipeline: bindings + the materialised entity values (by variable) -/
structure URow where
  row : Row
  ov : List (String × Ent) := []
deriving Repr, Inhabited

def nodeProps (g : Graph) (n : Nat) : Props := match g.node? n with | some x => x.props | none => []
def relProps (g : Graph) (r : RelId) : Props := match g.rel? r with | some x => x.props | none => []
def nodeLabels (g : Graph) (n : Nat) : List String := match g.node? n with | some x => x.labels | none => []

/-- the properties `row.get(x)` shows for an entity variable: the materialised value if there is one, else the
    snapshot -/
def URow.props (g : Graph) (u : URow) (x : String) : Props :=
  match u.ov.lookup x with
  | some e => e.props
  | none => match u.row.get x with
    | some (.node n) => nodeProps g n
    | some (.rel r) => relProps g r
    | _ => []

def URow.setOv (u : URow) (x : String) (e : Ent) : URow :=
  { u with ov := if u.ov.any (·.1 == x) then u.ov.map fun (y, e') => if y == x then (y, e) else (y, e')
                 else u.ov ++ [(x, e)] }

/-- the entity value a write stage leaves in the row for `x` (NodeId → Node with snapshot labels) -/
def URow.ent (g : Graph) (u : URow) (x : String) : Option Ent :=
  match u.ov.lookup x with
  | some e => some e
  | none => match u.row.get x with
    | some (.node n) => some ⟨nodeLabels g n, nodeProps g n⟩
    | some (.rel r) => some ⟨[r.typ], relProps g r⟩
    | _ => none

/-- `evaluate_expression_value` on a write-pipeline row: PropertyAccess looks into a materialised value first -/
def ev (g : Graph) (u : URow) : Expr → Val
  | .lit l => l.toVal
  | .var x => match u.row.get x with
    | some v => v
    | none => match params.lookup x with | some v => v | none => .null
  | .prop x k => match u.ov.lookup x with
    | some e => match e.props.lookup k with | some v => v.toVal | none => .null
    | none => propVal g (u.row.get x) k
  | .param p => match params.lookup p with | some v => v | none => .null
  | .cmp op a b => A.cmp op (ev g u a) (ev g u b)
  | .bool op a b => boolOp op (ev g u a) (ev g u b)
  | .not a => notVal (ev g u a)
  | .isNull a => .bool (ev g u a == .null)
  | .isNotNull a => .bool (ev g u a != .null)
  | .hasLabel a l => hasLabelVal g (ev g u a) l
  | .listLit xs => .list (xs.map Lit.toScalar)

/-- write_path.rs `convert_executor_value_to_property` on the fragment's values -/
def toProp : Val → Except Err Scalar
  | .null => .ok .null | .bool b => .ok (.bool b) | .int i => .ok (.int i) | .str s => .ok (.str s)
  | .node _ => .error .notimpl | .rel _ => .error .notimpl
  | .list _ => .error .other      -- list properties are outside the modelled value fragment
  | .path _ _ => .error .other

def rowNode (r : Row) (x : String) : Option Nat := match r.get x with | some (.node n) => some n | _ => none
def rowRel (r : Row) (x : String) : Option RelId := match r.get x with | some (.rel e) => some e | _ => none

/-- BTreeMap of an evaluated map literal: key-sorted, a later duplicate key wins -/
def evalMap (g : Graph) (u : URow) (m : MapLit) : List (String × Val) :=
  m.foldl (fun acc (k, e) => Compile.insertSorted acc k (ev A params g u e)) []

def sortProps (ps : Props) : Props := ps.foldl (fun acc (k, v) => Compile.insertSorted acc k v) []

def putProp (ps : Props) (k : String) (v : Scalar) : Props := Compile.insertSorted (Spec.delKey ps k) k v

/-- create_delete_ops.rs `execute_create_from_rows`, one row: all nodes of the pattern first, then its rels;
    the created entities stay in the row as materialised values -/
def createRow (g : Graph) (next : Nat) (pat : PathPat) (s : St) (u : URow) : Except Err (St × URow) := do
  let nodePats := pat.start :: pat.steps.map (·.2)
  let mut s := s
  let mut u := u
  let mut ids : List Nat := []
  for np in nodePats do
    match np.var.bind (rowNode u.row) with
    | some n => ids := ids ++ [n]
    | none =>
      let id := next + s.created
      s := { s with ops := s.ops ++ [.createNode id np.labels], created := s.created + 1, count := s.count + 1 }
      match np.var with | some x => u := { u with row := u.row.set x (.node id) } | none => pure ()
      let mut props : Props := []
      for (k, e) in np.props do
        let v := ev A params g u e
        if v != .null then
          let pv ← toProp v
          s := { s with ops := s.ops ++ [.setNodeProp id k pv] }
          props := putProp props k pv
      match np.var with | some x => u := u.setOv x ⟨np.labels, props⟩ | none => pure ()
      ids := ids ++ [id]
  let mut i := 0
  for (rp, _) in pat.steps do
    let some ty := rp.types.head? | throw .other
    let (some a, some b) := (ids[i]?, ids[i + 1]?) | throw .other
    let e : RelId := match rp.dir with | .inn => ⟨b, ty, a⟩ | _ => ⟨a, ty, b⟩
    s := { s with ops := s.ops ++ [.createEdge e], count := s.count + 1 }
    match rp.var with | some x => u := { u with row := u.row.set x (.rel e) } | none => pure ()
    let mut props : Props := []
    for (k, ex) in rp.props do
      let v := ev A params g u ex
      if v != .null then
        let pv ← toProp v
        s := { s with ops := s.ops ++ [.setEdgeProp e k pv] }
        props := putProp props k pv
    match rp.var with | some x => u := u.setOv x ⟨[ty], props⟩ | none => pure ()
    i := i + 1
  return (s, u)

/-- write_path.rs `execute_set` + `apply_set_property_overlay_to_rows`, one row (every expression is evaluated
    on the row as it entered the stage) -/
def setPropertyRow (g : Graph) (items : List (String × String × Expr)) (s : St) (u0 : URow) :
    Except Err (St × URow) := do
  let mut s := s
  let mut u := u0
  for (x, k, e) in items do
    let v := ev A params g u0 e
    let pv ← toProp v
    let existed := (u0.props g x).any (·.1 == k)
    match rowNode u0.row x, rowRel u0.row x with
    | some n, _ =>
      if pv == .null then
        s := { s with ops := s.ops ++ [.removeNodeProp n k], count := s.count + (if existed then 1 else 0) }
      else s := { s with ops := s.ops ++ [.setNodeProp n k pv], count := s.count + 1 }
    | none, some ed =>
      if pv == .null then
        s := { s with ops := s.ops ++ [.removeEdgeProp ed k], count := s.count + (if existed then 1 else 0) }
      else s := { s with ops := s.ops ++ [.setEdgeProp ed k pv], count := s.count + 1 }
    | none, none => if u0.row.get x == some .null then pure () else throw .other
    match u.ent g x with
    | some ent => u := u.setOv x { ent with props := if pv == .null then Spec.delKey ent.props k else putProp ent.props k pv }
    | none => pure ()
  return (s, u)

/-- write_path.rs `execute_set_from_maps` + `apply_set_map_overlay_to_rows`, one row -/
def setFromMapRow (g : Graph) (items : List (String × MapLit × Bool)) (s : St) (u0 : URow) :
    Except Err (St × URow) := do
  let mut s := s
  let mut u := u0
  for (x, m, append) in items do
    let mv := evalMap A params g u0 m
    let tgt : Option ((String → TxOp) × (String → Scalar → TxOp)) :=
      match rowNode u0.row x, rowRel u0.row x with
      | some n, _ => some (TxOp.removeNodeProp n, TxOp.setNodeProp n)
      | none, some e => some (TxOp.removeEdgeProp e, TxOp.setEdgeProp e)
      | none, none => none
    match tgt with
    | none => if u0.row.get x == some .null then pure () else throw .other
    | some (rm, st) =>
      let existing := sortProps (u0.props g x)
      let mut target : Props := if append then existing else []
      for (k, v) in mv do
        if v == .null then target := target.filter (·.1 != k)
        else target := Compile.insertSorted target k (← toProp v)
      for (k, _) in existing do
        if !target.any (·.1 == k) then s := { s with ops := s.ops ++ [rm k], count := s.count + 1 }
      for (k, v) in target do
        if existing.lookup k != some v then s := { s with ops := s.ops ++ [st k v], count := s.count + 1 }
      -- the overlay is rebuilt from the value the row currently holds (`row`, not `source_row`)
      match u.ent g x with
      | some ent =>
        let mut p : Props := if append then sortProps ent.props else []
        for (k, v) in mv do
          if v == .null then p := p.filter (·.1 != k) else p := Compile.insertSorted p k (← toProp v)
        u := u.setOv x { ent with props := p }
      | none => pure ()
  return (s, u)

/-- `execute_set_labels` + `apply_label_overlay_to_rows` (which re-reads the properties from the snapshot) -/
def setLabelsRow (g : Graph) (items : List (String × List String)) (s : St) (u0 : URow) :
    Except Err (St × URow) := do
  let mut s := s
  let mut u := u0
  for (x, ls) in items do
    match rowNode u0.row x with
    | some n =>
      -- counted only when the node (as the row sees it) does not have the label yet (fix a3c5bfb)
      let have_ := match u0.ov.lookup x with | some e => e.labels | none => nodeLabels g n
      for l in ls do
        s := { s with ops := s.ops ++ [.addLabel n l], count := s.count + (if have_.contains l then 0 else 1) }
      let cur := match u.ent g x with | some e => e.labels | none => []
      u := u.setOv x ⟨ls.foldl (fun acc l => if acc.contains l then acc else acc ++ [l]) cur, nodeProps g n⟩
    | none => if u0.row.get x == some .null then pure () else throw .other
  return (s, u)

/-- `execute_remove` + `apply_removed_property_overlay_to_rows` -/
def removePropertyRow (g : Graph) (items : List (String × String)) (s : St) (u0 : URow) :
    Except Err (St × URow) := do
  let mut s := s
  let mut u := u0
  for (x, k) in items do
    let existed := (u0.props g x).any (·.1 == k)
    match u0.row.get x with
    | some (.node n) =>
      s := { s with ops := s.ops ++ [.removeNodeProp n k], count := s.count + (if existed then 1 else 0) }
    | some (.rel e) =>
      s := { s with ops := s.ops ++ [.removeEdgeProp e k], count := s.count + (if existed then 1 else 0) }
    | some .null => pure ()
    | _ => throw .other
    match u.ent g x with
    | some ent => u := u.setOv x { ent with props := Spec.delKey ent.props k }
    | none => pure ()
  return (s, u)

/-- `execute_remove_labels`: a label whose NAME is known to the database is removed; it is counted when the node
    (as the row sees it) carries it (`names` = interned label / relationship type names) -/
def removeLabelsRow (g : Graph) (names : List String) (items : List (String × List String)) (s : St) (u0 : URow) :
    Except Err (St × URow) := do
  let mut s := s
  let mut u := u0
  for (x, ls) in items do
    match rowNode u0.row x with
    | some n =>
      let have_ := match u0.ov.lookup x with | some e => e.labels | none => nodeLabels g n
      for l in ls do
        if names.contains l then
          s := { s with ops := s.ops ++ [.removeLabel n l], count := s.count + (if have_.contains l then 1 else 0) }
      let cur := match u.ent g x with | some e => e.labels | none => []
      u := u.setOv x ⟨cur.filter (!ls.contains ·), nodeProps g n⟩
    | none => if u0.row.get x == some .null then pure () else throw .other
  return (s, u)

def attachedOut (g : Graph) (n : Nat) : List RelId := (g.rels.filter fun e => e.id.src == n && e.mult > 0).map (·.id)
def attachedIn (g : Graph) (n : Nat) : List RelId := (g.rels.filter fun e => e.id.dst == n && e.mult > 0).map (·.id)

/-- create_delete_ops.rs `execute_delete_on_rows` (all rows at once) -/
def deleteRows (g : Graph) (detach : Bool) (vars : List String) (s : St) (T : List URow) : Except Err St := do
  let mut nodes : List Nat := []
  let mut edges : List RelId := []
  for u in T do
    for x in vars do
      match u.row.get x with
      | some (.node n) => if !nodes.contains n then nodes := nodes ++ [n]
      | some (.rel e) => if !edges.contains e then edges := edges ++ [e]
      | some .null => pure ()
      | some (.path ns es) =>
        for e in es do if !edges.contains e then edges := edges ++ [e]
        for n in ns do if !nodes.contains n then nodes := nodes ++ [n]
      | _ => throw .other
  if !detach then
    for n in nodes do
      if (attachedOut g n ++ attachedIn g n).any (!edges.contains ·) then throw .other
  let mut s := s
  let mut detached : List RelId := []
  if detach then
    for n in nodes do
      for e in attachedOut g n ++ attachedIn g n do
        if !detached.contains e then
          detached := detached ++ [e]
          s := { s with ops := s.ops ++ [.tombstoneEdge e], count := s.count + 1 }
  -- an explicit target already removed while detaching is skipped (fix 2b91f76)
  for e in edges do
    if !detached.contains e then s := { s with ops := s.ops ++ [.tombstoneEdge e], count := s.count + 1 }
  for n in nodes do s := { s with ops := s.ops ++ [.tombstoneNode n], count := s.count + 1 }
  return s

/-! ### MERGE (merge_execution.rs `execute_merge_create_from_rows`) -/

/-- `merge_eval_props_on_row`: BTreeMap of the pattern's property map (null values are kept) -/
def mergeProps (g : Graph) (u : URow) (props : List (String × Expr)) : Except Err Props :=
  props.foldlM (fun acc (k, e) => do pure (Compile.insertSorted acc k (← toProp (ev A params g u e)))) []

/-- `merge_node_matches_snapshot` / `_overlay`: labels ⊆, every pattern property present with an equal value -/
def nodeMatches (labels : List String) (props : Props) (have_l : List String) (have_p : Props) : Bool :=
  labels.all have_l.contains && props.all fun (k, v) => have_p.lookup k == some v

/-- `merge_find_node_candidates`: overlay nodes first, then snapshot nodes -/
def findCandidates (g : Graph) (s : St) (labels : List String) (props : Props) : List Nat :=
  let ov := (s.overlayNodes.filter fun (_, ls, ps) => nodeMatches labels props ls ps).map (·.1)
  let sn := (g.nodes.filter fun n => nodeMatches labels props n.labels n.props).map (·.id)
  (ov ++ sn).eraseDups

/-- `merge_create_node`: every property of the map is written, null included -/
def mergeCreateNode (next : Nat) (np : NodePat) (props : Props) (s : St) : St × Nat :=
  let id := next + s.created
  ({ s with ops := s.ops ++ [.createNode id np.labels] ++ props.map fun (k, v) => .setNodeProp id k v,
            created := s.created + 1, count := s.count + 1,
            overlayNodes := s.overlayNodes ++ [(id, np.labels, props)] }, id)

/-- `merge_materialize_node_value`: overlay node if the statement created it, else the snapshot -/
def materialize (g : Graph) (s : St) (n : Nat) : Ent :=
  match s.overlayNodes.find? (·.1 == n) with
  | some (_, ls, ps) => ⟨ls, ps⟩
  | none => ⟨nodeLabels g n, nodeProps g n⟩

/-- write_support.rs `merge_apply_set_items` / `_map_items` / `_label_items` (nothing is counted — the suite pins
    MERGE's count as "entities created", tests/t323_merge_semantics.rs; each item sees the row as updated by the
    previous one) -/
def mergeApplySet (g : Graph) (items : List SetItem) (s : St) (u : URow) : Except Err (St × URow) := do
  let c := s.count
  let ps := items.filterMap fun | .prop x k e => some (x, k, e) | _ => none
  let ms := items.filterMap fun
    | .mapReplace x m => some (x, m, false) | .mapMerge x m => some (x, m, true) | _ => none
  let ls := items.filterMap fun | .labels x l => some (x, l) | _ => none
  let mut s := s
  let mut u := u
  for it in ps do
    let (s', u') ← setPropertyRow A params g [it] s u
    s := s'; u := u'
  for it in ms do
    let (s', u') ← setFromMapRow A params g [it] s u
    s := s'; u := u'
  for (x, labels) in ls do
    match rowNode u.row x with
    | some n =>
      for l in labels do
        s := { s with ops := s.ops ++ [.addLabel n l] }
        -- `overlay_add_label_value` only updates a materialised node value
        match u.ov.lookup x with
        | some ent => u := u.setOv x { ent with labels := if ent.labels.contains l then ent.labels else ent.labels ++ [l] }
        | none => pure ()
    | none => throw .other
  return ({ s with count := c }, u)

/-- `merge_collect_edges_between`: one entry per copy, unless the pattern has relationship properties -/
def edgesBetween (g : Graph) (s : St) (a b : Nat) (ty : String) (dir : Dir) (props : Props) : List RelId :=
  let one (src dst : Nat) : List RelId :=
    let id : RelId := ⟨src, ty, dst⟩
    let snap := match g.rel? id with
      | some e => if props.all fun (k, v) => e.props.lookup k == some v then List.replicate e.mult id else []
      | none => []
    let ov := (s.overlayEdges.filter fun (k, ps) => k == id && props.all fun (pk, pv) => ps.lookup pk == some pv).map (·.1)
    snap ++ ov
  let all := match dir with
    | .out => one a b | .inn => one b a | .both => one a b ++ one b a
  if props.isEmpty then all else all.eraseDups

def mergeRow (g : Graph) (next : Nat) (pat : PathPat) (onC onM : List SetItem) (s : St) (u : URow) :
    Except Err (St × List URow) := do
  match pat.steps with
  | [] =>
    let np := pat.start
    let props ← mergeProps A params g u np.props
    let bound := match np.var.bind (rowNode u.row) with | some n => [n] | none => []
    let cands := if bound.isEmpty then findCandidates g s np.labels props else bound
    let (s, cands, created) :=
      if cands.isEmpty then let (s, id) := mergeCreateNode next np props s; (s, [id], true) else (s, cands, false)
    -- one output row per candidate; ON CREATE items if the node was just created, else ON MATCH items
    cands.foldlM (fun (acc : St × List URow) n => do
      let u' : URow := match np.var with
        | some x => ({ u with row := u.row.set x (.node n) } : URow).setOv x (materialize g acc.1 n)
        | none => u
      let (s', u'') ← mergeApplySet A params g (if created then onC else onM) acc.1 u'
      pure (s', acc.2 ++ [u''])) (s, [])
  | [(rp, dn)] =>
    let sn := pat.start
    let sp ← mergeProps A params g u sn.props
    let dp ← mergeProps A params g u dn.props
    let rprops ← mergeProps A params g u rp.props
    let some ty := rp.types.head? | throw .other
    let mut s := { s with interned := s.interned ++ [ty] }
    let mut sc := match sn.var.bind (rowNode u.row) with | some n => [n] | none => []
    if sc.isEmpty then sc := findCandidates g s sn.labels sp
    if sc.isEmpty then
      let (s', id) := mergeCreateNode next sn sp s
      s := s'; sc := [id]
    let mut dc := match dn.var.bind (rowNode u.row) with | some n => [n] | none => []
    if dc.isEmpty then dc := findCandidates g s dn.labels dp
    if dc.isEmpty then
      let (s', id) := mergeCreateNode next dn dp s
      s := s'; dc := [id]
    let bindRow (s : St) (u : URow) (a b : Nat) (e : RelId) (relEnt : Option Ent) : URow :=
      let u := match sn.var with
        | some x =>
          if (u.row.get x).isNone then ({ u with row := u.row.set x (.node a) } : URow).setOv x (materialize g s a) else u
        | none => u
      let u := match dn.var with
        | some x =>
          if (u.row.get x).isNone then ({ u with row := u.row.set x (.node b) } : URow).setOv x (materialize g s b) else u
        | none => u
      match rp.var with
      | some x =>
        let u : URow := { u with row := u.row.set x (.rel e), ov := u.ov.filter (·.1 != x) }
        match relEnt with | some ent => u.setOv x ent | none => u
      | none => u
    let mut matched : List URow := []
    for a in sc do
      for b in dc do
        for e in edgesBetween g s a b ty rp.dir rprops do
          let ovEnt := (s.overlayEdges.reverse.find? fun (k, ps) =>
            k == e && rprops.all fun (pk, pv) => ps.lookup pk == some pv).map fun (_, ps) => (⟨[ty], ps⟩ : Ent)
          let u' := bindRow s u a b e ovEnt
          let (s', u'') ← mergeApplySet A params g onM s u'
          s := s'
          matched := matched ++ [u'']
    if !matched.isEmpty then return (s, matched)
    let (some a, some b) := (sc.head?, dc.head?) | throw .other
    let e : RelId := match rp.dir with | .inn => ⟨b, ty, a⟩ | _ => ⟨a, ty, b⟩
    s := { s with ops := s.ops ++ [.createEdge e] ++ rprops.map fun (k, v) => .setEdgeProp e k v,
                  count := s.count + 1, overlayEdges := s.overlayEdges ++ [(e, rprops)] }
    let u' := bindRow s u a b e (some ⟨[ty], rprops⟩)
    let (s', u'') ← mergeApplySet A params g onC s u'
    return (s', [u''])
  | _ => throw .notimpl

/-- one stage over the materialised rows of the previous stage -/
def runStage (g : Graph) (next : Nat) (names : List String) (w : WPlan) (s : St) (T : List URow) :
    Stage → Except Err (St × List URow)
  | .create pat false => do
    let mut s := s
    let mut out : List URow := []
    for u in T do
      let (s', u') ← createRow A params g next pat s u
      s := s'; out := out ++ [u']
    return (s, out)
  | .create pat true => do
    let mut s := s
    let mut out : List URow := []
    for u in T do
      let (s', us) ← mergeRow A params g next pat w.onCreate w.onMatch s u
      s := s'; out := out ++ us
    return (s, out)
  | .setProperty items => do
    let mut s := s
    let mut out : List URow := []
    for u in T do
      let (s', u') ← setPropertyRow A params g items s u
      s := s'; out := out ++ [u']
    return (s, out)
  | .setFromMap items => do
    let mut s := s
    let mut out : List URow := []
    for u in T do
      let (s', u') ← setFromMapRow A params g items s u
      s := s'; out := out ++ [u']
    return (s, out)
  | .setLabels items => do
    let mut s := s
    let mut out : List URow := []
    for u in T do
      let (s', u') ← setLabelsRow g items s u
      s := s'; out := out ++ [u']
    return (s, out)
  | .removeProperty items => do
    let mut s := s
    let mut out : List URow := []
    for u in T do
      let (s', u') ← removePropertyRow g items s u
      s := s'; out := out ++ [u']
    return (s, out)
  | .removeLabels items => do
    let mut s := s
    let mut out : List URow := []
    for u in T do
      let (s', u') ← removeLabelsRow g names items s u
      s := s'; out := out ++ [u']
    return (s, out)
  | .delete d vars => do return (← deleteRows g d vars s T, T)

/-- `execute_mixed` on a write plan: (ops, nodes created, reported count) -/
def opNames : TxOp → List String
  | .createNode _ ls => ls | .addLabel _ l => [l] | .createEdge r => [r.typ] | _ => []

def runStmt (g : Graph) (next : Nat) (names : List String) (stmt : Stmt) :
    Except Err (List TxOp × Nat × Nat × List String) := do
  let w ← compileStmt stmt
  let T ← Exec.exec A { g, params } w.input
  let mut s : St := {}
  let mut T : List URow := T.map fun r => { row := r }
  for st in w.stages do
    let (s', T') ← runStage A params g next names w s T st
    s := s'; T := T'
  return (s.ops, s.created, s.count, (names ++ s.interned ++ s.ops.flatMap opNames).eraseDups)

/-- the statement as a graph transformer: snapshot → committed graph, next id, reported count, interned names -/
def step (g : Graph) (next : Nat) (names : List String) (stmt : Stmt) :
    Except Err (Graph × Nat × Nat × List String) := do
  let (ops, created, count, names') ← runStmt A params g next names stmt
  return (applyOps g ops, next + created, count, names')

/-- several statements in ONE write transaction, all executed against the same snapshot `g` (the caller takes
    `db.snapshot()` once, then `begin_write`): the staged write log is the concatenation of the statements' calls
    in order, node ids keep counting, every statement reads the pre-transaction snapshot -/
def runTxn (g : Graph) (next : Nat) (names : List String) (stmts : List Stmt) :
    Except Err (List TxOp × Nat × List Nat × List String) :=
  stmts.foldlM (fun (acc : List TxOp × Nat × List Nat × List String) stmt => do
    let (ops', created', count', names') ← runStmt A params g (next + acc.2.1) acc.2.2.2 stmt
    pure (acc.1 ++ ops', acc.2.1 + created', acc.2.2.1 ++ [count'], names')) ([], 0, [], names)

def stepTxn (g : Graph) (next : Nat) (names : List String) (stmts : List Stmt) :
    Except Err (Graph × Nat × List Nat × List String) := do
  let (ops, created, counts, names') ← runTxn A params g next names stmts
  return (applyOps g ops, next + created, counts, names')

end Nervus.Cy.Update
