/-
  Nervus.Model.Index — property indexes as the code maintains and uses them (C15).

  Mirrors (quirks included)
    nervusdb-storage/src/engine.rs      GraphEngine::create_index, WriteTxn::commit (IndexOp phase),
                                        GraphEngine::compact (property sinking), GraphEngine::open (label replay)
    nervusdb-storage/src/memtable.rs    set/remove_node_property, tombstone_node, freeze_into_run
    nervusdb-storage/src/api.rs         StorageSnapshot::{lookup_index,node_property,node_label,nodes}
    nervusdb-storage/src/idmap.rs       apply_create_node / apply_add_label / apply_remove_label, IdMap::load
    nervusdb-query/src/query_api/match_compile.rs   compile_pattern_chain (IndexSeek planning, residual filters)
    nervusdb-query/src/executor/index_seek_plan.rs  execute_index_seek
    nervusdb-query/src/executor/plan_iterators.rs   NodeScanIter
    nervusdb-query/src/evaluator/evaluator_equality.rs  cypher_equals (scalar part)

  The four behaviours repaired by `fix:` commits are switches of `Cfg`; `Cfg.current` reads them from
  the table regenerated from the source (Generated/IndexFlags.lean), `Cfg.pinned` is the tree before
  the fixes (used by the counterexample theorems and by the corpus witnesses' history).
  The per-index B-tree is used through its sorted-multimap view (insert / delete-exact / prefix
  scan); with the legacy key layout (no node id in the key) the single-leaf behaviour of
  `BTree::insert`/`BTree::delete` on equal keys is reproduced (`legacyInsert`/`legacyDelete`).
  Core-only imports.
-/
import Nervus.Model.OKey
import Nervus.Model.Generated.IndexFlags
namespace Nervus.Index
open Nervus Nervus.OKey

/-- label / property-key names (the driver maps the stream's tokens to numbers) -/
abbrev Label := Nat
abbrev Key := Nat

/-- repaired behaviours (each `true` = the `fix:` commit is present in the source) -/
structure Cfg where
  /-- `create_index` inserts the existing nodes' values -/
  backfill : Bool
  /-- `execute_index_seek` skips tombstoned nodes -/
  seekLive : Bool
  /-- `execute_index_seek` uses the scan for Int / Float lookup values -/
  numFallback : Bool
  /-- `commit` keys index entries with `encode_index_key` (`[id][value][node]`) -/
  compositeKey : Bool
  deriving Repr, DecidableEq

def Cfg.current : Cfg :=
  ⟨Generated.idxBackfill, Generated.idxSeekChecksTombstone, Generated.idxSeekNumericFallback,
   Generated.idxCompositeKey⟩
def Cfg.pinned : Cfg := ⟨false, false, false, false⟩
def Cfg.fixed : Cfg := ⟨true, true, true, true⟩

/-! ### Cypher equality on stored scalars (`cypher_equals`) -/

def fMag (bits : Nat) : Nat := bits % two63
def fNaN (bits : Nat) : Bool := fMag bits > 0x7FF0000000000000
def fInf (bits : Nat) : Bool := fMag bits == 0x7FF0000000000000
/-- sign-magnitude reading: orders / identifies non-NaN doubles as IEEE-754 does (`-0.0 = +0.0`) -/
def fKey (bits : Nat) : Int := if two63 ≤ bits then -((fMag bits : Nat) : Int) else ((fMag bits : Nat) : Int)

/-- `l == r` for two `f64` (false on NaN) -/
def floatEq (a b : Nat) : Bool := !fNaN a && !fNaN b && fKey a == fKey b

/-- position of the highest set bit, structural (fuel 64 is enough for `u64`) -/
def log2f : Nat → Nat → Nat
  | 0, _ => 0
  | fuel + 1, m => if m < 2 then 0 else log2f fuel (m / 2) + 1

/-- `m as f64` for `0 < m < 2^64`: round to nearest, ties to even (bit pattern) -/
def natToF64Bits (m : Nat) : Nat :=
  let e := log2f 64 m
  if e ≤ 52 then (e + 1023) * 2 ^ 52 + (m * 2 ^ (52 - e) - 2 ^ 52)
  else
    let sh := e - 52
    let q := m / 2 ^ sh
    let r := m % 2 ^ sh
    let half := 2 ^ (sh - 1)
    let q' := if r > half || (r == half && q % 2 == 1) then q + 1 else q
    (e + 1023) * 2 ^ 52 + (q' - 2 ^ 52)

/-- `i as f64` (bit pattern) -/
def i64ToF64Bits (i : Int) : Nat :=
  if i == 0 then 0 else if i < 0 then two63 + natToF64Bits i.natAbs else natToF64Bits i.natAbs

/-- `i as f64` loses nothing: at most 53 significant bits -/
def i64ExactInF64 (i : Int) : Bool :=
  let m := i.natAbs
  let e := log2f 64 m
  e ≤ 52 || m % 2 ^ (e - 52) == 0

/-- mirrors `float_equals_int` = `compare_int_float(i, f) == Equal`: the finite double *is* the
    integer (exact comparison, no lossy `i as f64`): it equals the rounded integer and the rounding
    was exact -/
def floatEqInt (f : Nat) (i : Int) : Bool :=
  !fNaN f && !fInf f && i64ExactInF64 i && floatEq f (i64ToF64Bits i)

/-- `cypher_equals l r == Bool(true)` on scalars (Null on either side gives Null, i.e. not true) -/
def cyEqV : OV → OV → Bool
  | .null, _ => false
  | _, .null => false
  | .int a, .int b => a == b
  | .int a, .float b => floatEqInt b a
  | .float a, .int b => floatEqInt a b
  | .float a, .float b => floatEq a b
  | .str a, .str b => a == b
  | .bool a, .bool b => a == b
  | .datetime a, .datetime b => a == b
  | .blob a, .blob b => a == b
  | _, _ => false

/-- `n.k = $v` as a filter predicate: a missing property reads as Null -/
def cyEq (stored : Option OV) (q : OV) : Bool :=
  match stored with
  | none => false
  | some v => cyEqV v q

def isNum : OV → Bool
  | .int _ => true
  | .float _ => true
  | _ => false

/-! ### operations -/

/-- staged operations of one write transaction (`WriteTxn` methods) -/
inductive TxOp
  | node (l : Option Label)
  | labelAdd (n : Nat) (l : Label)
  | labelDel (n : Nat) (l : Label)
  | set (n : Nat) (k : Key) (v : OV)
  | rem (n : Nat) (k : Key)
  | del (n : Nat)
  deriving Repr, DecidableEq

inductive Op
  | commit (tx : List TxOp)
  | index (l : Label) (k : Key)
  | compact
  | reopen (clean : Bool)
  deriving Repr, DecidableEq

/-! ### memtable / run (`MemTable`, `L0Run`), node part -/

abbrev PropMap := List ((Nat × Key) × Option OV)

/-- `props`: final state of every touched `(node,key)` — `some v` = in `node_properties`,
    `none` = in `removed_node_properties`; the two maps are kept disjoint by `MemTable`. -/
structure Run where
  tomb : List Nat
  props : PropMap
  deriving Repr, DecidableEq

def upsert (m : PropMap) (nk : Nat × Key) (o : Option OV) : PropMap :=
  (nk, o) :: m.filter (fun e => e.1 != nk)

/-- mirrors `MemTable::{set_node_property, remove_node_property, tombstone_node}` -/
def memApply (r : Run) : TxOp → Run
  | .set n k v => { r with props := upsert r.props (n, k) (some v) }
  | .rem n k => { r with props := upsert r.props (n, k) none }
  | .del n => { r with tomb := n :: r.tomb }
  | _ => r

def memOf (tx : List TxOp) : Run := tx.foldl memApply ⟨[], []⟩

/-- `L0Run::is_empty` (node part; the stream creates no edges) -/
def Run.isEmpty (r : Run) : Bool := r.tomb.isEmpty && r.props.isEmpty

/-! ### state -/

structure Node where
  /-- `I2eRecord.label_id`: the label given to `create_node`; `none` = UNLABELED (`u32::MAX`) -/
  first : Option Label
  /-- current `i2l` entry -/
  labels : List Label
  deriving Repr, DecidableEq

structure IndexDef where
  label : Label
  key : Key
  id : Nat
  /-- multimap content `(B-tree key, payload = node id)` -/
  entries : List (Bytes × Nat)
  deriving Repr, DecidableEq

structure State where
  nodes : List Node
  /-- published L0 runs, newest first -/
  runs : List Run
  /-- property B-tree filled by compaction; first match = newest -/
  store : List ((Nat × Key) × OV)
  /-- committed transactions after the checkpoint, oldest first (has-run flag, ops) — what
      `GraphEngine::open` replays for labels -/
  pending : List (Bool × List TxOp)
  indexes : List IndexDef
  nextIndexId : Nat
  deriving Repr, DecidableEq

def State.init : State := ⟨[], [], [], [], [], 3⟩

/-! ### the read view (`StorageSnapshot`) -/

/-- mirrors `node_property_from_runs`: the newest run that mentions `(n,k)` decides
    (`some none` = removed there) -/
def runsHit : List Run → Nat → Key → Option (Option OV)
  | [], _, _ => none
  | r :: rs, n, k =>
    match r.props.lookup (n, k) with
    | some o => some o
    | none => runsHit rs n k

/-- mirrors `StorageSnapshot::node_property`: runs first; *if the runs answer None — also because the
    newest run removed the property — the property store is consulted* -/
def State.prop (s : State) (n : Nat) (k : Key) : Option OV :=
  match runsHit s.runs n k with
  | some (some v) => some v
  | _ => s.store.lookup (n, k)

/-- mirrors `is_tombstoned_node`: only the published runs know tombstones -/
def State.tomb (s : State) (n : Nat) : Bool := s.runs.any (fun r => r.tomb.contains n)

/-- mirrors `node_label`: `I2eRecord.label_id` -/
def State.first (s : State) (n : Nat) : Option Label :=
  match s.nodes[n]? with
  | some nd => nd.first
  | none => none

/-- mirrors `HasLabel` / `NodeScanIter`'s label test through `resolve_node_labels` -/
def State.hasLabel (s : State) (n : Nat) (l : Label) : Bool :=
  match s.nodes[n]? with
  | some nd => nd.labels.contains l
  | none => false

/-! ### index B-tree through its multimap view -/

/-- B-tree key of an entry: `encode_index_key` (fixed) or `[id][value]` (legacy) -/
def entryKey (cfg : Cfg) (id : Nat) (v : OV) (n : Nat) : Bytes :=
  if cfg.compositeKey then encIndexKey id v n else beBytes 4 id ++ enc v

/-- `(k, v).cmp(&(key, payload))` as used by `BTree::delete` -/
def cmpEntry (a b : Bytes × Nat) : Ordering :=
  if bytesLt a.1 b.1 then .lt else if bytesLt b.1 a.1 then .gt
  else if a.2 < b.2 then .lt else if b.2 < a.2 then .gt else .eq

/-- `leaf_lower_bound` + `leaf_insert_at`: a new cell goes in front of the cells with a key ≥ its key -/
def legacyInsert (es : List (Bytes × Nat)) (e : Bytes × Nat) : List (Bytes × Nat) :=
  match es with
  | [] => [e]
  | x :: xs => if bytesLt x.1 e.1 then x :: legacyInsert xs e else e :: x :: xs

/-- the loop of `slice::binary_search_by` (std 1.95): `size` halves, `base` moves right unless Greater -/
def bsearchLoop (es : List (Bytes × Nat)) (t : Bytes × Nat) : Nat → Nat → Nat → Nat
  | 0, base, _ => base
  | fuel + 1, base, size =>
    if size ≤ 1 then base
    else
      let half := size / 2
      let mid := base + half
      let base' := match es[mid]? with
        | some x => if cmpEntry x t == .gt then base else mid
        | none => base
      bsearchLoop es t fuel base' (size - half)

/-- `BTree::delete` on one leaf: binary search for the exact `(key,payload)`, remove it when found.
    On a leaf whose equal keys are not ordered by payload the search may miss (result unspecified by
    std; this is what 1.95 computes). -/
def legacyDelete (es : List (Bytes × Nat)) (t : Bytes × Nat) : List (Bytes × Nat) :=
  if es.isEmpty then es
  else
    let base := bsearchLoop es t es.length 0 es.length
    match es[base]? with
    | some x => if cmpEntry x t == .eq then es.eraseIdx base else es
    | none => es

def idxInsert (cfg : Cfg) (es : List (Bytes × Nat)) (e : Bytes × Nat) : List (Bytes × Nat) :=
  if cfg.compositeKey then e :: es else legacyInsert es e

def idxDelete (cfg : Cfg) (es : List (Bytes × Nat)) (e : Bytes × Nat) : List (Bytes × Nat) :=
  if cfg.compositeKey then es.erase e else legacyDelete es e

/-- mirrors `StorageSnapshot::lookup_index`: prefix scan on `[id][enc value]`; empty ⇒ `None` -/
def lookupIndex (s : State) (l : Label) (k : Key) (v : OV) : Option (List Nat) :=
  match s.indexes.find? (fun d => d.label == l && d.key == k) with
  | none => none
  | some d =>
    let pre := beBytes 4 d.id ++ enc v
    let ids := (d.entries.filter (fun e => pre.isPrefixOf e.1)).map (·.2)
    if ids.isEmpty then none else some ids

/-! ### commit: index maintenance (`IndexOp` phase of `WriteTxn::commit`) -/

def createdLabels (tx : List TxOp) : List (Option Label) :=
  tx.filterMap (fun | .node l => some l | _ => none)

/-- one `IndexOp` against one index.  `pre` = the pre-commit snapshot, `nodes'` = nodes after the
    creations of this transaction; `n` is new iff `pre.nodes.length ≤ n`. The label is the creation
    label (new node) or `snapshot.node_label` (existing node) — both are `nodes'[n].first`.
    Errors of the B-tree calls are ignored (`let _ =`), as in the source. -/
def indexOne (cfg : Cfg) (pre : State) (nodes' : List Node) (d : IndexDef)
    (es : List (Bytes × Nat)) (e : (Nat × Key) × Option OV) : List (Bytes × Nat) :=
  let n := e.1.1
  let k := e.1.2
  if k != d.key then es
  else match nodes'[n]? with
    | none => es
    | some nd =>
      if nd.first != some d.label then es
      else
        let isNew := pre.nodes.length ≤ n
        match e.2 with
        | some v =>
          if isNew then idxInsert cfg es (entryKey cfg d.id v n, n)
          else
            let es1 := match pre.prop n k with
              | some old => idxDelete cfg es (entryKey cfg d.id old n, n)
              | none => es
            idxInsert cfg es1 (entryKey cfg d.id v n, n)
        | none =>
          if isNew then es
          else match pre.prop n k with
            | some old => idxDelete cfg es (entryKey cfg d.id old n, n)
            | none => es

/-- sets first (iteration over `node_properties`), then removals (`removed_node_props`) -/
def indexTx (cfg : Cfg) (pre : State) (nodes' : List Node) (props : PropMap) (d : IndexDef) : IndexDef :=
  let sets := props.filter (fun e => e.2.isSome)
  let rems := props.filter (fun e => e.2.isNone)
  { d with entries := (sets ++ rems).foldl (indexOne cfg pre nodes' d) d.entries }

/-- label changes of one transaction as `commit` / WAL replay apply them: additions, then removals -/
def applyLabels (nodes : List Node) (tx : List TxOp) : List Node :=
  let adds := tx.filterMap (fun | .labelAdd n l => some (n, l) | _ => none)
  let dels := tx.filterMap (fun | .labelDel n l => some (n, l) | _ => none)
  let nodes1 := adds.foldl (fun ns (p : Nat × Label) =>
    ns.modify p.1 (fun nd => if nd.labels.contains p.2 then nd else { nd with labels := p.2 :: nd.labels })) nodes
  dels.foldl (fun ns (p : Nat × Label) =>
    ns.modify p.1 (fun nd => { nd with labels := nd.labels.filter (· != p.2) })) nodes1

def newNode (l : Option Label) : Node := ⟨l, match l with | some x => [x] | none => []⟩

/-- mirrors `WriteTxn::commit` -/
def commit (cfg : Cfg) (s : State) (tx : List TxOp) : State :=
  let run := memOf tx
  let nodesC := s.nodes ++ (createdLabels tx).map newNode
  let indexes' := s.indexes.map (indexTx cfg s nodesC run.props)
  { s with
    nodes := applyLabels nodesC tx
    runs := if run.isEmpty then s.runs else run :: s.runs
    pending := s.pending ++ [(!run.isEmpty, tx)]
    indexes := indexes' }

/-! ### create_index -/

/-- entries a backfill inserts: every node id whose `node_label` is the index label and that has the
    property (tombstoned ids included — liveness is checked when seeking) -/
def backfillEntries (cfg : Cfg) (s : State) (l : Label) (k : Key) (id : Nat) : List (Bytes × Nat) :=
  (List.range s.nodes.length).filterMap (fun n =>
    if s.first n == some l then (s.prop n k).map (fun v => (entryKey cfg id v n, n)) else none)

/-- mirrors `GraphEngine::create_index` (no-op when the index exists) -/
def createIndex (cfg : Cfg) (s : State) (l : Label) (k : Key) : State :=
  if (s.indexes.any (fun d => d.label == l && d.key == k)) then s
  else
    let es := if cfg.backfill then (backfillEntries cfg s l k s.nextIndexId).foldl (idxInsert cfg) [] else []
    { s with indexes := s.indexes ++ [⟨l, k, s.nextIndexId, es⟩], nextIndexId := s.nextIndexId + 1 }

/-! ### compaction and reopen -/

/-- property sinking of `GraphEngine::compact`: every `(node,key)` with a value in some run gets the
    newest such value (`or_insert`, runs newest first); *removal markers are not consulted* -/
def sunk (runs : List Run) : List ((Nat × Key) × OV) :=
  runs.flatMap (fun r => r.props.filterMap (fun e => e.2.map (fun v => (e.1, v))))

/-- label replay keeps the transactions after the newest run-bearing one (`tx.txid <= checkpoint_txid`
    is skipped, `checkpoint = max run txid`) -/
def afterLastRun : List (Bool × List TxOp) → List (Bool × List TxOp)
  | [] => []
  | p :: ps =>
    if ps.any (·.1) then afterLastRun ps
    else if p.1 then ps else p :: ps

/-- mirrors `GraphEngine::compact` (node part): no runs ⇒ no-op; else sink, drop the runs
    (with their node tombstones) and move the checkpoint -/
def compact (s : State) : State :=
  if s.runs.isEmpty then s
  else { s with store := sunk s.runs ++ s.store, runs := [], pending := afterLastRun s.pending }

/-- mirrors `checkpoint_on_close` + `GraphEngine::open` (node part): `IdMap::load` rebuilds `i2l`
    from the persisted first label, then the label records of the transactions after the checkpoint
    are replayed; a clean close with no runs rewrites the WAL (nothing left to replay) -/
def reopen (s : State) (clean : Bool) : State :=
  let pending := if clean && s.runs.isEmpty then [] else s.pending
  let base := s.nodes.map (fun nd => newNode nd.first)
  { s with nodes := pending.foldl (fun ns p => applyLabels ns p.2) base, pending := pending }

def step (cfg : Cfg) (s : State) : Op → State
  | .commit tx => commit cfg s tx
  | .index l k => createIndex cfg s l k
  | .compact => compact s
  | .reopen c => reopen s c

def run (cfg : Cfg) (h : List Op) : State := h.foldl (step cfg) State.init

/-! ### the query side -/

/-- `MATCH (n:l0:… {k:v,…}) RETURN n`; `props` in `BTreeMap` order (sorted by key) -/
structure Query where
  labels : List Label
  props : List (Key × OV)
  deriving Repr, DecidableEq

def insertSorted (a : Nat) : List Nat → List Nat
  | [] => [a]
  | b :: bs => if a ≤ b then a :: b :: bs else b :: insertSorted a bs

/-- `node_ids.sort()` -/
def sortIds (l : List Nat) : List Nat := l.foldr insertSorted []

/-- the residual filters `compile_pattern_chain` puts above the start plan:
    `n.k = v AND …` then `n:l AND …` -/
def residual (s : State) (q : Query) (n : Nat) : Bool :=
  q.props.all (fun kv => cyEq (s.prop n kv.1) kv.2) && q.labels.all (fun l => s.hasLabel n l)

/-- mirrors `NodeScanIter` for `NodeScan{label}` : live ids in ascending order with the label -/
def nodeScan (s : State) (l : Option Label) : List Nat :=
  (List.range s.nodes.length).filter (fun n =>
    !s.tomb n && (match l with | some l => s.hasLabel n l | none => true))

/-- the plan without IndexSeek (also the `fallback` of IndexSeek) -/
def scanRows (s : State) (q : Query) : List Nat :=
  (nodeScan s q.labels.head?).filter (residual s q)

/-- mirrors `execute_index_seek`: which ids the start plan produces -/
def seekStart (cfg : Cfg) (s : State) (l : Label) (k : Key) (v : OV) : List Nat :=
  if cfg.numFallback && isNum v then nodeScan s (some l)
  else match v with
    | .datetime _ => nodeScan s (some l)
    | .blob _ => nodeScan s (some l)
    | _ =>
      match lookupIndex s l k v with
      | none => nodeScan s (some l)
      | some ids =>
        let ids := sortIds ids
        if cfg.seekLive then ids.filter (fun n => !s.tomb n) else ids

/-- the plan `compile_pattern_chain` builds: IndexSeek on (first label, first key) when both exist -/
def queryRows (cfg : Cfg) (s : State) (q : Query) : List Nat :=
  match q.labels.head?, q.props.head? with
  | some l, some (k, v) => (seekStart cfg s l k v).filter (residual s q)
  | _, _ => scanRows s q

/-- would `execute_index_seek` answer from the index? (observed by the harness through `lookup_index`) -/
def usesIndex (s : State) (q : Query) : Bool :=
  match q.labels.head?, q.props.head? with
  | some l, some (k, v) => (lookupIndex s l k v).isSome
  | _, _ => false

end Nervus.Index
