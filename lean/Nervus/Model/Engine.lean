/-
  Model/Engine.lean — mirrors nervusdb-storage/src/engine.rs (GraphEngine / WriteTxn: begin_write,
  get_or_create_label, create_node …, commit, compact, checkpoint_on_close, open with
  scan_recovery_state / replay_label_transactions / replay_graph_transactions), the record level of
  wal.rs (replay_committed, rewrite_as_snapshot), and the read API of api.rs (StorageSnapshot) /
  snapshot.rs / read_path_property_store.rs.

  Level: WAL *records* (bytes are the codec builder's), the property B-tree through a multimap
  abstraction (`Store`: insert-before-equals, first-match lookup), no crash (a dropped engine leaves
  every write it issued in the files).  Not modelled: statistics, secondary indexes (the streams never
  create one), HNSW internals (the vector index is the set of inserted vectors).
  The code facts that `fix:` commits change are parameters (`Cfg`), read from the regenerated table
  `Generated/WalOrder.lean`.  core/Std imports only.
-/
import Nervus.Model.Csr
import Nervus.Model.IdMap
import Nervus.Model.Generated.WalOrder
namespace Nervus.Storage
open Nervus.Generated (WalKind)

/-- wal.rs WalRecord (page records and statistics roots omitted) -/
inductive WalRec
  | beginTx (txid : Nat)
  | commitTx (txid : Nat)
  | createLabel (name id : Nat)
  | createNode (ext label iid : Nat)
  | addNodeLabel (n l : Nat)
  | removeNodeLabel (n l : Nat)
  | createEdge (e : Edge)
  | tombstoneNode (n : Nat)
  | tombstoneEdge (e : Edge)
  | manifestSwitch (epoch : Nat) (segs : List Nat) (propsRoot : Nat)
  | checkpoint (upTo epoch propsRoot : Nat)
  | setNodeProperty (n k : Nat) (v : PV)
  | setEdgeProperty (e : Edge) (k : Nat) (v : PV)
  | removeNodeProperty (n k : Nat)
  | removeEdgeProperty (e : Edge) (k : Nat)
deriving DecidableEq, Repr

/-- keys of the property store: tag 0 `[node][key]`, tag 1 `[src][rel][dst][key]` -/
inductive SKey
  | node (n k : Nat)
  | edge (e : Edge) (k : Nat)
deriving DecidableEq, Repr

/-- the property B-tree as a multimap, NEWEST entry first (BTree::insert puts a key before its equals) -/
abbrev Store := List (SKey × PV)

namespace Store

/-- read_*_property_from_store: `cursor_lower_bound` + exact match = the newest entry of the key -/
def get (st : Store) (k : SKey) : Option PV := st.lookup k

/-- the `to_fetch` list of extend_node_properties_from_store: every entry of the node whose key is
    not in `props`, in scan order (`props` is not updated while scanning) -/
def fetchNode (st : Store) (n : Nat) (props : List (Nat × PV)) : List (Nat × PV) :=
  st.filterMap (fun p =>
    match p.1 with
    | .node n' k => if n' == n && !props.any (·.1 == k) then some (k, p.2) else none
    | .edge _ _ => none)

/-- the insertion loop of extend_*_properties_from_store over the fetched entries (scan order = newest
    entry of a key first).  `newest = false` (pinned tree): `props.insert(..)` — for a key with several
    entries the LAST one scanned, i.e. the oldest, wins.  `newest = true` (after the `fix:`):
    `props.entry(..).or_insert(..)` — the first one scanned stays. -/
def extendWith (newest : Bool) (fetched props : List (Nat × PV)) : List (Nat × PV) :=
  fetched.foldl (fun m kv => if newest && m.any (·.1 == kv.1) then m else upsert kv.1 kv.2 m) props

/-- extend_node_properties_from_store (insertion as the current source does it: regenerated table) -/
def extendNode (st : Store) (n : Nat) (props : List (Nat × PV)) : List (Nat × PV) :=
  extendWith Generated.extendKeepsNewest (st.fetchNode n props) props

def fetchEdge (st : Store) (e : Edge) (props : List (Nat × PV)) : List (Nat × PV) :=
  st.filterMap (fun p =>
    match p.1 with
    | .edge e' k => if e' == e && !props.any (·.1 == k) then some (k, p.2) else none
    | .node _ _ => none)

/-- extend_edge_properties_from_store -/
def extendEdge (st : Store) (e : Edge) (props : List (Nat × PV)) : List (Nat × PV) :=
  extendWith Generated.extendKeepsNewest (st.fetchEdge e props) props

end Store

/-- the code facts changed by `fix:` commits (see Generated/WalOrder.lean) -/
structure Cfg where
  commitOrder : List WalKind
  csrGuard : Bool
  compactOwnLast : Bool
  vecStaged : Bool
  /-- `GraphEngine::compact` reads `tree.root()` AFTER the insert loops of the property sinking (code fact) -/
  rootAfterInserts : Bool
  /-- the sinking loops of `compact` replace the store entry of a key (replace_property_entry) instead of
      adding one more entry per compaction (code fact) -/
  sinkReplaces : Bool
  /-- environment, not code: does the root page of the property tree change (root split — `BTree::insert`
      allocates a new root page and keeps the old one as its left half) while a compaction inserts `k`
      entries into a tree of `n` entries?  The theorems hold for EVERY such oracle. -/
  rootMoves : Nat → Nat → Bool

/-- the working tree as the extractor sees it now -/
def Cfg.current : Cfg :=
  { commitOrder := Generated.commitOrder, csrGuard := Generated.csrIncomingGuard,
    compactOwnLast := Generated.compactOwnEdgeTombstonesLast, vecStaged := Generated.setVectorStaged,
    rootAfterInserts := Generated.compactReadsRootAfterInserts, sinkReplaces := Generated.compactSinkReplaces,
    rootMoves := fun n k => (n + k) / 390 != n / 390 }

/-- the pinned tree (before any `fix:`) -/
def Cfg.pinned : Cfg :=
  { commitOrder := [.createNode, .addNodeLabel, .removeNodeLabel, .createEdge, .tombstoneNode,
                    .tombstoneEdge, .setNodeProperty, .removeNodeProperty, .setEdgeProperty,
                    .removeEdgeProperty],
    csrGuard := false, compactOwnLast := false, vecStaged := false, rootAfterInserts := true,
    sinkReplaces := false,
    rootMoves := fun n k => (n + k) / 390 != n / 390 }

/-- what survives a drop of the engine (no crash): the log, the node table, the segment pages, the
    property tree, the vector index pages -/
structure Disk where
  wal : List WalRec := []
  i2e : List I2e := []
  segStore : List Seg := []
  store : Store := []
  storeRoot : Nat := 0             -- the page that IS the root of the property tree (0 = no tree)
  vecs : List (Nat × List Nat) := []
deriving Repr

/-- engine.rs GraphEngine -/
structure Engine where
  wal : List WalRec := []
  idmap : IdMap := {}
  interner : Interner := []
  runs : List Run := []            -- published_runs, newest first
  segs : List Seg := []            -- published_segments, newest first
  segStore : List Seg := []        -- segment pages in the .ndb file
  store : Store := []              -- every entry of the property tree in the file
  storeRoot : Nat := 0             -- the page that IS the root of that tree (0 = no tree); page ids are
                                   -- abstracted to generation numbers: a root split gives the next one
  vecs : List (Nat × List Nat) := []
  nextTxid : Nat := 1
  nextSegId : Nat := 1
  epoch : Nat := 0
  ckptTxid : Nat := 0
  propsRoot : Nat := 0             -- properties_root: the page the ENGINE takes for the root (reads,
                                   -- manifest, checkpoint); must equal `storeRoot`
deriving Repr

/-- engine.rs WriteTxn -/
structure Txn where
  txid : Nat
  created : List (Nat × Nat × Nat) := []     -- (external id, label id, internal id)
  addL : List (Nat × Nat) := []              -- pending_label_additions
  delL : List (Nat × Nat) := []              -- pending_label_removals
  mt : MemTable := {}
  vecs : List (Nat × List Nat) := []         -- staged vectors (only when `Cfg.vecStaged`)
deriving Repr

namespace Engine

def disk (s : Engine) : Disk :=
  { wal := s.wal, i2e := s.idmap.i2e, segStore := s.segStore, store := s.store, storeRoot := s.storeRoot,
    vecs := s.vecs }

/-- GraphEngine::begin_write -/
def beginWrite (s : Engine) : Engine × Txn :=
  ({ s with nextTxid := s.nextTxid + 1 }, { txid := s.nextTxid })

/-- GraphEngine::get_or_create_label: a NEW name is interned, logged in its own committed
    mini-transaction and published immediately — independently of the enclosing write transaction -/
def getOrCreateLabel (s : Engine) (name : Nat) : Engine × Nat :=
  match s.interner.getId name with
  | some id => (s, id)
  | none =>
    let id := s.interner.length
    ({ s with interner := s.interner ++ [name],
              wal := s.wal ++ [.beginTx s.nextTxid, .createLabel name id, .commitTx s.nextTxid],
              nextTxid := s.nextTxid + 1 }, id)

/-- GraphEngine::lookup_internal_id -/
def lookupInternal (s : Engine) (x : Nat) : Option Nat := s.idmap.lookup x

end Engine

namespace Txn

/-- WriteTxn::create_node: refused when the external id is known to the idmap (dead nodes included)
    or was used earlier in this transaction; a refused call changes nothing -/
def createNode (s : Engine) (t : Txn) (x label : Nat) : Option (Txn × Nat) :=
  if (s.lookupInternal x).isSome then none
  else if t.created.any (·.1 == x) then none
  else
    let iid := s.idmap.nextId + t.created.length
    some ({ t with created := t.created ++ [(x, label, iid)] }, iid)

def addNodeLabel (t : Txn) (n l : Nat) : Txn := { t with addL := t.addL ++ [(n, l)] }
def removeNodeLabel (t : Txn) (n l : Nat) : Txn := { t with delL := t.delL ++ [(n, l)] }
def createEdge (t : Txn) (e : Edge) : Txn := { t with mt := t.mt.createEdge e }
def tombstoneNode (t : Txn) (n : Nat) : Txn := { t with mt := t.mt.tombstoneNode n }
def tombstoneEdge (t : Txn) (e : Edge) : Txn := { t with mt := t.mt.tombstoneEdge e }
def setNodeProp (t : Txn) (n k : Nat) (v : PV) : Txn := { t with mt := t.mt.setNodeProp n k v }
def removeNodeProp (t : Txn) (n k : Nat) : Txn := { t with mt := t.mt.removeNodeProp n k }
def setEdgeProp (t : Txn) (e : Edge) (k : Nat) (v : PV) : Txn := { t with mt := t.mt.setEdgeProp e k v }
def removeEdgeProp (t : Txn) (e : Edge) (k : Nat) : Txn := { t with mt := t.mt.removeEdgeProp e k }

/-- WriteTxn::set_vector: pinned tree = GraphEngine::insert_vector at once; after the C07 `fix:` the
    vector is staged and inserted by `commit` -/
def setVector (c : Cfg) (s : Engine) (t : Txn) (n : Nat) (v : List Nat) : Engine × Txn :=
  if c.vecStaged then (s, { t with vecs := t.vecs ++ [(n, v)] })
  else ({ s with vecs := upsert n v s.vecs }, t)

/-- the graph records of one kind, as `commit` emits them (`run` = the frozen memtable) -/
def recordsOf (t : Txn) (run : Run) : WalKind → List WalRec
  | .createNode => t.created.map (fun c => .createNode c.1 c.2.1 c.2.2)
  | .addNodeLabel => t.addL.map (fun p => .addNodeLabel p.1 p.2)
  | .removeNodeLabel => t.delL.map (fun p => .removeNodeLabel p.1 p.2)
  | .createEdge => run.edges.map .createEdge
  | .tombstoneNode => run.tombNodes.map .tombstoneNode
  | .tombstoneEdge => run.tombEdges.map .tombstoneEdge
  | .setNodeProperty => t.mt.nprops.map (fun p => .setNodeProperty p.1.1 p.1.2 p.2)
  | .removeNodeProperty => t.mt.nDel.map (fun p => .removeNodeProperty p.1 p.2)
  | .setEdgeProperty => t.mt.eprops.map (fun p => .setEdgeProperty p.1.1 p.1.2 p.2)
  | .removeEdgeProperty => t.mt.eDel.map (fun p => .removeEdgeProperty p.1 p.2)

/-- the WAL records of a commit: BeginTx, the graph records in the order of the source, CommitTx -/
def walRecords (c : Cfg) (t : Txn) (run : Run) : List WalRec :=
  [.beginTx t.txid] ++ c.commitOrder.flatMap (t.recordsOf run) ++ [.commitTx t.txid]

end Txn

/-- first error stops the loop (`?`), the state reached so far stays -/
def foldStop {α β ε} (f : α → β → Except ε α) : α → List β → α × Option ε
  | a, [] => (a, none)
  | a, b :: bs => match f a b with
    | .ok a' => foldStop f a' bs
    | .error e => (a, some e)

/-- step 3 of commit: created nodes, then label additions, then label removals — in that order,
    whatever the order of the calls was.  An error (label operation on a node that does not exist)
    leaves the part applied so far. -/
def applyIdmap (m : IdMap) (created : List (Nat × Nat × Nat)) (addL delL : List (Nat × Nat)) :
    IdMap × Option IdMap.Err :=
  match foldStop (fun m (c : Nat × Nat × Nat) => m.applyCreate c.1 c.2.1 c.2.2) m created with
  | (m, some e) => (m, some e)
  | (m, none) =>
    match foldStop (fun m (p : Nat × Nat) => m.applyAddLabel p.1 p.2) m addL with
    | (m, some e) => (m, some e)
    | (m, none) => foldStop (fun m (p : Nat × Nat) => m.applyRemoveLabel p.1 p.2) m delL

namespace Engine

/-- WriteTxn::commit.  Returns the new engine state and whether `commit` returned `Ok`.  On an idmap
    error the log already contains the committed transaction, the run is not published and the
    txid counter is not advanced. -/
def commit (c : Cfg) (s : Engine) (t : Txn) : Engine × Bool :=
  let run := t.mt.freeze t.txid
  let wal := s.wal ++ t.walRecords c run
  match applyIdmap s.idmap t.created t.addL t.delL with
  | (idmap, some _) => ({ s with wal, idmap }, false)
  | (idmap, none) =>
    let vecs := t.vecs.foldl (fun vs p => upsert p.1 p.2 vs) s.vecs
    ({ s with wal, idmap, vecs,
              runs := if run.isEmpty then s.runs else run :: s.runs,
              nextTxid := s.nextTxid + 1 }, true)

/-- WriteTxn::commit whose `wal.append` number `j` (0 = the BeginTx) fails — record larger than 1 MiB,
    value nested deeper than 128, I/O error: the `j` records appended before it stay in the log (BeginTx
    and graph records, never the CommitTx), `commit` returns the error, nothing else happened; the txid
    stays consumed.  (A failed fsync takes the whole transaction out of the log again: `j = 0`.) -/
def commitFail (c : Cfg) (s : Engine) (t : Txn) (j : Nat) : Engine :=
  { s with wal := s.wal ++ (WalRec.beginTx t.txid ::
      c.commitOrder.flatMap (t.recordsOf (t.mt.freeze t.txid))).take j }

/-- dropping a WriteTxn: nothing of the transaction state survives (the txid stays consumed) -/
def abort (s : Engine) (_ : Txn) : Engine := s

/-- property sinking of `compact`: newest run first, `entry(..).or_insert(..)` keeps the first value -/
def sinkProps {κ} [DecidableEq κ] (sel : Run → List (κ × PV)) (runs : List Run) : List (κ × PV) :=
  runs.foldl (fun acc r => (sel r).foldl (fun acc p => if acc.any (·.1 == p.1) then acc else acc ++ [p]) acc) []

/-- GraphEngine::compact (= Db::compact = Db::checkpoint) -/
def compact (c : Cfg) (s : Engine) : Engine :=
  if s.runs.isEmpty then s
  else
    let seg := (buildForward s.nextSegId (collectRunEdges (!c.compactOwnLast) s.runs [] [])).persist
    let upTo := s.runs.foldl (fun m r => max m r.txid) 0
    let epoch := s.epoch + 1
    let segs := seg :: s.segs
    let sinkN := sinkProps (·.nprops) s.runs
    let sinkE := sinkProps (·.eprops) s.runs
    let sunk : Store := sinkN.map (fun p => (SKey.node p.1.1 p.1.2, p.2)) ++
                        sinkE.map (fun p => (SKey.edge p.1.1 p.1.2, p.2))
    -- `BTree::create` (no root yet) / `BTree::load(current_root)`: the root before the insert loops
    let before := if s.propsRoot == 0 then s.storeRoot + 1 else s.propsRoot
    -- `tree.root()` after the loops: every insert may split the root and allocate a new root page
    let after := if c.rootMoves s.store.length sunk.length then max before s.storeRoot + 1 else before
    -- `current_root = tree.root()`: where the source reads it (regenerated flag)
    let root := if sunk.isEmpty then s.propsRoot else if c.rootAfterInserts then after else before
    let sys := s.nextTxid
    -- replace_property_entry: every entry of a sunk key is deleted before the new one is inserted
    let kept := if c.sinkReplaces then s.store.filter (fun p => !sunk.any (·.1 == p.1)) else s.store
    { s with segStore := seg :: s.segStore, store := sunk ++ kept,
             storeRoot := if sunk.isEmpty then s.storeRoot else after,
             wal := s.wal ++ [.beginTx sys, .manifestSwitch epoch (segs.map (·.id)) root,
                              .checkpoint upTo epoch root, .commitTx sys],
             nextTxid := s.nextTxid + 1, nextSegId := s.nextSegId + 1,
             ckptTxid := upTo, propsRoot := root, runs := [], segs, epoch }

/-- GraphEngine::checkpoint_on_close (Db::close): with published runs only a flush; otherwise the
    log is REPLACED by one transaction: label table, manifest, checkpoint up to the last txid -/
def checkpointOnClose (s : Engine) : Engine :=
  if !s.runs.isEmpty then s
  else
    let upTo := s.nextTxid - 1
    let sys := s.nextTxid
    let labels := s.interner.zipIdx.map (fun p => WalRec.createLabel p.1 p.2)
    { s with nextTxid := s.nextTxid + 1,
             wal := [.beginTx sys] ++ labels ++
                    [.manifestSwitch s.epoch (s.segs.map (·.id)) s.propsRoot,
                     .checkpoint upTo s.epoch s.propsRoot, .commitTx sys] }

end Engine

/-! ### open / recovery -/

inductive OpenErr
  | walProtocol          -- CommitTx without BeginTx, op outside tx, label id mismatch, remapped id …
  | idmap (e : IdMap.Err)
  | segment              -- manifest names a segment that is not in the file
deriving DecidableEq, Repr

/-- Wal::replay_committed: group the records of committed transactions, drop uncommitted ones.
    `reset` = the grouping loop clears its buffer at every BeginTx, so the records of a transaction that
    never reached its CommitTx (failed commit, crash) are dropped when the next transaction begins;
    without it they are handed to the next transaction that commits.  At CommitTx the buffer is taken
    (`mem::take`), so it is empty afterwards either way. -/
def replayCommittedWith (reset : Bool) :
    List WalRec → Option Nat → List WalRec → Except OpenErr (List (Nat × List WalRec))
  | [], _, _ => .ok []
  | .beginTx t :: rest, _, pending => replayCommittedWith reset rest (some t) (if reset then [] else pending)
  | .commitTx t :: rest, cur, pending =>
    if cur != some t then .error .walProtocol
    else do
      let more ← replayCommittedWith reset rest none []
      pure ((t, pending) :: more)
  | r :: rest, cur, pending =>
    if cur.isNone then .error .walProtocol else replayCommittedWith reset rest cur (pending ++ [r])

/-- Wal::replay_committed as the current source does it (regenerated table) -/
def replayCommitted (w : List WalRec) (cur : Option Nat) (pending : List WalRec) :
    Except OpenErr (List (Nat × List WalRec)) :=
  replayCommittedWith Generated.replayResetsPendingAtBegin w cur pending

structure Recovery where
  epoch : Nat := 0
  segs : List Nat := []
  ckptTxid : Nat := 0
  maxTxid : Nat := 0
  propsRoot : Nat := 0             -- properties_root: the page the ENGINE takes for the root (reads,
                                   -- manifest, checkpoint); must equal `storeRoot`
deriving Repr

/-- engine.rs scan_recovery_state -/
def scanRecovery (committed : List (Nat × List WalRec)) : Recovery :=
  committed.foldl (fun st tx =>
    tx.2.foldl (fun st op =>
      match op with
      | .manifestSwitch epoch segs root =>
        if epoch ≥ st.epoch then { st with epoch, segs, ckptTxid := 0, propsRoot := root } else st
      | .checkpoint upTo epoch root =>
        if epoch == st.epoch then { st with ckptTxid := max st.ckptTxid upTo, propsRoot := root } else st
      | _ => st) { st with maxTxid := max st.maxTxid tx.1 }) {}

/-- name of the dummy entries replay_label_transactions creates for gaps (never a real name:
    real names are codes ≥ 256) -/
def placeholderName (i : Nat) : Nat := i % 256

/-- engine.rs replay_label_transactions (all committed transactions, no checkpoint skip) -/
def replayLabels (committed : List (Nat × List WalRec)) : Except OpenErr Interner :=
  committed.foldlM (fun t tx =>
    tx.2.foldlM (fun (t : Interner) op =>
      match op with
      | .createLabel name id =>
        match t.getId name with
        | some i => if i != id then .error .walProtocol else .ok t
        | none =>
          let gap := (List.range (id - t.length)).map (fun j => placeholderName (t.length + j))
          .ok (t ++ gap ++ [name])
      | _ => .ok t) t) []

/-- engine.rs replay_graph_transactions, the `match op` of the inner loop: node / label records go
    to the idmap, the others to the transaction's memtable -/
def replayOp (a : IdMap × MemTable) : WalRec → Except OpenErr (IdMap × MemTable)
  | .createNode x label iid =>
    match a.1.lookup x with
    | some existing => if existing != iid then .error .walProtocol else .ok a
    | none => match a.1.applyCreate x label iid with
      | .ok m => .ok (m, a.2)
      | .error e => .error (.idmap e)
  | .addNodeLabel n l => match a.1.applyAddLabel n l with
    | .ok m => .ok (m, a.2)
    | .error e => .error (.idmap e)
  | .removeNodeLabel n l => match a.1.applyRemoveLabel n l with
    | .ok m => .ok (m, a.2)
    | .error e => .error (.idmap e)
  | .createEdge e => .ok (a.1, a.2.createEdge e)
  | .tombstoneNode n => .ok (a.1, a.2.tombstoneNode n)
  | .tombstoneEdge e => .ok (a.1, a.2.tombstoneEdge e)
  | .setNodeProperty n k v => .ok (a.1, a.2.setNodeProp n k v)
  | .setEdgeProperty e k v => .ok (a.1, a.2.setEdgeProp e k v)
  | .removeNodeProperty n k => .ok (a.1, a.2.removeNodeProp n k)
  | .removeEdgeProperty e k => .ok (a.1, a.2.removeEdgeProp e k)
  | _ => .ok a

/-- engine.rs replay_graph_transactions: one memtable per transaction newer than the checkpoint,
    records applied IN FILE ORDER; runs come out oldest first -/
def replayGraph (committed : List (Nat × List WalRec)) (ckpt : Nat) (m : IdMap) :
    Except OpenErr (IdMap × List Run) :=
  committed.foldlM (fun (acc : IdMap × List Run) tx =>
    if tx.1 ≤ ckpt then .ok acc
    else do
      let (m, mt) ← tx.2.foldlM replayOp (acc.1, {})
      let run := mt.freeze tx.1
      pure (m, if run.isEmpty then acc.2 else acc.2 ++ [run])) (m, [])

/-- a segment named by the manifest is looked up by id in the file -/
def findSeg (store : List Seg) (id : Nat) : Except OpenErr Seg :=
  match store.find? (·.id == id) with
  | some g => .ok g
  | none => .error OpenErr.segment

/-- GraphEngine::open -/
def Engine.open (d : Disk) : Except OpenErr Engine := do
  let committed ← replayCommitted d.wal none []
  let st := scanRecovery committed
  let segs ← st.segs.mapM (findSeg d.segStore)
  let maxSeg := segs.foldl (fun m g => max m g.id) 0
  let interner ← replayLabels committed
  let (idmap, runs) ← replayGraph committed st.ckptTxid (IdMap.load (IdMap.readNodeTable d.i2e))
  pure { wal := d.wal, idmap, interner, runs := runs.reverse, segs, segStore := d.segStore,
         store := d.store, storeRoot := d.storeRoot, vecs := d.vecs,
         nextTxid := max (st.maxTxid + 1) 1, nextSegId := max (maxSeg + 1) 1,
         epoch := st.epoch, ckptTxid := st.ckptTxid, propsRoot := st.propsRoot }

/-! ### read API (api.rs StorageSnapshot over snapshot.rs Snapshot) -/
namespace Engine

/-- NeighborsIter: run phase, then — after the pending tombstones of the LAST run were folded into the
    blocked sets (`apply_pending_tombstones` between the phases) — the segment phase
    (`none` = a slice index panicked) -/
def neighborsFlushed (s : Engine) (src : Nat) (rel : Option Nat) : Option (List Edge) :=
  match outRuns src rel s.runs [] [] with
  | (es, none) => some es
  | (es, some (bn, be)) =>
    (s.segs.mapM (fun (g : Seg) => (g.neighbors src rel).map (·.filter (fun e => !blockedOut bn be e)))).map
      (fun ls => es ++ ls.flatten)

/-- NeighborsIter WITHOUT that fold (the tombstones of a run are only folded when an older run is
    loaded): the segment phase sees the blocked sets of all runs but the oldest, and a start node that
    only the oldest run tombstones does not terminate the iterator -/
def neighborsUnflushed (s : Engine) (src : Nat) (rel : Option Nat) : Option (List Edge) :=
  match (outRuns src rel s.runs.dropLast [] []).2 with
  | none => some (outRuns src rel s.runs [] []).1
  | some (bn, be) =>
    (s.segs.mapM (fun (g : Seg) => (g.neighbors src rel).map (·.filter (fun e => !blockedOut bn be e)))).map
      (fun ls => (outRuns src rel s.runs [] []).1 ++ ls.flatten)

/-- NeighborsIter as the current source does it (regenerated table) -/
def neighbors (s : Engine) (src : Nat) (rel : Option Nat) : Option (List Edge) :=
  if Generated.itersFlushBeforeSegments then s.neighborsFlushed src rel else s.neighborsUnflushed src rel

/-- IncomingNeighborsIter -/
def incomingFlushed (c : Cfg) (s : Engine) (dst : Nat) (rel : Option Nat) : Option (List Edge) :=
  match inRuns dst rel s.runs [] [] with
  | (es, none) => some es
  | (es, some (bn, be)) =>
    (s.segs.mapM (fun (g : Seg) => (g.incomingG c.csrGuard dst rel).map (·.filter (fun e => !blockedIn bn be e)))).map
      (fun ls => es ++ ls.flatten)

def incomingUnflushed (c : Cfg) (s : Engine) (dst : Nat) (rel : Option Nat) : Option (List Edge) :=
  match (inRuns dst rel s.runs.dropLast [] []).2 with
  | none => some (inRuns dst rel s.runs [] []).1
  | some (bn, be) =>
    (s.segs.mapM (fun (g : Seg) => (g.incomingG c.csrGuard dst rel).map (·.filter (fun e => !blockedIn bn be e)))).map
      (fun ls => (inRuns dst rel s.runs [] []).1 ++ ls.flatten)

def incoming (c : Cfg) (s : Engine) (dst : Nat) (rel : Option Nat) : Option (List Edge) :=
  if Generated.itersFlushBeforeSegments then s.incomingFlushed c dst rel else s.incomingUnflushed c dst rel

/-- api.rs StorageSnapshot::nodes (dense ids of the node table minus run tombstones) -/
def nodes (s : Engine) : List Nat := liveNodeIds s.idmap.i2e.length s.runs

/-- snapshot.rs Snapshot::nodes (dense ids of the published label table minus run tombstones) -/
def nodesSnap (s : Engine) : List Nat := liveNodeIds s.idmap.i2l.length s.runs

/-- api.rs StorageSnapshot::is_tombstoned_node -/
def isTombstoned (s : Engine) (n : Nat) : Bool := isTombNode s.runs n

/-- what the property tree shows when entered at the page the engine takes for its root: nothing while
    there is no root; every entry when that page IS the root; a page that stopped being the root (the
    left half of a split) reaches only a part of the tree — outside this model: nothing -/
def visibleStore (s : Engine) : Store :=
  if s.propsRoot == 0 then [] else if s.propsRoot == s.storeRoot then s.store else []

/-- api.rs StorageSnapshot::node_property: run overlay first, then the store — also when the
    overlay said "removed" -/
def nodeProp (s : Engine) (n k : Nat) : Option PV :=
  match npropRuns n k s.runs with
  | some v => some v
  | none => s.visibleStore.get (.node n k)

/-- api.rs StorageSnapshot::edge_property -/
def edgeProp (s : Engine) (e : Edge) (k : Nat) : Option PV :=
  match epropRuns e k s.runs with
  | some v => some v
  | none => s.visibleStore.get (.edge e k)

/-- api.rs StorageSnapshot::node_properties (`None` = empty map) -/
def nodeProps (s : Engine) (n : Nat) : List (Nat × PV) :=
  let props := mergeNProps n s.runs [] []
  if s.propsRoot != 0 then s.visibleStore.extendNode n props else props

/-- api.rs StorageSnapshot::edge_properties -/
def edgeProps (s : Engine) (e : Edge) : List (Nat × PV) :=
  let props := mergeEProps e s.runs [] []
  if s.propsRoot != 0 then s.visibleStore.extendEdge e props else props

/-- api.rs StorageSnapshot::resolve_node_labels -/
def nodeLabels (s : Engine) (n : Nat) : Option (List Nat) := s.idmap.i2l[n]?

/-- labels as names: `resolve_node_labels` + `resolve_label_name`, unknown ids (LabelId::MAX) dropped -/
def nodeLabelNames (s : Engine) (n : Nat) : List Nat :=
  ((s.nodeLabels n).getD []).filterMap s.interner.getName

/-- api.rs StorageSnapshot::resolve_external (external id 0 reads as none) -/
def resolveExternal (s : Engine) (n : Nat) : Option Nat :=
  match s.idmap.i2e[n]? with
  | some r => if r.ext == 0 then none else some r.ext
  | none => none

/-- GraphEngine::search_vector with k ≥ everything: the nodes that have a vector in the index, minus
    the nodes a published run tombstones (fix b85f233: there is no deletion path into the HNSW index,
    the hits of tombstoned nodes are dropped after the search) -/
def vecNodes (s : Engine) : List Nat := (s.vecs.map (·.1)).filter (fun n => !isTombNode s.runs n)

end Engine

end Nervus.Storage
