/-
  Nervus.Model.HnswStore — the persistent side of the vector index (C31, durability):
  the two system B-trees `__sys_hnsw_vec` / `__sys_hnsw_graph` as `GraphEngine` handles them.

  Mirrors
    nervusdb-storage/src/engine.rs   GraphEngine::open (BTree::load(def.root) for both catalog
                                     entries), GraphEngine::insert_vector (HnswIndex::insert = a
                                     sequence of BTree::insert on the two trees, then — repaired — the
                                     write-back of a moved root with IndexCatalog::update_root)
    nervusdb-storage/src/index/hnsw/storage.rs  insert_vector / set_neighbors / set_meta = BTree::insert,
                                     get_* = cursor_lower_bound + key comparison (`BTree.lookup`)
  The B-tree itself is builder btree's executable model (Model/BTree.lean).  Which keys and payloads
  HnswIndex::insert writes is immaterial here: an engine insert is ANY list of writes per tree.
  Core-only imports.
-/
import Nervus.Model.BTree
import Nervus.Model.Generated.HnswFlags
namespace Nervus.HnswStore
open Nervus Nervus.BTree

variable {κ : Type} [KeyOrd κ]

/-- one system B-tree: the tree with the root `Persistent*Storage.btree` holds in memory, and the root
    recorded in the index catalog page (`IndexDef.root`) -/
structure SysTree (κ : Type) where
  tree : Tree κ
  catRoot : Nat
  deriving Repr, DecidableEq

/-- `IndexCatalog::get_or_create` on a fresh database: `BTree::create`, the catalog records its root -/
def SysTree.create (c : Cfg) : SysTree κ := ⟨BTree.create c, (BTree.create c : Tree κ).root⟩

/-- what the next `GraphEngine::open` works with: the same pages, entered at the catalog's root -/
def SysTree.reopen (s : SysTree κ) : SysTree κ := { s with tree := { s.tree with root := s.catRoot } }

/-- a run of `BTree::insert` calls; stops at the first failure like the `?` chain in `HnswIndex::insert` -/
def writes (c : Cfg) : Tree κ → List (κ × Nat) → Tree κ × Bool
  | t, [] => (t, true)
  | t, (k, v) :: rest =>
    match BTree.insert c t k v with
    | (t', .ok) => writes c t' rest
    | (t', _) => (t', false)

/-- the write-back at the end of `insert_vector` (present iff `fixed`) -/
def SysTree.sync (fixed : Bool) (s : SysTree κ) : SysTree κ :=
  if fixed && s.catRoot != s.tree.root then { s with catRoot := s.tree.root } else s

structure Store (κ : Type) where
  vec : SysTree κ
  graph : SysTree κ
  deriving Repr, DecidableEq

def Store.create (c : Cfg) : Store κ := ⟨SysTree.create c, SysTree.create c⟩
def Store.reopen (s : Store κ) : Store κ := ⟨s.vec.reopen, s.graph.reopen⟩

/-- mirrors `GraphEngine::insert_vector`: the index insert writes to both trees; only if it returned
    `Ok` are the roots compared with the catalog and written back -/
def insertVector (fixed : Bool) (c : Cfg) (s : Store κ) (vecW graphW : List (κ × Nat)) : Store κ × Bool :=
  let rv := writes c s.vec.tree vecW
  let rg := if rv.2 then writes c s.graph.tree graphW else (s.graph.tree, false)
  if rv.2 && rg.2 then
    (⟨({ s.vec with tree := rv.1 } : SysTree κ).sync fixed, ({ s.graph with tree := rg.1 } : SysTree κ).sync fixed⟩, true)
  else (⟨{ s.vec with tree := rv.1 }, { s.graph with tree := rg.1 }⟩, false)

/-- a history of engine inserts -/
def runStore (fixed : Bool) (c : Cfg) : Store κ → List (List (κ × Nat) × List (κ × Nat)) → Store κ × Bool
  | s, [] => (s, true)
  | s, (vw, gw) :: rest =>
    match insertVector fixed c s vw gw with
    | (s', true) => runStore fixed c s' rest
    | (s', false) => (s', false)

/-- is the write-back present in the source? (regenerated) -/
def rootsWrittenBack : Bool := Generated.hnswRootsWrittenBack

end Nervus.HnswStore
