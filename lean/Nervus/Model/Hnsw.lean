/-
  Nervus.Model.Hnsw — the HNSW vector index as the code builds and searches it (C31).

  Mirrors
    nervusdb-storage/src/index/hnsw/logic.rs   HnswIndex::{search_layer, select_neighbors, insert, search}
    nervusdb-storage/src/index/hnsw/storage.rs Persistent{Vector,Graph}Storage through their map view
                                               (insert = newest entry wins, get_neighbors of a missing
                                               key = empty list, get_vector of a missing key = Err)
    nervusdb-storage/src/engine.rs             GraphEngine::search_vector

  Everything is over an abstract distance: `Space.dist : V → V → D` with `Space.lt` the strict order of
  `OrderedFloat<f32>`; the level `random_level` would draw is an INPUT (hook `verif_level`).
  `BinaryHeap`s are lists; `popMin`/`popMax`/`peekMax` pick by the heap's `(distance, id)` order, so
  list order is immaterial (ids inside one heap are distinct).  Loops whose trip count depends on the
  data carry fuel and fail with `Err.fuel` when it runs out; `unwrap()` on an empty heap is
  `Err.emptyHeap`.  Core-only imports.
-/
import Nervus.Model.Generated.HnswFlags
namespace Nervus.Hnsw

structure Space (V D : Type) where
  dist : V → V → D
  /-- `a < b` on `OrderedFloat<f32>` -/
  lt : D → D → Bool

structure Params where
  m : Nat
  efC : Nat
  efS : Nat
  deriving Repr, DecidableEq

/-- repaired behaviours (`true` = the `fix:` commit is present) -/
structure Cfg where
  /-- `search` checks `results.len() < k` before popping (k = 0 ⇒ no result) -/
  kZero : Bool
  /-- `search_vector` drops tombstoned nodes (asks the index for `k + #tombstoned`) -/
  skipTomb : Bool
  deriving Repr, DecidableEq

def Cfg.current : Cfg := ⟨Generated.hnswSearchChecksLenFirst, Generated.hnswSearchSkipsTombstoned⟩
def Cfg.pinned : Cfg := ⟨false, false⟩
def Cfg.fixed : Cfg := ⟨true, true⟩

structure Index (V : Type) where
  /-- vector store, newest entry first (`get_vector` = first match) -/
  vecs : List (Nat × V)
  /-- graph store `(layer, node) ↦ neighbours`, newest entry first -/
  adj : List ((Nat × Nat) × List Nat)
  entry : Option Nat
  maxLayer : Nat

def Index.empty {V : Type} : Index V := ⟨[], [], none, 0⟩

inductive Err
  | vectorNotFound
  | fuel
  | emptyHeap
  deriving Repr, DecidableEq

variable {V D : Type}

/-- mirrors `VectorStorage::get_vector` -/
def getVec (ix : Index V) (id : Nat) : Except Err V :=
  match ix.vecs.lookup id with
  | some v => .ok v
  | none => .error .vectorNotFound

/-- mirrors `GraphStorage::get_neighbors` (missing key ⇒ empty) -/
def getNbrs (ix : Index V) (layer node : Nat) : List Nat :=
  match ix.adj.lookup (layer, node) with
  | some l => l
  | none => []

/-- mirrors `GraphStorage::set_neighbors` -/
def setNbrs (ix : Index V) (layer node : Nat) (ns : List Nat) : Index V :=
  { ix with adj := ((layer, node), ns) :: ix.adj }

/-! ### heaps of `(distance, id)` -/

/-- the `Ord` of `(OrderedFloat<f32>, u32)` -/
def pairLt (sp : Space V D) (a b : D × Nat) : Bool :=
  sp.lt a.1 b.1 || (!sp.lt b.1 a.1 && a.2 < b.2)

/-- `BinaryHeap<Reverse<_>>::pop`: the least element and the rest -/
def popMin (sp : Space V D) : List (D × Nat) → Option ((D × Nat) × List (D × Nat))
  | [] => none
  | x :: xs =>
    match popMin sp xs with
    | none => some (x, [])
    | some (y, ys) => if pairLt sp y x then some (y, x :: ys) else some (x, xs)

/-- `BinaryHeap::pop` (max-heap): the greatest element and the rest -/
def popMax (sp : Space V D) : List (D × Nat) → Option ((D × Nat) × List (D × Nat))
  | [] => none
  | x :: xs =>
    match popMax sp xs with
    | none => some (x, [])
    | some (y, ys) => if pairLt sp x y then some (y, x :: ys) else some (x, xs)

def peekMax (sp : Space V D) (h : List (D × Nat)) : Option (D × Nat) :=
  match popMax sp h with
  | some (x, _) => some x
  | none => none

def insertPair (sp : Space V D) (a : D × Nat) : List (D × Nat) → List (D × Nat)
  | [] => [a]
  | b :: bs => if pairLt sp b a then b :: insertPair sp a bs else a :: b :: bs

/-- popping a min-heap until empty: ascending `(distance, id)` -/
def sortPairs (sp : Space V D) (l : List (D × Nat)) : List (D × Nat) := l.foldr (insertPair sp) []

/-- `push; if len >= n { break }` after every pop: at least one element even for `n = 0` -/
def takeAtLeastOne {α : Type} (n : Nat) : List α → List α
  | [] => []
  | x :: xs => x :: xs.take (n - 1)

/-! ### search_layer -/

structure SL (D : Type) where
  cands : List (D × Nat)
  visited : List Nat
  nearest : List (D × Nat)

/-- the loop over `entry_points` -/
def slInit (sp : Space V D) (ix : Index V) (q : V) : List Nat → SL D → Except Err (SL D)
  | [], st => .ok st
  | ep :: eps, st =>
    if st.visited.contains ep then slInit sp ix q eps st
    else
      match getVec ix ep with
      | .error e => .error e
      | .ok v =>
        let d := sp.dist q v
        slInit sp ix q eps ⟨(d, ep) :: st.cands, ep :: st.visited, (d, ep) :: st.nearest⟩

/-- the loop `for &n in &neighbors` -/
def slVisit (sp : Space V D) (ix : Index V) (q : V) (ef : Nat) : List Nat → SL D → Except Err (SL D)
  | [], st => .ok st
  | n :: ns, st =>
    if st.visited.contains n then slVisit sp ix q ef ns st
    else
      match getVec ix n with
      | .error e => .error e
      | .ok v =>
        let d := sp.dist q v
        let visited := n :: st.visited
        if st.nearest.length < ef then
          let nearest := (d, n) :: st.nearest
          let nearest := if nearest.length > ef then
              (match popMax sp nearest with | some (_, r) => r | none => nearest) else nearest
          slVisit sp ix q ef ns ⟨(d, n) :: st.cands, visited, nearest⟩
        else
          match peekMax sp st.nearest with
          | none => .error .emptyHeap
          | some mx =>
            if sp.lt d mx.1 then
              let nearest := (d, n) :: st.nearest
              let nearest := if nearest.length > ef then
                  (match popMax sp nearest with | some (_, r) => r | none => nearest) else nearest
              slVisit sp ix q ef ns ⟨(d, n) :: st.cands, visited, nearest⟩
            else slVisit sp ix q ef ns { st with visited := visited }

/-- the loop `while let Some(c) = candidates.pop()` -/
def slLoop (sp : Space V D) (ix : Index V) (q : V) (ef layer : Nat) : Nat → SL D → Except Err (List (D × Nat))
  | 0, _ => .error .fuel
  | fuel + 1, st =>
    match popMin sp st.cands with
    | none => .ok st.nearest
    | some (c, rest) =>
      match peekMax sp st.nearest with
      | none => .error .emptyHeap
      | some f =>
        if sp.lt f.1 c.1 && decide (st.nearest.length ≥ ef) then .ok st.nearest
        else
          match slVisit sp ix q ef (getNbrs ix layer c.2) { st with cands := rest } with
          | .error e => .error e
          | .ok st' => slLoop sp ix q ef layer fuel st'

/-- mirrors `search_layer`; the result is the content of the returned heap -/
def searchLayer (sp : Space V D) (ix : Index V) (q : V) (eps : List Nat) (ef layer : Nat) :
    Except Err (List (D × Nat)) :=
  match slInit sp ix q eps ⟨[], [], []⟩ with
  | .error e => .error e
  | .ok st => slLoop sp ix q ef layer (ix.vecs.length + 1) st

/-- mirrors `select_neighbors`: the `m` nearest of the heap -/
def selectNeighbors (sp : Space V D) (found : List (D × Nat)) (m : Nat) : List Nat :=
  (takeAtLeastOne m (sortPairs sp found)).map (·.2)

/-! ### greedy descent through the upper layers -/

/-- `for &n in &neighbors { if dist_n < curr_dist { … changed = true } }` -/
def greedyPass (sp : Space V D) (ix : Index V) (q : V) :
    List Nat → (D × Nat) → Bool → Except Err ((D × Nat) × Bool)
  | [], cur, ch => .ok (cur, ch)
  | n :: ns, cur, ch =>
    match getVec ix n with
    | .error e => .error e
    | .ok v =>
      let d := sp.dist q v
      if sp.lt d cur.1 then greedyPass sp ix q ns (d, n) true else greedyPass sp ix q ns cur ch

/-- `while changed { … }` on one layer -/
def greedyLayer (sp : Space V D) (ix : Index V) (q : V) (layer : Nat) : Nat → (D × Nat) → Except Err (D × Nat)
  | 0, _ => .error .fuel
  | fuel + 1, cur =>
    match greedyPass sp ix q (getNbrs ix layer cur.2) cur false with
    | .error e => .error e
    | .ok (cur', true) => greedyLayer sp ix q layer fuel cur'
    | .ok (cur', false) => .ok cur'

/-- `for l in (lo..=hi).rev()` -/
def layersDown (hi lo : Nat) : List Nat := ((List.range (hi + 1 - lo)).map (· + lo)).reverse

def greedyDown (sp : Space V D) (ix : Index V) (q : V) : List Nat → (D × Nat) → Except Err (D × Nat)
  | [], cur => .ok cur
  | l :: ls, cur =>
    match greedyLayer sp ix q l (ix.vecs.length + 1) cur with
    | .error e => .error e
    | .ok cur' => greedyDown sp ix q ls cur'

/-! ### insert -/

/-- back-links of one layer: `if !contains { push; if len > 2m { truncate(m) }; set }` -/
def backlink (m layer id : Nat) (ix : Index V) (n : Nat) : Index V :=
  let nn := getNbrs ix layer n
  if nn.contains id then ix
  else
    let nn1 := nn ++ [id]
    let nn2 := if nn1.length > m * 2 then nn1.take m else nn1
    setNbrs ix layer n nn2

/-- step 4 of `insert` for the layers `level, …, 0` -/
def insertLayers (sp : Space V D) (p : Params) (id : Nat) (v : V) :
    List Nat → Index V → List Nat → Except Err (Index V)
  | [], ix, _ => .ok ix
  | l :: ls, ix, eps =>
    match searchLayer sp ix v eps p.efC l with
    | .error e => .error e
    | .ok found =>
      let nbrs := selectNeighbors sp found p.m
      let ix1 := setNbrs ix l id nbrs
      let ix2 := nbrs.foldl (backlink p.m l id) ix1
      insertLayers sp p id v ls ix2 (found.map (·.2))

/-- mirrors `HnswIndex::insert` with the level as input -/
def insert (sp : Space V D) (p : Params) (ix : Index V) (id : Nat) (v : V) (level : Nat) :
    Except Err (Index V) :=
  let ix0 : Index V := { ix with vecs := (id, v) :: ix.vecs }
  match ix.entry with
  | none =>
    .ok { ((List.range (level + 1)).foldl (fun a l => setNbrs a l id []) ix0) with
            entry := some id, maxLayer := level }
  | some e =>
    match getVec ix0 e with
    | .error err => .error err
    | .ok ve =>
      match greedyDown sp ix0 v (layersDown ix.maxLayer (level + 1)) (sp.dist v ve, e) with
      | .error err => .error err
      | .ok cur =>
        match insertLayers sp p id v (layersDown level 0) ix0 [cur.2] with
        | .error err => .error err
        | .ok ix1 =>
          if level > ix.maxLayer then .ok { ix1 with maxLayer := level, entry := some id } else .ok ix1

/-! ### search -/

/-- mirrors `HnswIndex::search`; result `(id, distance)` in pop order -/
def search (cfg : Cfg) (sp : Space V D) (p : Params) (ix : Index V) (q : V) (k : Nat) :
    Except Err (List (D × Nat)) :=
  match ix.entry with
  | none => .ok []
  | some e =>
    match getVec ix e with
    | .error err => .error err
    | .ok ve =>
      match greedyDown sp ix q (layersDown ix.maxLayer 1) (sp.dist q ve, e) with
      | .error err => .error err
      | .ok cur =>
        match searchLayer sp ix q [cur.2] p.efS 0 with
        | .error err => .error err
        | .ok found =>
          let sorted := sortPairs sp found
          .ok (if cfg.kZero then sorted.take k else takeAtLeastOne k sorted)

/-- mirrors `GraphEngine::search_vector`; `tomb` = the distinct tombstoned node ids of the snapshot -/
def searchVector (cfg : Cfg) (sp : Space V D) (p : Params) (ix : Index V) (tomb : List Nat) (q : V) (k : Nat) :
    Except Err (List (D × Nat)) :=
  if cfg.skipTomb then
    match search cfg sp p ix q (k + tomb.length) with
    | .error e => .error e
    | .ok hits => .ok ((hits.filter (fun h => !tomb.contains h.2)).take k)
  else search cfg sp p ix q k

/-! ### the engine around the index: vectors written, nodes deleted, compaction -/

/-- what reaches the vector index and the tombstone set the engine filters with -/
inductive EOp (V : Type)
  /-- `WriteTxn::set_vector(id, v)` → `HnswIndex::insert` with the level drawn for it -/
  | vec (id level : Nat) (v : V)
  /-- `tombstone_node(id)` committed: the snapshot's tombstone set gains `id`; the index is not told -/
  | del (id : Nat)
  /-- `compact()`: the published runs — the only place tombstones live — are dropped -/
  | compact

structure EState (V : Type) where
  ix : Index V
  /-- distinct tombstoned ids of the current snapshot (`collect_tombstoned_nodes`) -/
  tomb : List Nat

def EState.init {V : Type} : EState V := ⟨Index.empty, []⟩

def estep (sp : Space V D) (p : Params) (st : EState V) : EOp V → Except Err (EState V)
  | .vec id level v =>
    match insert sp p st.ix id v level with
    | .error e => .error e
    | .ok ix' => .ok { st with ix := ix' }
  | .del id => .ok { st with tomb := if st.tomb.contains id then st.tomb else id :: st.tomb }
  | .compact => .ok { st with tomb := [] }

def erun (sp : Space V D) (p : Params) : List (EOp V) → EState V → Except Err (EState V)
  | [], st => .ok st
  | op :: ops, st =>
    match estep sp p st op with
    | .error e => .error e
    | .ok st' => erun sp p ops st'

end Nervus.Hnsw
