/-
  Nervus.Model.SnapLTS — one writer (commits, compaction) against any number of readers that
  assemble snapshots field by field (C03).

  Transactions are numbered 0,1,2,…; transaction `k` is the uniform workload of the `snapsched` stream:
  it creates node `k` (node table / idmap), gives it a label (node-label table), and stages in its L0
  run an edge out of node `k`, a property of node `k` and an overwrite of property `v` of node 0; if an
  index exists its tree gets node `k`.  The engine state is kept as WHICH transactions each
  separately published component currently reflects:

    nodes   — idmap / node table (scanned by `GraphStore::snapshot` via `scan_i2e_records`)
    labels  — `published_node_labels`
    runs    — `published_runs`        (newest first)
    segs    — `published_segments`    (transactions merged into CSR segments)
    root    — `properties_root ≠ 0`
    store   — the property B-tree pages, LIVE: read through the pager at read time, mutated in place by
              compaction (`tree.insert` under the old root)
    index   — index tree + catalog, LIVE: updated in place inside `commit`, read by `lookup_index`

  Atomic steps = the lock-delimited actions, in the order of the source
  (mirrors nervusdb-storage/src/engine.rs `WriteTxn::commit`, `GraphEngine::compact`, `begin_read`
  and api.rs `GraphStore::snapshot`; the orders are pinned to the regenerated `Generated.PubOrder`
  by theorems in Props/C03):

    commit   : walAndIndex → idmapApply → publishNodeLabels → publishRun            (commit point: publishRun)
    compact  : [lock, read runs] → persistSegment → sinkProps → walManifest → storeRoots → clearRuns → setSegments
               (the segment, the sunk properties and `pending` come from the run list READ at the start; clearRuns
                drops ALL published runs; where that read sits relative to the writer lock is `readBeforeLock`,
                regenerated as `Generated.compactRunsReadUnderLock`)
    snapshot : scanI2e → readRuns → readSegments → readNodeLabels → readRoots
-/
namespace Nervus.SnapLTS

inductive WPc where
  | idle
  | commit (stage : Nat)     -- 1: WAL+index done, 2: idmap applied, 3: node labels published   (4 = done → idle)
  | compact (stage : Nat)    -- 1: segment persisted, 2: props sunk, 3: manifest in WAL, 4: roots stored, 5: runs cleared
  deriving DecidableEq, Repr

/-- a snapshot under construction / completed (`StorageSnapshot`) -/
structure Snap where
  pc : Nat                   -- number of fields read so far (5 = complete)
  i2e : Nat
  runs : List Nat
  segs : List Nat
  nlabels : Nat
  root : Bool
  -- ghost
  lo : Nat                   -- committed transactions when the acquisition started
  hi : Nat                   -- … when it completed
  dirtyCommit : Bool         -- a commit publication step overlapped the acquisition
  dirtyCompact : Bool        -- a compaction publication step overlapped the acquisition
  stale : Bool               -- compaction sank properties into the live tree after completion
  idxAtDone : List Nat       -- index content when the acquisition completed
  deriving DecidableEq, Repr

structure State where
  nodes : Nat
  labels : Nat
  runs : List Nat
  segs : List Nat
  root : Bool
  store : List Nat
  index : List Nat
  hasIndex : Bool
  committed : Nat            -- ghost: the Spec's state is "transactions 0 … committed-1"
  pending : List Nat         -- compaction: the runs being merged
  readBeforeLock : Bool      -- the source reads `published_runs` in `compact` BEFORE taking the writer lock
  cap : Option (List Nat)    -- the run list compaction works from (captured at its read of `published_runs`)
  w : WPc
  snaps : Nat → Option Snap

inductive Label where
  | commitStep               -- next step of a commit (starts one when the writer is idle)
  | compactStep              -- next step of a compaction (starts one when idle and runs ≠ [])
  | compactRead              -- `compact` reads `published_runs` WITHOUT the writer lock (only if the source does so)
  | readStep (j : Nat)       -- next field read of snapshot `j` (starts it when absent)
  | dropSnap (j : Nat)
  deriving DecidableEq, Repr

def isCommit : WPc → Bool
  | .commit _ => true
  | _ => false
def isCompact : WPc → Bool
  | .compact _ => true
  | _ => false

def markAll (f : Snap → Snap) (s : State) : State :=
  { s with snaps := fun j => (s.snaps j).map f }

/-- a commit publication step overlaps every incomplete acquisition -/
def touchCommit (σ : Snap) : Snap := if σ.pc < 5 then { σ with dirtyCommit := true } else σ
/-- a compaction publication step overlaps every incomplete acquisition -/
def touchCompact (σ : Snap) : Snap := if σ.pc < 5 then { σ with dirtyCompact := true } else σ
/-- sinking properties changes what a COMPLETED snapshot with a non-zero root reads -/
def touchSink (σ : Snap) : Snap :=
  if σ.pc < 5 then { σ with dirtyCompact := true } else { σ with stale := true }

def setSnap (s : State) (j : Nat) (σ : Option Snap) : State :=
  { s with snaps := fun i => if i = j then σ else s.snaps i }

/-- first read of an acquisition: `scan_i2e_records` -/
def newSnap (s : State) : Snap where
  pc := 1
  i2e := s.nodes
  runs := []
  segs := []
  nlabels := 0
  root := false
  lo := s.committed
  hi := s.committed
  dirtyCommit := isCommit s.w
  dirtyCompact := isCompact s.w
  stale := false
  idxAtDone := []

/-- one atomic step; `none` = not enabled -/
def step (s : State) : Label → Option State
  | .commitStep =>
    match s.w with
    | .idle =>        -- walAndIndex: WAL records + in-place index update, CommitTx, fsync
      some (markAll touchCommit { s with w := .commit 1, index := if s.hasIndex then s.committed :: s.index else s.index })
    | .commit 1 =>    -- idmapApply
      some (markAll touchCommit { s with w := .commit 2, nodes := s.nodes + 1 })
    | .commit 2 =>    -- publishNodeLabels
      some (markAll touchCommit { s with w := .commit 3, labels := s.labels + 1 })
    | .commit 3 =>    -- publishRun (commit point)
      some (markAll touchCommit { s with w := .idle, runs := s.committed :: s.runs, committed := s.committed + 1 })
    | _ => none
  | .compactRead =>     -- a compactor thread captures the run list while a writer may be in flight
    if s.readBeforeLock && s.cap.isNone && !isCompact s.w then
      some { s with cap := if s.runs.isEmpty then none else some s.runs }   -- empty: `compact` returns at once
    else none
  | .compactStep =>
    match s.w with
    | .idle =>        -- takes the writer lock (no commit in flight); persistSegment
      if s.readBeforeLock then
        match s.cap with
        | some _ => some (markAll touchCompact { s with w := .compact 1 })
        | none => none
      else if s.runs.isEmpty then none else
      some (markAll touchCompact { s with w := .compact 1, cap := some s.runs })   -- the read happens under the lock
    | .compact 1 => some (markAll touchSink { s with w := .compact 2, store := s.cap.getD [] ++ s.store })  -- sinkProps (in place)
    | .compact 2 => some (markAll touchCompact { s with w := .compact 3 })         -- walManifest
    | .compact 3 => some (markAll touchCompact { s with w := .compact 4, root := true })  -- storeRoots
    | .compact 4 =>   -- clearRuns: ALL published runs are dropped, whatever list the segment was built from
      some (markAll touchCompact { s with w := .compact 5, pending := s.cap.getD [], runs := [] })
    | .compact 5 => some (markAll touchCompact { s with w := .idle, segs := s.pending ++ s.segs, pending := [], cap := none })  -- setSegments
    | _ => none
  | .readStep j =>
    match s.snaps j with
    | none =>         -- scanI2e
      some (setSnap s j (some (newSnap s)))
    | some σ =>
      match σ.pc with
      | 1 => some (setSnap s j (some { σ with pc := 2, runs := s.runs }))
      | 2 => some (setSnap s j (some { σ with pc := 3, segs := s.segs }))
      | 3 => some (setSnap s j (some { σ with pc := 4, nlabels := s.labels }))
      | 4 => some (setSnap s j (some { σ with pc := 5, root := s.root, hi := s.committed, idxAtDone := s.index }))
      | _ => none
  | .dropSnap j =>
    match s.snaps j with
    | some _ => some (setSnap s j none)
    | none => none

def init (hasIndex : Bool) (readBeforeLock : Bool := false) : State :=
  { nodes := 0, labels := 0, runs := [], segs := [], root := false, store := [], index := [], hasIndex := hasIndex,
    committed := 0, pending := [], readBeforeLock := readBeforeLock, cap := none, w := .idle, snaps := fun _ => none }

inductive Reach (s0 : State) : State → Prop where
  | refl : Reach s0 s0
  | step {s s'} (l : Label) : Reach s0 s → step s l = some s' → Reach s0 s'

def runTrace : State → List Label → Option State
  | s, [] => some s
  | s, l :: ls => match step s l with
    | some s' => runTrace s' ls
    | none => none

/-! ### what a snapshot shows (read at state `s`: the store and the index are live) -/

structure View where
  nodes : Nat                -- `nodes()` enumerates 0 … nodes-1
  labels : Nat               -- nodes with a resolvable label
  edges : List Nat           -- transactions whose edge `neighbors` returns
  props : List Nat           -- transactions whose property `node_property` returns
  idx : List Nat             -- transactions whose node `lookup_index` returns
  deriving DecidableEq, Repr

def view (s : State) (σ : Snap) : View :=
  { nodes := σ.i2e, labels := σ.nlabels, edges := σ.runs ++ σ.segs,
    props := σ.runs ++ (if σ.root then s.store else []), idx := s.index }

/-- the view of the Spec state "transactions 0 … c-1 committed" -/
def Shows (hasIndex : Bool) (v : View) (c : Nat) : Prop :=
  v.nodes = c ∧ v.labels = c ∧ (∀ k, k ∈ v.edges ↔ k < c) ∧ (∀ k, k ∈ v.props ↔ k < c) ∧
  (∀ k, k ∈ v.idx ↔ (hasIndex = true ∧ k < c))

/-- the same without index lookups -/
def ShowsNoIdx (v : View) (c : Nat) : Prop :=
  v.nodes = c ∧ v.labels = c ∧ (∀ k, k ∈ v.edges ↔ k < c) ∧ (∀ k, k ∈ v.props ↔ k < c)

/-- decidable version used by the driver and by counterexamples: canonical (sorted, duplicate-free) lists -/
def below (c : Nat) : List Nat := List.range c

def canon (l : List Nat) : List Nat := (List.range (l.foldl max 0 + 1)).filter (fun k => l.contains k)

def showsB (hasIndex : Bool) (v : View) (c : Nat) : Bool :=
  v.nodes == c && v.labels == c && canon v.edges == below c && canon v.props == below c &&
  canon v.idx == (if hasIndex then below c else [])

end Nervus.SnapLTS
