/-
  C02 — Crash recovery yields a committed prefix.
  Statements only (lemmas live in Nervus.Proofs.Crash*).

  Model: Nervus.Model.IOSteps (every operation as its I/O steps in code order, validated against
  the H1 step log of the real engine; file system = durable image + unsynced operations; process
  death keeps everything written, power loss keeps the durable image plus ANY subset of the
  unsynced page operations — each whole or torn — plus any prefix of the unsynced log fragments)
  and Nervus.Model.Recovery (what `GraphEngine::open` reads).  Spec: Nervus.Spec.CrashTxLog.
  Switches of the model come from the source (`Generated.CrashCfg`): the theorems below are about
  `cfgOfSource`, i.e. about the tree as it is now.
-/
import Nervus.Proofs.CrashMain
namespace Nervus.Props.C02
open Nervus Nervus.Crash

/-- the obligations the theorems put on the source: the node-table slot is synced before it is
    counted, and the ordering facts the step model is built on are as extracted -/
theorem source_ok :
    cfgOfSource.syncSlot = true ∧ cfgOfSource.syncCreate = true ∧ cfgOfSource.freshZero = true ∧
    Generated.commitSyncsLogBeforeApply = true ∧ Generated.compactSyncsPagesBeforeManifest = true ∧
    Generated.closeSyncsPagesBeforeRewrite = true ∧ Generated.rewriteSyncsTmpBeforeRename = true ∧
    Generated.compactCheckpointIsMaxRunTxid = true ∧ Generated.closeCheckpointIsLastTxid = true ∧
    Generated.replaySkipsUpToCheckpoint = true := by decide

/-- **C02, full strength** (not proved — kept visible): for every history of incarnations cut by a
    crash at every I/O step in both crash modes, iterated, with no precondition other than fresh
    external ids (and, beyond what `Round` can express, with compactions, checkpoints and closes
    inside the incarnations), the next open succeeds and shows an admissible transaction list.
    False today because of the known findings C01-torn-tail-append (unless C17's repair is in the
    tree: `tailTolerant`) and C01-live-tree-in-place (compaction, see `counterexample_live_tree`);
    the proved part is `crash_prefix` below. -/
def C02_full : Prop :=
  ∀ (rounds : List Round), FreshHist [] rounds →
    ∃ T m fs', Spec.Admissible [] (rounds.map Round.obs) T ∧
      recover cfgOfSource (afterRounds cfgOfSource (created cfgOfSource) rounds) = .ok (m, fs') ∧
      Spec.Content.same (content m fs'.pv) (Spec.run T)

/-- a freshly created database represents the empty transaction list -/
theorem created_closed : Closed [] (created cfgOfSource) := by
  have hlen : (created cfgOfSource).pd.hdr.i2eLen = 0 := by decide
  refine ⟨⟨by decide, ⟨by decide, by decide⟩⟩, [], 0, by rfl, ?_, ?_⟩
  · exact ⟨by decide, by decide, by decide, by decide, by intro e; simp [allEdges, logRuns],
      by intro q; simp [allProps, logRuns], by decide, by decide, by decide⟩
  · exact ⟨⟨by decide, by decide, by decide, by decide, ⟨[3, 4], by decide, by decide, by decide⟩⟩,
      by decide, by decide, by decide, by intro i hi; rw [hlen] at hi; omega⟩

/-- **C02 (every step, one commit)**: from any state in which files and handle agree on `T`,
    after EVERY prefix of the I/O steps of a commit, in EVERY crash mode (process death; power loss
    with any subset of the unsynced page operations persisted, whole or torn, and any prefix of the
    unsynced log fragments), the files represent `T` or `T ++ [tx]` — no transaction in part — and
    once the log sync has been performed they represent `T ++ [tx]`. -/
theorem commit_every_step {T : List Tx} {fs : FS} {m : Mem} {cs : List CTx} {c : Nat}
    (h : InvOpen T fs m cs c) (ht : TailPre cfgOfSource fs m) (tx : Tx) (hf : FreshTx T tx) :
    let S := ioSteps (commitA cfgOfSource m fs.pv fs.wf tx)
    (∀ n mode, ∃ T' ∈ [T, T ++ [tx]], Rep T' ((fs.steps (S.take n)).crashP mode) ((fs.steps (S.take n)).crashW mode)) ∧
    (∀ n mode, (cutSteps cfgOfSource (m.ws fs.wf)).length + 3 * (txRecs m.nextTxid m.idLen tx).length < n →
      Rep (T ++ [tx]) ((fs.steps (S.take n)).crashP mode) ((fs.steps (S.take n)).crashW mode)) := by
  intro S
  obtain ⟨h1, h2⟩ := commit_safe (cfg := cfgOfSource) source_ok.1 h ht tx hf
  refine ⟨fun n mode => h1 n mode, fun n mode hn => ?_⟩
  obtain ⟨T', hT', hr⟩ := h2 n hn mode
  simp only [List.mem_singleton] at hT'
  subst hT'
  exact hr

/-- **C02 (recovery itself)**: on files that represent `T`, `open` succeeds, every crash image at
    every I/O step of the recovery still represents `T`, and the handle shows exactly `T`. -/
theorem open_every_step {T : List Tx} {fs : FS} (hc : Closed T fs) :
    (∀ n mode, Rep T ((fs.steps ((ioSteps (openA cfgOfSource fs.pv fs.wf)).take n)).crashP mode)
      ((fs.steps ((ioSteps (openA cfgOfSource fs.pv fs.wf)).take n)).crashW mode)) ∧
    ∃ m fs', recover cfgOfSource fs = .ok (m, fs') ∧ Spec.Content.same (content m fs'.pv) (Spec.run T) := by
  obtain ⟨hfail, sa, _, cs, c, hinv, _⟩ := open_safe (cfg := cfgOfSource) source_ok.1 hc.flat.pj hc.flat.quiet hc.rep
  obtain ⟨o1, o2, o3⟩ := run_none (openA cfgOfSource fs.pv fs.wf) fs {}
  constructor
  · intro n mode
    obtain ⟨T', hT', hr⟩ := sa n mode
    simp only [List.mem_singleton] at hT'
    subst hT'
    exact hr
  · exact ⟨_, _, by simp only [recover, o3, hfail, o1, o2], content_of_inv hinv⟩

/-- **C02 (all histories: `crash_prefix`)**: starting from a freshly created database, for EVERY
    list of incarnations — open, any commits, death inside the open or inside a commit at ANY I/O
    step or between operations, in ANY crash mode — iterated any number of times, provided external
    ids are fresh and no commit appends behind a torn log tail (`HistOK`: decidable on the model;
    the second condition is the trigger of C01-torn-tail-append and is vacuous once C17's repair is
    in the tree), the next open succeeds and its content is that of an admissible transaction
    list: every acknowledged commit, and each commit in flight at a death entirely or not at all,
    in commit order. -/
theorem crash_prefix (rounds : List Round) (hok : HistOK cfgOfSource (created cfgOfSource) [] rounds) :
    ∃ T m fs', Spec.Admissible [] (rounds.map Round.obs) T ∧
      recover cfgOfSource (afterRounds cfgOfSource (created cfgOfSource) rounds) = .ok (m, fs') ∧
      Spec.Content.same (content m fs'.pv) (Spec.run T) :=
  crash_recover (cfg := cfgOfSource) source_ok.1 rounds [] (created cfgOfSource) [] created_closed (by simp [allNodes]) hok

/-! non-vacuity: a concrete two-incarnation history that meets `HistOK`, with a power loss in the
    middle of the node-table phase of a two-node commit (unsynced meta write persisted) -/
def ex_tx1 : Tx := ⟨[1001], [1000], [10000]⟩
def ex_tx2 : Tx := ⟨[2001, 2002], [2000], [20000]⟩
def ex_tx3 : Tx := ⟨[3001], [], [30000]⟩
def ex_rounds : List Round :=
  [⟨[ex_tx1], .inCommit ex_tx2 29, .power [.keep, .drop] 0 false⟩, ⟨[ex_tx3], .idle, .proc⟩]

example : HistOK cfgOfSource (created cfgOfSource) [] ex_rounds := by decide
example : (match recover cfgOfSource (afterRounds cfgOfSource (created cfgOfSource) ex_rounds) with
    | .ok (m, fs) => some (content m fs.pv)
    | .error _ => none) =
    some ⟨[1001, 2001, 2002, 3001], [1000, 2000], [10000, 20000, 30000]⟩ := by decide

/-! counterexamples -/

/-- the configuration of the pinned tree (before the `fix:` commits of this property) -/
def cfgPinned : Cfg :=
  { cfgOfSource with syncSlot := false, syncCreate := false, freshZero := false, walRollback := false, tailTolerant := false }

/-- pinned tree (fixed by b1723cb): power loss while the second node of a commit is applied — the
    meta page with `i2e_len` persisted, the slot it counts did not — and the database can never be
    opened again (`non-dense internal id`). -/
theorem counterexample_pinned_slot_after_len :
    (match recover cfgPinned (afterRounds cfgPinned (created cfgPinned)
        [⟨[ex_tx1], .inCommit ex_tx2 24, .power [.drop, .keep] 0 false⟩]) with
      | .ok _ => none
      | .error e => some e) = some Err.nonDense := by decide

/-- pinned tree (fixed by be5161a): process death between `set_len` and the first meta page write
    of database creation leaves a file that `open` rejects forever. -/
theorem counterexample_pinned_creation :
    (match recover cfgPinned ((run (openA cfgPinned ({} : FS).pv []) (.crashAt 1) {} {}).fs.crash .proc) with
      | .ok _ => none
      | .error e => some e) = some Err.io := by decide

/-- current tree, known finding C01-live-tree-in-place: compaction sinks properties into the live
    property tree in place; power loss with a torn write of the leaf page during the second
    compaction makes a property of an acknowledged, already compacted transaction unreadable. -/
theorem counterexample_live_tree :
    let w0 : World := ⟨created cfgOfSource, none⟩
    let w1 := (w0.step cfgOfSource .openOp).1
    let w2 := (w1.step cfgOfSource (.commit ⟨[1001], [1000], [10000]⟩)).1
    let w3 := (w2.step cfgOfSource .compact).1
    let w4 := (w3.step cfgOfSource (.commit ⟨[2001], [2000], [20000]⟩)).1
    let w5 := (w4.step cfgOfSource .compact (.crashAt 32) (.power [.drop, .torn] 0 false)).1
    (match recover cfgOfSource w5.fs with
      | .ok (m, fs) => some ((content m fs.pv).props.contains 10000)
      | .error _ => none) = some false := by decide

end Nervus.Props.C02
