/-
  C02 — Crash recovery yields a committed prefix.
  Statements only (lemmas live in Nervus.Proofs.Crash*).

  Model: Nervus.Model.IOSteps (every operation as its I/O steps in code order, validated against
  the H1 step log of the real engine; file system = durable image + unsynced operations; process
  death keeps everything written, power loss keeps the durable image plus ANY subset of the
  unsynced page operations — each whole or torn — plus any prefix of the unsynced log fragments)
  and Nervus.Model.Recovery (what `GraphEngine::open` reads).  Spec: Nervus.Spec.CrashTxLog.
  Switches of the model come from the source (`Generated.CrashCfg`): the theorems below are about
  `cfgOfSource`, i.e. about the tree as it is now.
-/
import Nervus.Proofs.CrashMain
import Nervus.Proofs.CrashIndex
namespace Nervus.Props.C02
open Nervus Nervus.Crash

/-- the obligations the theorems put on the source: the node-table slot is synced before it is
    counted, and the ordering facts the step model is built on are as extracted -/
theorem source_ok :
    cfgOfSource.syncSlot = true ∧ cfgOfSource.syncCreate = true ∧ cfgOfSource.freshZero = true ∧
    cfgOfSource.tailTolerant = true ∧
    Generated.commitSyncsLogBeforeApply = true ∧ Generated.compactSyncsPagesBeforeManifest = true ∧
    Generated.closeSyncsPagesBeforeRewrite = true ∧ Generated.rewriteSyncsTmpBeforeRename = true ∧
    Generated.compactCheckpointIsMaxRunTxid = true ∧ Generated.closeCheckpointIsLastTxid = true ∧
    Generated.replaySkipsUpToCheckpoint = true := by decide

/-- **C02, full strength** (not proved — kept visible): for every history of incarnations (open,
    commits and compactions, death at every I/O step of an open, a commit, a compaction or a
    close, in both crash modes, iterated) with no precondition other than fresh external ids, the
    next open succeeds and shows an admissible transaction list.  False today because of the known
    finding C01-live-tree-in-place (`counterexample_live_tree`: a torn in-place write of a live
    leaf, `counterexample_live_split`: an in-place split of the live leaf); not proved for
    compactions that sink keys into a live tree with an internal root which are not above all its
    keys.  The proved part is
    `crash_prefix` / `crash_prefix_cfg`, which add exactly these conditions (`CondHist`). -/
def C02_full : Prop :=
  ∀ (rounds : List Round), FreshHist [] rounds →
    ∃ T m fs', Spec.Admissible [] (rounds.map Round.obs) T ∧
      recover cfgOfSource (afterRounds cfgOfSource (created cfgOfSource) rounds) = .ok (m, fs') ∧
      Spec.Content.same (content m fs'.pv) (Spec.run T)

/-- a freshly created database represents the empty transaction list -/
theorem created_closed : Closed [] (created cfgOfSource) := by
  have hlen : (created cfgOfSource).pd.hdr.i2eLen = 0 := by decide
  have hsegs : (created cfgOfSource).pd.segs = [] := by decide
  have htrees : (created cfgOfSource).pd.trees = [] := by decide
  refine ⟨⟨by decide, ⟨by decide, by decide⟩⟩, [], 0, by rfl, ?_, ?_, ?_⟩
  · exact ⟨by decide, by decide, by decide, by decide, by decide, List.Pairwise.nil, by intro tx h; simp at h⟩
  · exact ⟨⟨by decide, by decide, by decide, by decide, by decide, ⟨[3, 4], by decide, by decide, by decide⟩⟩,
      by decide, by decide, by decide, by intro i hi; rw [hlen] at hi; omega⟩
  · refine ⟨by intro k hk; simp [scan] at hk, by rw [hsegs]; intro s hs; simp at hs,
      by rw [htrees]; intro t ht; simp at ht, by intro e; simp [allEdges, logRuns, scan], by intro q hq; simp [logRuns] at hq,
      ⟨[], by intro q hq; simp [allProps] at hq, fun _ => rfl, fun h => absurd (by decide) h⟩⟩

theorem leafCap_pos : 1 ≤ cfgOfSource.leafCap := by decide

/-- **C02 (every step, one commit)**: from any state in which files and handle agree on `T`,
    after EVERY prefix of the I/O steps of a commit, in EVERY crash mode (process death; power loss
    with any subset of the unsynced page operations persisted, whole or torn, and any prefix of the
    unsynced log fragments), the files represent `T` or `T ++ [tx]` — no transaction in part — and
    once the log sync has been performed they represent `T ++ [tx]`. -/
theorem commit_every_step {T : List Tx} {fs : FS} {m : Mem} {cs : List CTx} {c : Nat}
    (h : InvOpen T fs m cs c) (ht : TailPre cfgOfSource fs m) (tx : Tx) (hf : FreshTx T tx) :
    let S := ioSteps (commitA cfgOfSource m fs.pv fs.wf tx)
    (∀ n mode, ∃ T' ∈ [T, T ++ [tx]], Rep T' ((fs.steps (S.take n)).crashP mode) ((fs.steps (S.take n)).crashW mode)) ∧
    (∀ n mode, (cutSteps cfgOfSource (m.ws fs.wf)).length + 3 * (txRecs m.nextTxid m.idLen tx).length < n →
      Rep (T ++ [tx]) ((fs.steps (S.take n)).crashP mode) ((fs.steps (S.take n)).crashW mode)) := by
  intro S
  obtain ⟨h1, h2⟩ := commit_safe (cfg := cfgOfSource) source_ok.1 h ht tx hf
  refine ⟨fun n mode => h1 n mode, fun n mode hn => ?_⟩
  obtain ⟨T', hT', hr⟩ := h2 n hn mode
  simp only [List.mem_singleton] at hT'
  subst hT'
  exact hr

/-- **C02 (recovery itself)**: on files that represent `T`, `open` succeeds, every crash image at
    every I/O step of the recovery still represents `T`, and the handle shows exactly `T`. -/
theorem open_every_step {T : List Tx} {fs : FS} (hc : Closed T fs) :
    (∀ n mode, Rep T ((fs.steps ((ioSteps (openA cfgOfSource fs.pv fs.wf)).take n)).crashP mode)
      ((fs.steps ((ioSteps (openA cfgOfSource fs.pv fs.wf)).take n)).crashW mode)) ∧
    ∃ m fs', recover cfgOfSource fs = .ok (m, fs') ∧ Spec.Content.same (content m fs'.pv) (Spec.run T) := by
  obtain ⟨hfail, sa, _, cs, c, hinv, _⟩ := open_safe (cfg := cfgOfSource) source_ok.1 hc.flat.pj hc.flat.quiet hc.rep
  obtain ⟨o1, o2, o3⟩ := run_none (openA cfgOfSource fs.pv fs.wf) fs {}
  constructor
  · intro n mode
    obtain ⟨T', hT', hr⟩ := sa n mode
    simp only [List.mem_singleton] at hT'
    subst hT'
    exact hr
  · exact ⟨_, _, by simp only [recover, o3, hfail, o1, o2], content_of_inv hinv⟩

/-- **C02 (every step, compaction)**: from any state in which files and handle agree on `T`,
    after EVERY prefix of the I/O steps of `compact` (segment persist, property sinking into the
    live or a new tree, statistics blob, manifest + checkpoint records, log sync), in EVERY crash
    mode that tears no leaf write of the live property tree, the files represent `T` — leaf splits
    in a NEW tree included; only the LIVE tree must be one leaf with room (`NoLiveSplit`: an
    in-place split of the live tree is finding C01-live-tree-in-place). -/
theorem compact_every_step {T : List Tx} {fs : FS} {m : Mem} {cs : List CTx} {c : Nat}
    (h : InvOpen T fs m cs c) (ht : TailPre cfgOfSource fs m) (hns : NoLiveSplit cfgOfSource m fs.pv) :
    let S := ioSteps (compactA cfgOfSource m fs.pv fs.wf)
    ∀ n mode, mode.tearsLive m.proot (fs.steps (S.take n)).pj = false →
      Rep T ((fs.steps (S.take n)).crashP mode) ((fs.steps (S.take n)).crashW mode) := by
  intro S n mode hm
  obtain ⟨T', hT', hr⟩ := compact_safe leafCap_pos h ht hns n mode hm
  simp only [List.mem_singleton] at hT'
  subst hT'
  exact hr

/-- a completed compaction leaves handle and files in agreement on the same list `T` (so that
    every later operation starts from the invariant again) -/
theorem compact_keeps_invariant {T : List Tx} {fs : FS} {m : Mem} {cs : List CTx} {c : Nat}
    (h : InvOpen T fs m cs c) (ht : TailPre cfgOfSource fs m) (hns : NoLiveSplit cfgOfSource m fs.pv) :
    ∃ cs' c', InvOpen T (run (compactA cfgOfSource m fs.pv fs.wf) .none fs m).fs
      (run (compactA cfgOfSource m fs.pv fs.wf) .none fs m).mem cs' c' := by
  obtain ⟨cs', c', hinv, _⟩ := compact_post leafCap_pos h ht hns
  obtain ⟨r1, r2, _⟩ := run_none (compactA cfgOfSource m fs.pv fs.wf) fs m
  exact ⟨cs', c', by rw [r1, r2]; exact hinv⟩

/-- **C02 (every step, checkpoint-on-close)**: after EVERY prefix of the I/O steps of
    `checkpoint_on_close` (page sync, then either a log sync or the rewrite of the log as a
    snapshot: temporary file, its sync, rename, directory sync), in EVERY crash mode — including a
    lost rename — the files represent `T`. -/
theorem close_every_step {T : List Tx} {fs : FS} {m : Mem} {cs : List CTx} {c : Nat} (h : InvOpen T fs m cs c) :
    let S := ioSteps (closeA cfgOfSource m fs.pv fs.wf)
    ∀ n mode, Rep T ((fs.steps (S.take n)).crashP mode) ((fs.steps (S.take n)).crashW mode) := by
  intro S n mode
  obtain ⟨T', hT', hr⟩ := close_safe (cfg := cfgOfSource) h n mode
  simp only [List.mem_singleton] at hT'
  subst hT'
  exact hr

/-- **C02 (all histories: `crash_prefix`)**: starting from a freshly created database, for EVERY
    list of incarnations — open, any commits and compactions, death inside the open, a commit, a
    compaction or the close at ANY I/O step, or between operations, in ANY crash mode — iterated
    any number of times, with fresh non-zero external ids (what the API guarantees) and the two
    compaction conditions `CondHist` (no compaction splits a leaf of the LIVE property tree in
    place — leaf splits in a new tree are covered; a power loss inside a compaction tears no leaf
    write of the live tree: both are the known finding C01-live-tree-in-place), the next open succeeds and its content is that of an admissible
    transaction list: every acknowledged commit, and each commit in flight at a death entirely or
    not at all, in commit order. -/
theorem crash_prefix (rounds : List Round) (hok : FreshHist [] rounds)
    (hc : CondHist cfgOfSource (created cfgOfSource) rounds) :
    ∃ T m fs', Spec.Admissible [] (rounds.map Round.obs) T ∧
      recover cfgOfSource (afterRounds cfgOfSource (created cfgOfSource) rounds) = .ok (m, fs') ∧
      Spec.Content.same (content m fs'.pv) (Spec.run T) :=
  crash_recover (cfg := cfgOfSource) source_ok.1 source_ok.2.2.1 source_ok.2.1 leafCap_pos rounds [] (created cfgOfSource) []
    (Or.inl created_closed) (by simp [allNodes]) (histOK_of_fresh source_ok.2.2.2.1 rounds _ _ hok hc)

/-- **C02 (all histories, including the creation)**: the same starting from files that do not
    exist yet: the first `open` creates the database (page-file header and bitmap, catalog page,
    the two reserved index roots — 36 I/O steps) and may die at ANY of these steps in ANY crash
    mode, any number of times in a row: every crash image is a *nascent* database on which the
    next `open` completes the creation (`Proofs/CrashCreate`), and from then on everything is as
    in `crash_prefix`. -/
theorem crash_prefix_creation (rounds : List Round) (hok : FreshHist [] rounds)
    (hc : CondHist cfgOfSource ({} : FS) rounds) :
    ∃ T m fs', Spec.Admissible [] (rounds.map Round.obs) T ∧
      recover cfgOfSource (afterRounds cfgOfSource ({} : FS) rounds) = .ok (m, fs') ∧
      Spec.Content.same (content m fs'.pv) (Spec.run T) :=
  crash_recover (cfg := cfgOfSource) source_ok.1 source_ok.2.2.1 source_ok.2.1 leafCap_pos rounds [] ({} : FS) []
    (Or.inr ⟨rfl, nascent_empty⟩) (by simp [allNodes]) (histOK_of_fresh source_ok.2.2.2.1 rounds _ _ hok hc)

/-- **C02 for every configuration that meets `CfgOK`** — in particular for EVERY leaf capacity
    ≥ 1 — from files that do not exist yet.  With a small capacity the compactions of a history
    split leaves of a new tree many times (`ex_split` below); the hypothesis `CondHist` only asks
    that no compaction sinks into a LIVE tree that would have to be split in place (`NoLiveSplit`). -/
theorem crash_prefix_cfg (cfg : Cfg) (hcfg : CfgOK cfg) (rounds : List Round) (hok : FreshHist [] rounds)
    (hc : CondHist cfg ({} : FS) rounds) :
    ∃ T m fs', Spec.Admissible [] (rounds.map Round.obs) T ∧
      recover cfg (afterRounds cfg ({} : FS) rounds) = .ok (m, fs') ∧
      Spec.Content.same (content m fs'.pv) (Spec.run T) :=
  crash_recover (cfg := cfg) hcfg.1 hcfg.2.2.1 hcfg.2.1 hcfg.2.2.2.2 rounds [] ({} : FS) []
    (Or.inr ⟨rfl, nascent_empty⟩) (by simp [allNodes]) (histOK_of_fresh hcfg.2.2.2.1 rounds _ _ hok hc)

/-- **C02 (commits that set indexed properties; everything except lookups through the index)**:
    `WriteTxn::commit` writes the index leaf and the index catalog page in place BEFORE CommitTx
    (`Model/IndexSteps`: `commitIxSteps`).  A history that ends with a death at ANY step `n` of
    such a commit, in any crash mode and with any selection `c.keepIx` of the unsynced index
    entries, leaves files (without the index) that are those of the same history with a plain
    commit: the next open succeeds and nodes, edges and properties are those of an admissible
    list.  What `lookup_index` returns is NOT covered — see `counterexample_index_before_commit`. -/
theorem crash_prefix_indexed (rounds : List Round) (ops : List HOp) (tx : Tx) (ixs ixd : List (Nat × Nat)) (n : Nat) (c : ICrash)
    (hok : ∀ n', FreshHist [] (rounds ++ [⟨ops, .inCommit tx n', c.mode⟩]))
    (hc : ∀ n', CondHist cfgOfSource (created cfgOfSource) (rounds ++ [⟨ops, .inCommit tx n', c.mode⟩])) :
    ∃ T m fs', Spec.Admissible [] (rounds.map Round.obs ++ [⟨commitsOf ops, some tx⟩]) T ∧
      recover cfgOfSource
        (indexedDeath cfgOfSource (afterRounds cfgOfSource (created cfgOfSource) rounds) ixd ops tx ixs n c).fs = .ok (m, fs') ∧
      Spec.Content.same (content m fs'.pv) (Spec.run T) := by
  obtain ⟨n', hn'⟩ := indexedDeath_fs cfgOfSource (afterRounds cfgOfSource (created cfgOfSource) rounds) ixd ops tx ixs n c
  obtain ⟨T, m, fs', hadm, hrec, hsame⟩ := crash_prefix _ (hok n') (hc n')
  rw [afterRounds_snoc, ← hn'] at hrec
  rw [List.map_append] at hadm
  exact ⟨T, m, fs', hadm, hrec, hsame⟩

/-- **C02 (creation, every step)**: `open` on a nascent database — never created, or cut short at
    any step of an earlier creation — succeeds; after EVERY prefix of its I/O steps, in EVERY crash
    mode, the page file is nascent again and the log is empty; the handle it returns satisfies the
    invariant for the empty transaction list. -/
theorem create_every_step {fs : FS} (hn : Nascent fs) :
    (∀ n mode, Nascent ((fs.steps ((ioSteps (openA cfgOfSource fs.pv fs.wf)).take n)).crash mode)) ∧
    ∃ m fs', recover cfgOfSource fs = .ok (m, fs') ∧ Spec.Content.same (content m fs'.pv) (Spec.run []) := by
  obtain ⟨hfail, sa, _, hinv, _⟩ := create_safe (cfg := cfgOfSource) source_ok.2.2.1 source_ok.2.1 fs hn.flat.pj hn.flat.quiet hn.log hn.page
  obtain ⟨o1, o2, o3⟩ := run_none (openA cfgOfSource fs.pv fs.wf) fs {}
  exact ⟨fun n mode => ⟨crash_flat _ mode, (sa n mode).2, (sa n mode).1⟩,
    _, _, by simp only [recover, o3, hfail, o1, o2], content_of_inv hinv⟩

/-! non-vacuity: a concrete four-incarnation history that meets the hypotheses: a power loss in
    the middle of the node-table phase of a two-node commit (unsynced meta write persisted); a
    completed compaction followed by a power loss inside a second compaction that sinks into the
    live tree (blob write persisted, leaf write lost); a third compaction and a power loss with a
    lost rename inside the close that rewrites the log; a last clean incarnation -/
def ex_tx1 : Tx := ⟨[1001], [1000], [10000]⟩
def ex_tx2 : Tx := ⟨[2001, 2002], [2000], [20000]⟩
def ex_tx3 : Tx := ⟨[3001], [], [30000]⟩
def ex_tx4 : Tx := ⟨[4001], [4000], [40000]⟩
def ex_rounds : List Round :=
  [⟨[.commit ex_tx1], .inCommit ex_tx2 29, .power [.keep, .drop] 0 false⟩,
   ⟨[.commit ex_tx3, .compact, .commit ex_tx4], .inCompact 32, .power [.keep, .drop] 0 false⟩,
   ⟨[.compact], .inClose 8, .power [] 0 true⟩,
   ⟨[], .idle, .proc⟩]

example : FreshHist [] ex_rounds := by decide
example : CondHist cfgOfSource (created cfgOfSource) ex_rounds := by decide
example : (match recover cfgOfSource (afterRounds cfgOfSource (created cfgOfSource) ex_rounds) with
    | .ok (m, fs) => some (content m fs.pv)
    | .error _ => none) =
    some ⟨[1001, 2001, 2002, 3001, 4001], [4000, 1000, 2000], [10000, 20000, 30000, 40000]⟩ := by decide

/-! non-vacuity for a re-sunk key: the second compaction dies (process death, step 20) after its
    first in-place leaf write — key 20000 is in the live leaf, the manifest is not written, the
    transaction is still replayed from the log; the next incarnation compacts again:
    `replace_property_entry` deletes the entry and inserts it again (two leaf writes), then loses
    power inside the close -/
def ex_resink : List Round :=
  [⟨[.commit ⟨[1001], [1000], [10000]⟩, .compact, .commit ⟨[2001], [], [20000, 20001]⟩], .inCompact 20, .proc⟩,
   ⟨[.compact], .inClose 1, .power [.keep] 0 false⟩, ⟨[], .idle, .proc⟩]

example : FreshHist [] ex_resink := by decide
example : CondHist cfgOfSource (created cfgOfSource) ex_resink := by decide
example : (match recover cfgOfSource (afterRounds cfgOfSource (created cfgOfSource) (ex_resink.take 1)) with
    | .ok (m, fs) => some (fs.pv.trees.map (fun t => t.leaves.map (·.entries)), m.runs.length)
    | .error _ => none) = some ([[[some 10000, some 20000]]], 1) := by decide
example : (match recover cfgOfSource (afterRounds cfgOfSource (created cfgOfSource) ex_resink) with
    | .ok (m, fs) => some (content m fs.pv)
    | .error _ => none) = some ⟨[1001, 2001], [1000], [10000, 20000, 20001]⟩ := by decide

/-! non-vacuity of the creation theorem: the process dies three times inside the creation of the
    database (power loss at steps 10, 25 and 3 of the respective `open`, some unsynced writes kept),
    the fourth incarnation completes it and commits -/
def ex_creation : List Round :=
  [⟨[], .inOpen 10, .power [.keep, .drop] 0 false⟩, ⟨[], .inOpen 25, .power [.drop, .keep, .keep] 0 false⟩,
   ⟨[], .inOpen 3, .power [.drop, .keep, .keep] 0 false⟩, ⟨[.commit ex_tx1], .idle, .proc⟩]

example : FreshHist [] ex_creation := by decide
example : CondHist cfgOfSource ({} : FS) ex_creation := by decide
example : (match recover cfgOfSource (afterRounds cfgOfSource ({} : FS) ex_creation) with
    | .ok (m, fs) => some (content m fs.pv)
    | .error _ => none) = some ⟨[1001], [1000], [10000]⟩ := by decide
example : (afterRounds cfgOfSource ({} : FS) (ex_creation.take 2)).pd.hdr.catRoot = 3 ∧
    (afterRounds cfgOfSource ({} : FS) (ex_creation.take 2)).pd.cat = some [4] := by decide

/-! counterexamples -/

/-- the configuration of the pinned tree (before the `fix:` commits of this property) -/
def cfgPinned : Cfg :=
  { cfgOfSource with syncSlot := false, syncCreate := false, freshZero := false, walRollback := false, tailTolerant := false }

/-- pinned tree (fixed by b1723cb): power loss while the second node of a commit is applied — the
    meta page with `i2e_len` persisted, the slot it counts did not — and the database can never be
    opened again (`non-dense internal id`). -/
theorem counterexample_pinned_slot_after_len :
    (match recover cfgPinned (afterRounds cfgPinned (created cfgPinned)
        [⟨[.commit ex_tx1], .inCommit ex_tx2 24, .power [.drop, .keep] 0 false⟩]) with
      | .ok _ => none
      | .error e => some e) = some Err.nonDense := by decide

/-- pinned tree (fixed by be5161a): process death between `set_len` and the first meta page write
    of database creation leaves a file that `open` rejects forever. -/
theorem counterexample_pinned_creation :
    (match recover cfgPinned ((run (openA cfgPinned ({} : FS).pv []) (.crashAt 1) {} {}).fs.crash .proc) with
      | .ok _ => none
      | .error e => some e) = some Err.io := by decide

/-- current tree, known finding C01-live-tree-in-place: compaction sinks properties into the live
    property tree in place; power loss with a torn write of the leaf page during the second
    compaction makes a property of an acknowledged, already compacted transaction unreadable.
    The history has fresh ids and splits no leaf; the condition of `crash_prefix` it violates is
    exactly the torn live leaf (`CondHist`). -/
def live_tree_rounds : List Round :=
  [⟨[.commit ⟨[1001], [1000], [10000]⟩, .compact, .commit ⟨[2001], [2000], [20000]⟩], .inCompact 32,
    .power [.drop, .torn] 0 false⟩]

theorem counterexample_live_tree :
    FreshHist [] live_tree_rounds ∧ ¬ CondHist cfgOfSource (created cfgOfSource) live_tree_rounds ∧
    CondHist cfgOfSource (created cfgOfSource)
      (live_tree_rounds.map (fun r => { r with mode := .power [.drop, .keep] 0 false })) ∧
    (match recover cfgOfSource (afterRounds cfgOfSource (created cfgOfSource) live_tree_rounds) with
      | .ok (m, fs) => some ((content m fs.pv).props.contains 10000)
      | .error _ => none) = some false := by decide

/-- current tree, known finding C02-index-before-commit (`Model/IndexSteps`: node 1 {k:1} is
    committed and indexed; the commit of node 2 {k:2} dies at I/O step n; its steps are 9 log
    fragments, the index leaf, the index catalog page, 3 fragments of CommitTx, the log sync, the
    node table).  Process death before the leaf write (n = 9): the index has nothing for key 2.
    Process death right after it (n = 10), or power loss before the log sync (n = 14) with the
    leaf page persisted: the next open shows only node 1001 (internal id 0), but
    `lookup_index(L,k,2)` returns internal id 1 — a node that does not exist (the real engine
    returns `[1]`, `idx 10` line of the stream).  With the leaf page lost the index is clean; after
    the log sync (n = 15) the node exists. -/
theorem counterexample_index_before_commit :
    ixProbe cfgOfSource 9 ⟨.proc, []⟩ = some ([1001], []) ∧
    ixProbe cfgOfSource 10 ⟨.proc, []⟩ = some ([1001], [1]) ∧
    ixProbe cfgOfSource 14 ⟨.power [] 0 false, [true]⟩ = some ([1001], [1]) ∧
    ixProbe cfgOfSource 14 ⟨.power [] 0 false, [false]⟩ = some ([1001], []) ∧
    ixProbe cfgOfSource 15 ⟨.proc, []⟩ = some ([1001, 2001], [1]) := by decide

/-! ### leaf splits during property sinking

Proved (`Proofs/CrashSplit`, `Proofs/CrashTreeM`): sinking into a NEW tree is safe at every step
with any number of leaf splits (the chain of leaves, the sibling flags and the internal root stay in
the shape `TreeShape`, on which `route` + `leafFind` find exactly the keys), and the state after a
completed split compaction (multi-leaf tree, `ptop = true`) satisfies the invariant, so commits,
crashes, recoveries, closes and compactions that APPEND to the last leaf of the live tree without
splitting it (`Proofs/CrashSplit.pblk_sinkLive`) are covered by `crash_prefix`.
`ex_split` is such a history (leaf capacity 4, so that `decide` can run it; the real capacity is
281 and the thorough tier of the stream runs the same scenarios on the real engine with 150–350
properties).

Not covered (`NoLiveSplit`): sinking into the LIVE tree when its last leaf has no room, or — under
an internal root — with keys that are not above all keys of the tree:
* a split of the LIVE leaf rewrites its left half IN PLACE and syncs it (with the next page
  allocation) long before the manifest: from that write on, until the system transaction is
  complete in the log, EVERY crash image — plain process death included — has lost the entries of
  the right half except its first (the old manifest enters at the old root leaf, the cursor only
  looks at slot 0 of the right sibling).  This is the known finding C01-live-tree-in-place; no
  selection of unsynced writes avoids it once the sync has happened (`counterexample_live_split`);
* with an internal root the split also rewrites the ROOT in place: a torn write of it makes the
  whole tree unreadable (`tornEff`; stream witness `corpus/crash/live-root-in-place.ops`, found by
  the thorough tier);
* the model always inserts into the last leaf (keys ascend with time); under an internal root the
  proofs therefore ask for keys above all keys of the tree (`LiveAscends`).  A live tree that is
  one leaf takes keys in any order, re-sunk keys included (`ex_resink`). -/

def cfgSplit : Cfg := { cfgOfSource with leafCap := 4 }
def split_tx0 : Tx := ⟨[1001], [], [10000, 10001, 10002, 10003, 10004, 10005]⟩
def split_tx1 : Tx := ⟨[1001], [], [10000, 10001, 10002, 10003]⟩
def split_tx2 : Tx := ⟨[2001], [], [20000]⟩

/-- non-vacuity of `crash_prefix_cfg` with leaf splits: power loss inside a compaction that has just
    split the leaf of a new tree (5 properties, capacity 4; step 58, before the manifest); the next
    incarnation repeats the compaction to the end, commits one more property and dies in the
    close; the third one works on the multi-leaf tree (`ptop = true`): its compaction APPENDS the
    property to the last leaf of the live tree (no split), then power is lost inside a commit;
    the fourth is clean -/
def split_tx5 : Tx := ⟨[1001], [], [10000, 10001, 10002, 10003, 10004]⟩
def ex_split : List Round :=
  [⟨[.commit split_tx5], .inCompact 58, .power [.keep, .drop, .keep] 0 false⟩,
   ⟨[.compact, .commit split_tx2], .inClose 3, .proc⟩,
   ⟨[.commit ⟨[3001], [3000], []⟩, .compact], .inCommit ⟨[4001], [], [40000]⟩ 5, .power [.keep] 1 false⟩,
   ⟨[], .idle, .proc⟩]

example : CfgOK cfgSplit := by decide
example : FreshHist [] ex_split := by decide
example : CondHist cfgSplit ({} : FS) ex_split := by decide
set_option maxRecDepth 8000 in
example : (match recover cfgSplit (afterRounds cfgSplit ({} : FS) ex_split) with
    | .ok (m, fs) => some (content m fs.pv, m.ptop)
    | .error _ => none) =
    some (⟨[1001, 2001, 3001], [3000], [10000, 10001, 10002, 10003, 10004, 20000]⟩, true) := by decide
set_option maxRecDepth 8000 in
example : (match recover cfgSplit (afterRounds cfgSplit ({} : FS) ex_split) with
    | .ok (m, fs) => (fs.pv.trees.find? (fun t => t.key == m.proot)).map (fun t => t.leaves.map (·.entries))
    | .error _ => none) =
    some [[some 10000, some 10001], [some 10002, some 10003, some 10004, some 20000]] := by decide

def splitProps (rounds : List Round) : Option (List Nat) :=
  match recover cfgSplit (afterRounds cfgSplit (created cfgSplit) rounds) with
  | .ok (m, fs) => some (content m fs.pv).props
  | .error _ => none

/-- new tree, 6 properties, capacity 4 (two splits, 80 I/O steps): all six are readable after a
    death at ANY step, by process death and by the power-loss selections tried here -/
theorem split_new_tree_every_step :
    (List.range 81).all (fun k =>
      (splitProps [⟨[.commit split_tx0], .inCompact k, .proc⟩]).map List.length == some 6 &&
      (splitProps [⟨[.commit split_tx0], .inCompact k, .power [.keep, .drop, .keep] 0 false⟩]).map List.length == some 6 &&
      (splitProps [⟨[.commit split_tx0], .inCompact k, .power [.drop, .keep] 0 false⟩]).map List.length == some 6) = true := by
  decide

/-- live leaf with 4 entries, one more property sunk by the second compaction (split at step 21):
    process death at step 20 loses nothing; process death at step 30 (after the in-place left half
    was synced, before the manifest) has lost the acknowledged, already compacted 10003; once the
    system transaction is in the log (step 44) everything is there again. -/
theorem counterexample_live_split :
    FreshHist [] [⟨[.commit split_tx1, .compact, .commit split_tx2], .inCompact 30, .proc⟩] ∧
    splitProps [⟨[.commit split_tx1, .compact, .commit split_tx2], .inCompact 20, .proc⟩] = some [20000, 10000, 10001, 10002, 10003] ∧
    splitProps [⟨[.commit split_tx1, .compact, .commit split_tx2], .inCompact 30, .proc⟩] = some [20000, 10000, 10001, 10002] ∧
    splitProps [⟨[.commit split_tx1, .compact, .commit split_tx2], .inCompact 44, .proc⟩] = some [10000, 10001, 10002, 10003, 20000] := by
  decide

end Nervus.Props.C02
