/-
  C01 — Acknowledged commits survive crashes.
  Statements only.  Same model, spec and preconditions as C02 (`Nervus.Props.C02`); C01 is the
  part of the crash theorem that speaks about the commits whose `commit()` returned success.
-/
import Nervus.Props.C02
namespace Nervus.Props.C01
open Nervus Nervus.Crash

/-- **C01, full strength** (not proved — kept visible): as `acked_survive` below but without the
    compaction conditions `CondHist`.  False today: `C02.counterexample_live_tree` (a torn in-place
    write of a live leaf loses a property of an acknowledged, already compacted transaction) and
    `C02.counterexample_live_split` (an in-place split of the live leaf: plain process death
    between the left-half rewrite and the manifest); not proved for compactions that sink keys into a
    live tree with an internal root which are not above all its keys. -/
def C01_full : Prop :=
  ∀ (rounds : List Round), FreshHist [] rounds →
    ∃ m fs', recover cfgOfSource (afterRounds cfgOfSource (created cfgOfSource) rounds) = .ok (m, fs') ∧
      ∀ r ∈ rounds, ∀ tx ∈ r.obs.acked,
        (∀ x ∈ tx.nodes, x ∈ (content m fs'.pv).nodes) ∧ (∀ e ∈ tx.edges, e ∈ (content m fs'.pv).edges) ∧
        (∀ q ∈ tx.props, q ∈ (content m fs'.pv).props)

/-- **C01 (`acked_survive`)**: for every list of incarnations as in `C02.crash_prefix` (open,
    commits and compactions; death at any I/O step of an open, a commit, a compaction or the
    close, or between operations; process death or power loss with any subset of unsynced
    operations; iterated; under the compaction conditions `CondHist`: no in-place split or torn write of a LIVE leaf), every commit that RETURNED
    in any incarnation is completely there — all its nodes, edges and properties — when the
    database is opened after the last crash. -/
theorem acked_survive (rounds : List Round) (hok : FreshHist [] rounds)
    (hc : CondHist cfgOfSource (created cfgOfSource) rounds) :
    ∃ m fs', recover cfgOfSource (afterRounds cfgOfSource (created cfgOfSource) rounds) = .ok (m, fs') ∧
      ∀ r ∈ rounds, ∀ tx ∈ r.obs.acked,
        (∀ x ∈ tx.nodes, x ∈ (content m fs'.pv).nodes) ∧ (∀ e ∈ tx.edges, e ∈ (content m fs'.pv).edges) ∧
        (∀ q ∈ tx.props, q ∈ (content m fs'.pv).props) := by
  obtain ⟨T, m, fs', hadm, hrec, hsame⟩ := C02.crash_prefix rounds hok hc
  refine ⟨m, fs', hrec, ?_⟩
  intro r hr tx htx
  have hin : tx ∈ T := admissible_acked hadm r.obs (List.mem_map.mpr ⟨r, hr, rfl⟩) tx htx
  rw [spec_run_eq] at hsame
  obtain ⟨hn, he, hp⟩ := hsame
  refine ⟨?_, ?_, ?_⟩
  · intro x hx; rw [hn]; exact mem_allNodes hin x hx
  · intro e hx; exact (he e).mpr (mem_allEdges hin e hx)
  · intro q hx; exact (hp q).mpr (mem_allProps hin q hx)

/-- **C01 (`acked_survive`, from files that do not exist yet)**: the same when the history starts
    with the creation of the database and the process may die at any step of the creation. -/
theorem acked_survive_creation (rounds : List Round) (hok : FreshHist [] rounds)
    (hc : CondHist cfgOfSource ({} : FS) rounds) :
    ∃ m fs', recover cfgOfSource (afterRounds cfgOfSource ({} : FS) rounds) = .ok (m, fs') ∧
      ∀ r ∈ rounds, ∀ tx ∈ r.obs.acked,
        (∀ x ∈ tx.nodes, x ∈ (content m fs'.pv).nodes) ∧ (∀ e ∈ tx.edges, e ∈ (content m fs'.pv).edges) ∧
        (∀ q ∈ tx.props, q ∈ (content m fs'.pv).props) := by
  obtain ⟨T, m, fs', hadm, hrec, hsame⟩ := C02.crash_prefix_creation rounds hok hc
  refine ⟨m, fs', hrec, ?_⟩
  intro r hr tx htx
  have hin : tx ∈ T := admissible_acked hadm r.obs (List.mem_map.mpr ⟨r, hr, rfl⟩) tx htx
  rw [spec_run_eq] at hsame
  obtain ⟨hn, he, hp⟩ := hsame
  refine ⟨?_, ?_, ?_⟩
  · intro x hx; rw [hn]; exact mem_allNodes hin x hx
  · intro e hx; exact (he e).mpr (mem_allEdges hin e hx)
  · intro q hx; exact (hp q).mpr (mem_allProps hin q hx)

/-- **C01 for every configuration that meets `CfgOK`** (every leaf capacity ≥ 1: compactions
    that split the leaves of a new tree are covered, non-vacuity `C02.ex_split`) -/
theorem acked_survive_cfg (cfg : Cfg) (hcfg : CfgOK cfg) (rounds : List Round) (hok : FreshHist [] rounds)
    (hc : CondHist cfg ({} : FS) rounds) :
    ∃ m fs', recover cfg (afterRounds cfg ({} : FS) rounds) = .ok (m, fs') ∧
      ∀ r ∈ rounds, ∀ tx ∈ r.obs.acked,
        (∀ x ∈ tx.nodes, x ∈ (content m fs'.pv).nodes) ∧ (∀ e ∈ tx.edges, e ∈ (content m fs'.pv).edges) ∧
        (∀ q ∈ tx.props, q ∈ (content m fs'.pv).props) := by
  obtain ⟨T, m, fs', hadm, hrec, hsame⟩ := C02.crash_prefix_cfg cfg hcfg rounds hok hc
  refine ⟨m, fs', hrec, ?_⟩
  intro r hr tx htx
  have hin : tx ∈ T := admissible_acked hadm r.obs (List.mem_map.mpr ⟨r, hr, rfl⟩) tx htx
  rw [spec_run_eq] at hsame
  obtain ⟨hn, he, hp⟩ := hsame
  refine ⟨?_, ?_, ?_⟩
  · intro x hx; rw [hn]; exact mem_allNodes hin x hx
  · intro e hx; exact (he e).mpr (mem_allEdges hin e hx)
  · intro q hx; exact (hp q).mpr (mem_allProps hin q hx)

/-- **C01 (a returned commit is durable at once)**: as soon as the log sync of a commit has been
    performed — in particular after `commit()` has returned — every crash image contains the
    transaction (restates the second half of `C02.commit_every_step`). -/
theorem commit_durable_after_sync {T : List Tx} {fs : FS} {m : Mem} {cs : List CTx} {c : Nat}
    (h : InvOpen T fs m cs c) (ht : TailPre cfgOfSource fs m) (tx : Tx) (hf : FreshTx T tx) (n : Nat) (mode : CrashMode)
    (hn : (cutSteps cfgOfSource (m.ws fs.wf)).length + 3 * (txRecs m.nextTxid m.idLen tx).length < n) :
    Rep (T ++ [tx]) ((fs.steps ((ioSteps (commitA cfgOfSource m fs.pv fs.wf tx)).take n)).crashP mode)
      ((fs.steps ((ioSteps (commitA cfgOfSource m fs.pv fs.wf tx)).take n)).crashW mode) :=
  (C02.commit_every_step h ht tx hf).2 n mode hn

/-! non-vacuity: the history of `C02.ex_rounds` acknowledges `ex_tx1`, `ex_tx3` and `ex_tx4` -/
example : (C02.ex_rounds.flatMap (fun r => r.obs.acked)) = [C02.ex_tx1, C02.ex_tx3, C02.ex_tx4] := by decide

/-- the tree before C17's repair (`tailTolerant := false`; fixed by 5f14685): process death in
    the middle of a record of the first commit leaves a torn log tail; the second incarnation
    commits `tx2` behind it and is acknowledged; after the next open the nodes of `tx2` are there
    (node table) but its edge and its property are gone (the log behind the torn frame is never
    read).  On the current tree the same history is covered by `acked_survive`. -/
theorem counterexample_torn_tail_append :
    (match recover { cfgOfSource with tailTolerant := false }
        (afterRounds { cfgOfSource with tailTolerant := false } (created cfgOfSource)
          [⟨[], .inCommit C02.ex_tx1 4, .proc⟩, ⟨[.commit C02.ex_tx2], .idle, .proc⟩]) with
      | .ok (m, fs) => some (content m fs.pv)
      | .error _ => none) = some ⟨[2001, 2002], [], []⟩ ∧
    (match recover cfgOfSource (afterRounds cfgOfSource (created cfgOfSource)
          [⟨[], .inCommit C02.ex_tx1 4, .proc⟩, ⟨[.commit C02.ex_tx2], .idle, .proc⟩]) with
      | .ok (m, fs) => some (content m fs.pv)
      | .error _ => none) = some ⟨[2001, 2002], [2000], [20000]⟩ := by decide

end Nervus.Props.C01
