/-
  C09 — Concurrent auto-commit writes lose no updates.
  Statements only (helper lemmas: Nervus.Proofs.SchedCapi).
  Model: Nervus.Model.SchedCapi (LTS of nervusdb-capi `execute_write_count`, the order of
  `db.snapshot()` / `db.begin_write()` is the regenerated `Generated.autoCommitLockFirst`).
  Spec: Nervus.Spec.Serial.
-/
import Nervus.Proofs.SchedCapi
import Nervus.Spec.Serial
namespace Nervus.Props.C09
open Nervus Nervus.SchedCapi

/-- **C09 at full strength**, for the call order found in the source: every reachable state of any
    number of threads running any statements under any interleaving is serializable. -/
def C09_full : Prop :=
  ∀ (σ : Type) (prog : Nat → List (Stmt σ)) (d0 : σ) (s : State σ),
    Reach Generated.autoCommitLockFirst (init prog d0) s → Serializable prog d0 s

/-- the source takes the writer lock BEFORE the snapshot (regenerated table entry) -/
theorem order_in_source : Generated.autoCommitOrder = [.beginWrite, .snapshot] ∧
    Generated.autoCommitLockFirst = true := by decide

/-- **Linearizability of the lock-then-snapshot order**: all traces, any number of threads,
    unbounded length (induction over `Reach`; invariant "no snapshot is older than the lock
    holder's"). -/
theorem linearizable_lock_first {σ : Type} (prog : Nat → List (Stmt σ)) (d0 : σ) (s : State σ)
    (h : Reach true (init prog d0) s) : Serializable prog d0 s :=
  ⟨(reach_invLock h).lin, (reach_invProg h).order⟩

/-- **C09** for the code as it is. -/
theorem C09 : C09_full := by
  intro σ prog d0 s h
  rw [order_in_source.2] at h
  exact linearizable_lock_first prog d0 s h

/-- When every thread has finished, the commit order contains each thread's whole program, in
    program order: the final state is the result of SOME sequential order of ALL statements. -/
theorem final_state_is_a_serial_run {σ : Type} (prog : Nat → List (Stmt σ)) (d0 : σ) (s : State σ)
    (h : Reach true (init prog d0) s) (hd : AllDone s) :
    s.db = runSeq (s.hist.map (·.2)) d0 ∧ ∀ i, doneOf s i = prog i := by
  obtain ⟨h1, h2⟩ := linearizable_lock_first prog d0 s h
  exact ⟨h1, fun i => by have := h2 i; rw [hd i] at this; simpa using this⟩

/-- While a thread owns the writer lock, no other thread commits: mutual exclusion of the
    lock-delimited section (all traces). -/
theorem one_lock_owner {σ : Type} (prog : Nat → List (Stmt σ)) (d0 : σ) (s : State σ)
    (h : Reach true (init prog d0) s) (i j : Nat)
    (hi : (s.threads i).pc.holds) (hj : (s.threads j).pc.holds) : i = j := by
  have a := (reach_invLock h).owner i hi
  have b := (reach_invLock h).owner j hj
  rw [a] at b; cases b; rfl

private theorem lostUpdate_isSome :
    (runTrace false (init (prog2 .inc .inc) 0) (raceSchedule false).1).isSome = true := by decide

/-- the final state of the lost-update schedule (snapshot-then-lock order) -/
def lostUpdateState : State Int :=
  (runTrace false (init (prog2 .inc .inc) 0) (raceSchedule false).1).get lostUpdate_isSome

/-- **Counterexample for the snapshot-then-lock order** (the order of the pinned tree before the
    `fix:` commit): two threads, each `SET n.v = n.v + 1`, forced schedule
    `snap 0; snap 1; lock 1; exec 1; commit 1; unlock 1; lock 0; exec 0; commit 0; unlock 0`.
    Both statements commit, yet the counter is 1 while both sequential orders give 2. -/
theorem C09_counterexample :
    ∃ s, Reach false (init (prog2 .inc .inc) 0) s ∧ AllDone s ∧ s.db = 1 ∧
      runSeq [CStmt.inc.toStmt, CStmt.inc.toStmt] 0 = 2 ∧
      ¬ Serializable (prog2 .inc .inc) 0 s := by
  refine ⟨lostUpdateState, reach_of_runTrace (raceSchedule false).1 .refl (Option.some_get lostUpdate_isSome).symm,
    ?_, by decide, by decide, ?_⟩
  · intro i
    match i with
    | 0 => rfl
    | 1 => rfl
    | _ + 2 => rfl
  · intro hser
    have := hser.1
    revert this
    decide

/-! non-vacuity -/
/-- the lock-first model really runs the same two increments to 2 under the corresponding schedule -/
example : race true 0 .inc .inc = some (2, true) := by decide
/-- and the snapshot-first model loses one -/
example : race false 0 .inc .inc = some (1, false) := by decide
private theorem mid_isSome :
    (runTrace true (init (prog2 .inc .dbl) 5) [.lock 0, .snap 0, .exec 0, .commit 0]).isSome = true := by decide
private def midState : State Int :=
  (runTrace true (init (prog2 .inc .dbl) 5) [.lock 0, .snap 0, .exec 0, .commit 0]).get mid_isSome
/-- a reachable non-trivial state of the lock-first system: thread 0 committed, thread 1 waiting -/
example : ∃ s, Reach true (init (prog2 .inc .dbl) 5) s ∧ s.db = 6 ∧ s.lock = some 0 :=
  ⟨midState, reach_of_runTrace [.lock 0, .snap 0, .exec 0, .commit 0] .refl (Option.some_get mid_isSome).symm,
   by decide, by decide⟩
/-- statements that read what they write are order-sensitive: `inc;dbl ≠ dbl;inc` -/
example : runSeq [CStmt.inc.toStmt, CStmt.dbl.toStmt] 5 = 12 ∧ runSeq [CStmt.dbl.toStmt, CStmt.inc.toStmt] 5 = 11 := by decide

end Nervus.Props.C09
