/-
  C09 — Concurrent auto-commit writes lose no updates.
  Statements only (helper lemmas: Nervus.Proofs.SchedCapi).
  Model: Nervus.Model.SchedCapi — LTS of nervusdb-capi `execute_write_count` + `WriteTxn::commit`.
  Regenerated from the source on every run (`Generated.CallOrder`): the order of `db.snapshot()` /
  `db.begin_write()`, and where `commit` releases the writer guard relative to its publication stores.
  Spec: Nervus.Spec.Serial.
-/
import Nervus.Proofs.SchedCapi
import Nervus.Spec.Serial
namespace Nervus.Props.C09
open Nervus Nervus.SchedCapi

/-- what the source says (regenerated) -/
def sourceCfg : Cfg :=
  { lockFirst := Generated.autoCommitLockFirst,
    earlyLabel := Generated.commitEarlyReleaseLabel,
    earlyPlain := Generated.commitEarlyReleasePlain }

/-- **C09 at full strength**, for the code as the extractor finds it: every reachable state of any
    number of threads running any statements under any interleaving is serializable. -/
def C09_full : Prop :=
  ∀ (σ : Type) (prog : Nat → List (Stmt σ)) (d0 : σ) (s : State σ),
    Reach sourceCfg (init prog d0) s → Serializable prog d0 s

/-- the source takes the writer lock BEFORE the snapshot (regenerated table entry) -/
theorem order_in_source : Generated.autoCommitOrder = [.beginWrite, .snapshot] ∧
    Generated.autoCommitLockFirst = true := by decide

/-- the source holds the writer guard until the transaction's effects are PUBLISHED to later
    snapshots: in `WriteTxn::commit` no release of `_guard` precedes the idmap / node-label / run
    stores (regenerated: the guard's release is the last event of `commitLockSeq`). -/
theorem guard_released_after_publication_in_source :
    Generated.commitEarlyReleaseLabel = false ∧ Generated.commitEarlyReleasePlain = false ∧
    Generated.commitLockSeq.getLast? = some "releaseGuard" ∧
    Generated.commitLockSeq.count "releaseGuard" = 1 := by decide

theorem source_is_safe : sourceCfg = safeCfg := by
  simp only [sourceCfg, safeCfg, order_in_source.2, guard_released_after_publication_in_source.1,
    guard_released_after_publication_in_source.2.1]

/-- **Linearizability** when the lock is taken before the snapshot AND held until the staged writes
    are published: all traces, any number of threads, unbounded length (induction over `Reach`;
    invariant "no snapshot is older than the lock holder's"). -/
theorem linearizable_lock_first {σ : Type} (prog : Nat → List (Stmt σ)) (d0 : σ) (s : State σ)
    (h : Reach safeCfg (init prog d0) s) : Serializable prog d0 s :=
  ⟨(reach_invLock h).lin, (reach_invProg h).order⟩

/-- **C09** for the code as it is. -/
theorem C09 : C09_full := by
  intro σ prog d0 s h
  rw [source_is_safe] at h
  exact linearizable_lock_first prog d0 s h

/-- When every thread has finished, the commit order contains each thread's whole program, in
    program order: the final state is the result of SOME sequential order of ALL statements. -/
theorem final_state_is_a_serial_run {σ : Type} (prog : Nat → List (Stmt σ)) (d0 : σ) (s : State σ)
    (h : Reach safeCfg (init prog d0) s) (hd : AllDone s) :
    s.db = runSeq (s.hist.map (·.2)) d0 ∧ ∀ i, doneOf s i = prog i := by
  obtain ⟨h1, h2⟩ := linearizable_lock_first prog d0 s h
  exact ⟨h1, fun i => by have := h2 i; rw [hd i] at this; simpa using this⟩

/-- While a thread owns the writer lock, no other thread does: mutual exclusion (all traces). -/
theorem one_lock_owner {σ : Type} (prog : Nat → List (Stmt σ)) (d0 : σ) (s : State σ)
    (h : Reach safeCfg (init prog d0) s) (i j : Nat)
    (hi : (s.threads i).pc.holds) (hj : (s.threads j).pc.holds) : i = j := by
  have a := (reach_invLock h).owner i hi
  have b := (reach_invLock h).owner j hj
  rw [a] at b; cases b; rfl

def d0 : Db := ⟨0, 0, 0, 0⟩

/-- final state of the lost-update schedule for the snapshot-then-lock order -/
def lostUpdateState : State Db := (forced ⟨false, false, false⟩ .between (init (prog2 .inc .inc) d0)).1

/-- **Counterexample 1 — snapshot before lock** (the pinned tree before fix `2408d9b`): two threads,
    each `SET c.v = c.v + 1`; thread 0 takes its snapshot, thread 1 runs its whole statement,
    thread 0 continues.  Both commit, the counter is 1, both sequential orders give 2. -/
theorem C09_counterexample :
    Reach ⟨false, false, false⟩ (init (prog2 .inc .inc) d0) lostUpdateState ∧ AllDone lostUpdateState ∧
      lostUpdateState.db.v = 1 ∧ (runSeq [CStmt.inc.toStmt, CStmt.inc.toStmt] d0).v = 2 ∧
      ¬ Serializable (prog2 .inc .inc) d0 lostUpdateState := by
  refine ⟨reach_forced _, ?_, by decide, by decide, ?_⟩
  · intro i
    match i with
    | 0 => rfl
    | 1 => rfl
    | _ + 2 => rfl
  · intro hser
    have := congrArg Db.v hser.1
    revert this
    decide

/-- final state when `commit` releases the writer guard before `publish_run` for label-mutating transactions -/
def earlyReleaseState : State Db :=
  (forced ⟨true, true, false⟩ .afterRelease (init (prog2 .incA .incA) d0)).1
def earlyReleaseMerge : State Db :=
  (forced ⟨true, true, false⟩ .afterRelease (init (prog2 (.merge 0) (.merge 0)) d0)).1

/-- **Counterexample 2 — writer guard released before publication** (lock-first order!): thread 0
    runs `SET c.v = c.v + 1 CREATE (:A)` up to the point in `commit` after `drop(self._guard)` and before
    `publish_run`; thread 1 takes the lock and its snapshot — which lacks thread 0's acknowledged write —
    and commits; thread 0 publishes.  Counter 1 after two successful increments (two audit nodes);
    with `MERGE (:S {k:0})` twice the key exists twice. -/
theorem C09_counterexample_early_release :
    Reach ⟨true, true, false⟩ (init (prog2 .incA .incA) d0) earlyReleaseState ∧ AllDone earlyReleaseState ∧
      earlyReleaseState.db = ⟨1, 2, 0, 0⟩ ∧ runSeq [CStmt.incA.toStmt, CStmt.incA.toStmt] d0 = ⟨2, 2, 0, 0⟩ ∧
      ¬ Serializable (prog2 .incA .incA) d0 earlyReleaseState ∧
      earlyReleaseMerge.db = ⟨0, 0, 2, 0⟩ ∧
      runSeq [(CStmt.merge 0).toStmt, (CStmt.merge 0).toStmt] d0 = ⟨0, 0, 1, 0⟩ := by
  refine ⟨reach_forced _, ?_, by decide, by decide, ?_, by decide, by decide⟩
  · intro i
    match i with
    | 0 => rfl
    | 1 => rfl
    | _ + 2 => rfl
  · intro hser
    have := congrArg Db.v hser.1
    revert this
    decide

/-! non-vacuity -/
/-- lock first and guard held to the end: the same schedules lose nothing, thread 1 is blocked meanwhile -/
example : race safeCfg .between d0 .inc .inc = (⟨2, 0, 0, 0⟩, true) ∧
    race safeCfg .inCommit d0 .incA .incA = (⟨2, 2, 0, 0⟩, true) ∧
    race safeCfg .afterRelease d0 (.merge 0) (.merge 0) = (⟨0, 0, 1, 0⟩, true) := by decide
/-- with the early release, statements WITHOUT label mutation still publish under the lock -/
example : race ⟨true, true, false⟩ .afterRelease d0 .inc .inc = (⟨2, 0, 0, 0⟩, true) := by decide
/-- statements that read what they write are order-sensitive: `inc;dbl ≠ dbl;inc` -/
example : (runSeq [CStmt.inc.toStmt, CStmt.dbl.toStmt] ⟨5, 0, 0, 0⟩).v = 12 ∧
    (runSeq [CStmt.dbl.toStmt, CStmt.inc.toStmt] ⟨5, 0, 0, 0⟩).v = 11 := by decide

end Nervus.Props.C09
