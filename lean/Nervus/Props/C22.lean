/-
  C22 — Runtime errors are never swallowed.
  Statements only (helper lemmas live in Nervus.Proofs.{Streams,Trans,PlanOps}).
  Model: Nervus.Model.PlanOps / Limits (operators as transducers, mirrors executor/plan_*.rs,
  runtime_limits.rs; quirk flags regenerated from the source).  Spec: Nervus.Spec.Streams.
  Every theorem holds for EVERY instantiation of rows / values / errors / expressions (`Sem`),
  every limit environment and every plan.
-/
import Nervus.Proofs.PlanOps
import Nervus.Proofs.WriteOps
import Nervus.Model.PlanInst
namespace Nervus.Props.C22
open Nervus Nervus.PlanOps Nervus.PlanInst

/-- the working tree's DISTINCT / UNION / SKIP / ORDER BY / EXISTS pass `Err` items on
    (flags regenerated from the source by tools/extract.py) -/
theorem quirks_repaired : Quirks.current.forwardsErr := by decide

section
variable {χ ρ ν ε κ α : Type} [DecidableEq κ]

/-! ### per operator: `err_preserved` — an `Err` item among the input items the operator pulls
    ⇒ an `Err` among the items it hands out (for every state, input stream and demand) -/

theorem err_preserved_guard (L : LimEnv ε) (site : Site) : ErrPreserved (guardT (ρ := ρ) L site) :=
  Trans.errPreserved _ (guardT_errFwd L site)

omit [DecidableEq κ] in
theorem err_preserved_filter (S : Sem χ ρ ν ε κ α) (Q : Quirks) (L : LimEnv ε) (env : ρ) (pred : χ) :
    ErrPreserved (filterT S Q L env pred) :=
  Trans.errPreserved _ (mapT_errFwd _)

omit [DecidableEq κ] in
theorem err_preserved_project (S : Sem χ ρ ν ε κ α) (L : LimEnv ε) (env : ρ) (projs : List (String × χ)) :
    ErrPreserved (projectT S L env projs) :=
  Trans.errPreserved _ (mapT_errFwd _)

theorem err_preserved_distinct (S : Sem χ ρ ν ε κ α) : ErrPreserved (distinctT (ρ := ρ) S false) :=
  Trans.errPreserved _ (distinctT_errFwd S)

theorem err_preserved_skip : ErrPreserved (skipT (ε := ε) (ρ := ρ) false) :=
  Trans.errPreserved _ skipT_errFwd

theorem err_preserved_limit : ErrPreserved (limitT (ε := ε) (ρ := ρ)) :=
  Trans.errPreserved _ limitT_errFwd

/-- Unwind, CartesianProduct, Apply, EXISTS filter, MatchOut-with-input: per-row expansions -/
theorem err_preserved_expansion (g : Nat → ρ → PlanOps.Stream ε ρ) : ErrPreserved (flatMapT g) :=
  Trans.errPreserved _ (flatMapT_errFwd g)

theorem err_preserved_orderBy (S : Sem χ ρ ν ε κ α) (Q : Quirks) (hq : Q.orderByKeepsErr = false)
    (L : LimEnv ε) (site : Site) (env : ρ) (keys : List (χ × Bool)) :
    ErrPreserved (orderByT S Q L site env keys) :=
  Trans.errPreserved _ (orderByT_errFwd S Q hq L site env keys)

theorem err_preserved_aggregate (S : Sem χ ρ ν ε κ α) (L : LimEnv ε) (site : Site) (env : ρ)
    (groupBy : List String) (aggs : List (α × String)) :
    ErrPreserved (aggregateT S L site env groupBy aggs) :=
  Trans.errPreserved _ (aggregateT_errFwd S L site env groupBy aggs)

/-- ORDER BY checks the sort keys of EVERY collected row: a key that fails on some row makes it
    answer exactly that error, for an input of ANY length ≥ 1 — a single row included — wherever the
    failing row stands (an empty input evaluates no key) -/
theorem err_preserved_orderBy_keys (S : Sem χ ρ ν ε κ α) (Q : Quirks) (hq : Q.orderByKeepsErr = false)
    (site : Site) (env : ρ) (keys : List (χ × Bool)) (pre : List ρ) (r : ρ) (post : List ρ) (e : ε)
    (hpre : ∀ x ∈ pre, ∃ ks, orderKeys S LimEnv.unlimited env keys x = .ok ks)
    (hr : orderKeys S LimEnv.unlimited env keys r = .error e) :
    (orderByT S Q LimEnv.unlimited site env keys).run ⟨[], 0, false⟩ ((pre ++ r :: post).map .ok) = [.error e] :=
  orderBy_key_error S Q hq site env keys pre r post e hpre hr

/-! ### parked failures (`Params::record_failure` / the guard's `take_failure`): a failure parked
    while a pulled row was processed is reported — by the item the operator hands out next or, if
    there is none, at the end of the stream -/

/-- Project / Unwind (operators that never say `done`): if the `d ≥ 1` items handed out are all
    `Ok`, nothing was pending and no pulled row parked a failure, WHEREVER the stream ends -/
theorem park_reported_stream {σ : Type} (t : Trans σ ε ρ) (hf : ErrFwd t) (hnd : ∀ st, t.done st = false)
    (parks : σ → Except ε ρ → Option ε) (fp : σ → Option ε) (s : PlanOps.Stream ε ρ) (st : σ)
    (pend : Option ε) (d : Nat) (hd : d ≠ 0)
    (h : allOk (((parkT t parks fp false).run (st, pend) s).take d) = true) :
    pend = none ∧ parkEvents t parks fp st s d = [] :=
  park_ok_of_never_done t hf hnd parks fp s st pend d hd h

/-- OrderBy / Aggregate (failures are parked by the work done once the input is exhausted) -/
theorem park_reported_block {σ : Type} (t : Trans σ ε ρ) (fp : σ → Option ε) (s : PlanOps.Stream ε ρ)
    (st : σ) (d : Nat)
    (h : allOk (((parkT t (fun _ _ => none) fp false).run (st, none) s).take d) = true) :
    parkEvents t (fun _ _ => none) fp st s d = [] :=
  park_ok_of_flush_only t fp s st d h

/-! ### the per-row runtime check is applied to every row independently -/

/-- execute_project runs `ensure_runtime_expression_compatible` inside the per-row closure, for
    every projection item, unconditionally (regenerated from the source; a hoisted, cached or
    first-row-only check turns the flag on, an unknown shape breaks the table) -/
theorem project_check_not_hoisted : Generated.projectHoistsCheck = false := by decide

omit [DecidableEq κ] in
/-- the model's Project is pointwise: the item for a row is `projectRow` of THAT row (check and
    evaluation, `Sem.eval`), whatever its position in the stream and whatever came before -/
theorem project_checks_every_row (S : Sem χ ρ ν ε κ α) (L : LimEnv ε) (env : ρ) (projs : List (String × χ))
    (rows : List ρ) :
    (projectT S L env projs).run () (rows.map .ok) = rows.map (fun r => projectRow S L env projs r) := by
  induction rows with
  | nil => rfl
  | cons r rs ih =>
    simp only [List.map_cons, Trans.run_cons]
    show [projectRow S L env projs r] ++ (projectT S L env projs).run () (rs.map .ok) = _
    rw [ih]; rfl

/-! ### query level, by induction over `Plan` -/

/-- for every plan, at every node and for every demand: if the items handed out are all `Ok`,
    every item handed over anywhere below was `Ok` (induction over the plan; nested executions of
    CartesianProduct / Apply / EXISTS included) -/
theorem err_preserved_plan (S : Sem χ ρ ν ε κ α) (Q : Quirks) (hq : Q.forwardsErr) (L : LimEnv ε)
    (p : Plan χ ρ ε α) (site : Site) (env : ρ) (d : Nat)
    (h : allOk ((runL S Q L site env p).take d) = true) :
    ∀ x ∈ trace false S Q L site env p d, Item.isOk x.item = true :=
  trace_ok S Q hq L p site env d h

/-- `Ok rows` at the driver ⇒ nothing handed over anywhere in the tree was an `Err` -/
theorem never_swallows (S : Sem χ ρ ν ε κ α) (Q : Quirks) (hq : Q.forwardsErr) (L : LimEnv ε)
    (params : ρ) (p : Plan χ ρ ε α) : NeverSwallows S Q L params p := by
  intro rows hrows
  have hall : allOk (runL S Q L .root params p) = true := (collect_ok_iff _).1 ⟨rows, hrows⟩
  exact trace_ok S Q hq L p .root params _ (allOk_take _ _ hall)

/-- the corollary in the words of the property: an `Err` item met anywhere in what the query
    consumes ⇒ the query-level result is `Err` -/
theorem err_reported (S : Sem χ ρ ν ε κ α) (Q : Quirks) (hq : Q.forwardsErr) (L : LimEnv ε)
    (params : ρ) (p : Plan χ ρ ε α) : ErrReported S Q L params p := by
  rintro ⟨h, hmem, hbad⟩
  cases hex : execute S Q L params p with
  | error e => exact ⟨e, rfl⟩
  | ok rows => rw [never_swallows S Q hq L params p rows hex h hmem] at hbad; cases hbad

/-! ### write statements (Model/WriteOps.lean: `execute_write_with_rows`, strict and staged) -/

/-- an error of an earlier stage of a write statement is the statement's error: a staged read
    clause, a write clause and FOREACH all fail with the error of the stage below them -/
theorem write_err_forwarded {ω τ : Type} (S : Sem χ ρ ν ε κ α) (Q : Quirks) (L : LimEnv ε) (W : WSem ω ρ ε τ)
    (site : Site) (env : ρ) (inp : WPlan χ ρ ε α ω) (t : τ) (e : ε)
    (h : execW S Q L W (.left site) env inp t = .error e) :
    (∀ op, execW S Q L W site env (.stage op inp) t = .error e) ∧
    (∀ w, execW S Q L W site env (.write w inp) t = .error e) ∧
    (∀ list var sub, execW S Q L W site env (.foreach list var sub inp) t = .error e) :=
  ⟨fun op => execW_stage_input_error S Q L W site env op inp t e h,
   fun w => execW_write_input_error S Q L W site env w inp t e h,
   fun list var sub => execW_foreach_input_error S Q L W site env list var sub inp t e h⟩

/-- a read clause inside a write statement that answers `Ok`: the stage below answered `Ok rows`,
    and while the clause ran over those rows nothing handed over anywhere in its operator tree was
    an `Err` (the read-side theorem applies to every stage) -/
theorem write_stage_never_swallows {ω τ : Type} (S : Sem χ ρ ν ε κ α) (Q : Quirks) (hq : Q.forwardsErr)
    (L : LimEnv ε) (W : WSem ω ρ ε τ) (site : Site) (env : ρ) (op : Plan χ ρ ε α → Plan χ ρ ε α)
    (inp : WPlan χ ρ ε α ω) (t t1 : τ) (n : Nat) (out : List ρ)
    (h : execW S Q L W site env (.stage op inp) t = .ok (n, out, t1)) :
    ∃ rows, execW S Q L W (.left site) env inp t = .ok (n, rows, t1) ∧
      ∀ x ∈ trace false S Q L (.inner site) env (op (.scan rows))
          (driverDemand (runL S Q L (.inner site) env (op (.scan rows)))), Item.isOk x.item = true := by
  obtain ⟨rows, hi, hc⟩ := execW_stage_ok_inv S Q L W site env op inp t t1 n out h
  refine ⟨rows, hi, ?_⟩
  have hall : allOk (runL S Q L (.inner site) env (op (.scan rows))) = true := (collect_ok_iff _).1 ⟨out, hc⟩
  exact trace_ok S Q hq L _ _ env _ (allOk_take _ _ hall)

omit [DecidableEq κ] in
/-- a write clause stops at the first row whose write fails, with that error -/
theorem write_row_error {ω τ : Type} (W : WSem ω ρ ε τ) (w : ω) (pre : List ρ) (r : ρ) (post : List ρ) (n m : Nat)
    (t t' : τ) (e : ε) (hpre : writeRows W w pre n t = .ok (m, t')) (hr : W.apply w r t' = .error e) :
    writeRows W w (pre ++ r :: post) n t = .error e :=
  writeRows_error W w pre r post n t m t' e hpre hr

end

/-- **C22 (full strength)**: on the working tree (quirk flags read from the source), for every
    instantiation of values and expressions, every limit setting and oracle, every parameter row
    and every plan: the query never answers `Ok` after an `Err` was handed over in what it consumed. -/
theorem C22_full {χ ρ ν ε κ α : Type} [DecidableEq κ] (S : Sem χ ρ ν ε κ α) (L : LimEnv ε)
    (params : ρ) (p : Plan χ ρ ε α) :
    NeverSwallows S Quirks.current L params p ∧ ErrReported S Quirks.current L params p :=
  ⟨never_swallows S _ quirks_repaired L params p, err_reported S _ quirks_repaired L params p⟩

/-! ### witnesses on the concrete instance (replayed on the engine: corpus/plan/c22-*.ops) -/

/-- `UNWIND ['true', 1, 'false'] AS v` — `toBoolean(1)` raises InvalidArgumentValue -/
def unwindMixed : Plan DE DRow DErr DAgg :=
  .unwind (.lit (.list [.str "true", .int 1, .str "false"])) "v" (.scan [[]])

def projB (inp : Plan DE DRow DErr DAgg) : Plan DE DRow DErr DAgg :=
  .project [("b", .toBoolean (.var "v"))] inp

/-- `… RETURN DISTINCT toBoolean(v) AS b` -/
def qDistinct : Plan DE DRow DErr DAgg := .distinct (projB unwindMixed)
/-- `… RETURN toBoolean(v) AS b UNION RETURN true AS b` -/
def qUnion : Plan DE DRow DErr DAgg :=
  .union false (projB unwindMixed) (.project [("b", .lit (dbool true))] (.scan [[]]))
/-- `… RETURN toBoolean(v) AS b SKIP 2` -/
def qSkip : Plan DE DRow DErr DAgg := .skip (.lit (dint 2)) (projB unwindMixed)
/-- `… RETURN toBoolean(v) AS b ORDER BY b LIMIT 1` -/
def qOrderLimit : Plan DE DRow DErr DAgg :=
  .limit (.lit (dint 1)) (.orderBy [(.var "b", true)] (projB unwindMixed))
/-- `UNWIND [1] AS v WITH v WHERE EXISTS { WITH v RETURN toBoolean(v) AS b } RETURN v` (shape) -/
def qExists : Plan DE DRow DErr DAgg :=
  .filterExists (.project [("b", .toBoolean (.var "v"))] .arg)
    (.unwind (.lit (.list [.int 1])) "v" (.scan [[]]))

def rowB (b : Bool) : DRow := [("b", dbool b)]

/-- non-vacuity: the plain query reports the error, on the pinned and on the repaired tree alike -/
example : execute dsem Quirks.pinned .unlimited [] (projB unwindMixed) = .error .runtime := by decide
example : execute dsem Quirks.repaired .unlimited [] (projB unwindMixed) = .error .runtime := by decide

/-- pinned tree: DISTINCT answers two rows although the second input row raised an error -/
theorem C22_counterexample_distinct :
    execute dsem Quirks.pinned .unlimited [] qDistinct = .ok [rowB true, rowB false] ∧
    ¬ NeverSwallows dsem Quirks.pinned .unlimited [] qDistinct := by
  have hex : execute dsem Quirks.pinned .unlimited [] qDistinct = .ok [rowB true, rowB false] := by decide
  refine ⟨hex, fun h => ?_⟩
  have := h _ hex ⟨false, .error .runtime, false⟩ (by decide)
  exact absurd this (by decide)

theorem C22_counterexample_union :
    execute dsem Quirks.pinned .unlimited [] qUnion = .ok [rowB true, rowB false] ∧
    ¬ NeverSwallows dsem Quirks.pinned .unlimited [] qUnion := by
  have hex : execute dsem Quirks.pinned .unlimited [] qUnion = .ok [rowB true, rowB false] := by decide
  refine ⟨hex, fun h => ?_⟩
  have := h _ hex ⟨false, .error .runtime, false⟩ (by decide)
  exact absurd this (by decide)

theorem C22_counterexample_skip :
    execute dsem Quirks.pinned .unlimited [] qSkip = .ok [rowB false] ∧
    ¬ NeverSwallows dsem Quirks.pinned .unlimited [] qSkip := by
  have hex : execute dsem Quirks.pinned .unlimited [] qSkip = .ok [rowB false] := by decide
  refine ⟨hex, fun h => ?_⟩
  have := h _ hex ⟨false, .error .runtime, false⟩ (by decide)
  exact absurd this (by decide)

theorem C22_counterexample_orderBy_limit :
    execute dsem Quirks.pinned .unlimited [] qOrderLimit = .ok [rowB true] ∧
    ¬ NeverSwallows dsem Quirks.pinned .unlimited [] qOrderLimit := by
  have hex : execute dsem Quirks.pinned .unlimited [] qOrderLimit = .ok [rowB true] := by decide
  refine ⟨hex, fun h => ?_⟩
  have := h _ hex ⟨false, .error .runtime, false⟩ (by decide)
  exact absurd this (by decide)

theorem C22_counterexample_exists :
    execute dsem Quirks.pinned .unlimited [] qExists = .ok [] ∧
    ¬ NeverSwallows dsem Quirks.pinned .unlimited [] qExists := by
  have hex : execute dsem Quirks.pinned .unlimited [] qExists = .ok [] := by decide
  refine ⟨hex, fun h => ?_⟩
  have := h _ hex ⟨true, .error .runtime, false⟩ (by decide)
  exact absurd this (by decide)

/-- the same five queries on the repaired operators: the error is reported -/
theorem C22_witnesses_repaired :
    execute dsem Quirks.repaired .unlimited [] qDistinct = .error .runtime ∧
    execute dsem Quirks.repaired .unlimited [] qUnion = .error .runtime ∧
    execute dsem Quirks.repaired .unlimited [] qSkip = .error .runtime ∧
    execute dsem Quirks.repaired .unlimited [] qOrderLimit = .error .runtime ∧
    execute dsem Quirks.repaired .unlimited [] qExists = .error .runtime := by
  refine ⟨?_, ?_, ?_, ?_, ?_⟩ <;> decide

/-- laziness is respected: `… RETURN toBoolean(v) AS b LIMIT 1` never pulls the failing row, and
    nothing handed over is an `Err` (so `Ok` is the right answer, on both trees) -/
example : execute dsem Quirks.repaired .unlimited [] (.limit (.lit (dint 1)) (projB unwindMixed)) = .ok [rowB true] := by
  decide

end Nervus.Props.C22
