/-
  C05 — Compaction and checkpoint are invisible.
  Statements only (helper lemmas: Nervus.Proofs.{CsrForward,CsrReverse,CsrIncoming,EngineCompact,
  EngineCompactProps}).  Model: Nervus.Model.{Csr,Engine} (`compact` = Db::compact = Db::checkpoint:
  build_segment_from_runs, CsrSegment::persist, property sinking, manifest + checkpoint, runs cleared).
-/
import Nervus.Proofs.EngineCompactMap
namespace Nervus.Props.C05
open Nervus Nervus.Storage
open Nervus.GraphSpec (TxOp Op)

/-- the two C05 fixes are present in the source (regenerated table entries) -/
theorem csr_guard_present : Cfg.current.csrGuard = true := by decide
theorem compact_own_tombstones_last : Cfg.current.compactOwnLast = true := by decide

/-- **C05 at full strength**: inserting a compaction anywhere in a history changes no later read.
    NOT provable on this tree: compaction clears the runs and with them every tombstone and every
    property removal (see the counterexamples). -/
def C05_full : Prop :=
  ∀ (h₁ h₂ : List Op) (s s' : Engine),
    Storage.run Cfg.current (h₁ ++ [.compact] ++ h₂) = .ok s → Storage.run Cfg.current (h₁ ++ h₂) = .ok s' →
    s.nodes = s'.nodes ∧ (∀ n rel, PermOpt (s.neighbors n rel) (s'.neighbors n rel)) ∧
    (∀ n rel, PermOpt (s.incoming Cfg.current n rel) (s'.incoming Cfg.current n rel)) ∧
    (∀ n k, s.nodeProp n k = s'.nodeProp n k) ∧ (∀ n k, (s.nodeProps n).lookup k = (s'.nodeProps n).lookup k) ∧
    (∀ e k, s.edgeProp e k = s'.edgeProp e k)

/-- the engine state a compaction may start from without losing anything: the runs hold no node or
    edge tombstone and no property removal (the store is empty while there is no root) -/
def compactSafe (s : Engine) : Bool :=
  s.runs.all (fun r => r.tombNodes.isEmpty && r.tombEdges.isEmpty && r.nDel.isEmpty && r.eDel.isEmpty) &&
  (s.propsRoot != 0 || s.store.isEmpty)

/-- **C05 (proved part, state level)**: from EVERY engine state that is `compactSafe` — any number of
    runs with any edges (parallel, self loops, none at all) and any properties, any older segments,
    any store — `compact` changes neither node enumeration, nor outgoing / incoming neighbours with
    any type filter (as multisets; a panicking older segment panics before and after), nor any
    single-key node / relationship property read, nor labels, external ids or external-id lookup. -/
theorem C05_partial (s : Engine) (hs : compactSafe s = true) :
    let s' := s.compact Cfg.current
    s'.nodes = s.nodes ∧ s'.nodesSnap = s.nodesSnap ∧
    (∀ n rel, PermOpt (s'.neighbors n rel) (s.neighbors n rel)) ∧
    (∀ n rel, PermOpt (s'.incoming Cfg.current n rel) (s.incoming Cfg.current n rel)) ∧
    (∀ n k, s'.nodeProp n k = s.nodeProp n k) ∧ (∀ e k, s'.edgeProp e k = s.edgeProp e k) ∧
    s'.nodeLabels = s.nodeLabels ∧ s'.resolveExternal = s.resolveExternal ∧
    s'.lookupInternal = s.lookupInternal ∧ s'.interner = s.interner := by
  simp only [compactSafe, Bool.and_eq_true, List.all_eq_true, List.isEmpty_iff, Bool.or_eq_true,
    bne_iff_ne, ne_eq] at hs
  obtain ⟨hruns, hroot⟩ := hs
  have hnt : NoTombs s.runs := fun r hr => ⟨(hruns r hr).1.1.1, (hruns r hr).1.1.2⟩
  have hnd : ∀ r ∈ s.runs, r.nDel = [] := fun r hr => (hruns r hr).1.2
  have hed : ∀ r ∈ s.runs, r.eDel = [] := fun r hr => (hruns r hr).2
  have hroot' : s.propsRoot = 0 → s.store = [] := by
    intro h0; rcases hroot with h | h
    · exact absurd h0 h
    · exact h
  have hid : (s.compact Cfg.current).idmap = s.idmap ∧ (s.compact Cfg.current).interner = s.interner := by
    unfold Engine.compact; split <;> exact ⟨rfl, rfl⟩
  refine ⟨(compact_nodes _ s hnt).1, (compact_nodes _ s hnt).2, compact_neighbors _ s hnt,
    compact_incoming _ s hnt (Or.inl csr_guard_present), compact_nodeProp _ s hnd hroot',
    compact_edgeProp _ s hed hroot', ?_, ?_, ?_, hid.2⟩
  · funext n; unfold Engine.nodeLabels; rw [hid.1]
  · funext n; unfold Engine.resolveExternal; rw [hid.1]
  · funext x; unfold Engine.lookupInternal; rw [hid.1]

/-- no node property key held by a run is already in the store (no key is sunk twice) -/
def freshNodeKeys (s : Engine) : Bool :=
  s.runs.all (fun r => r.nprops.all (fun p => (lastNode s.store p.1.1 p.1.2).isNone))

/-- **C05 (proved part, whole-map read)**: from every `compactSafe` state in which no node property
    key of the runs is already in the store, `node_properties` (the whole map) answers the same value
    for every key before and after `compact` — the complement of the finding
    `C05-whole-map-read-returns-oldest-sunk-value`.  (Relationship maps: same mechanism, not proved.) -/
theorem C05_partial_whole_map (s : Engine) (hs : compactSafe s = true) (hf : freshNodeKeys s = true) (n k : Nat) :
    ((s.compact Cfg.current).nodeProps n).lookup k = (s.nodeProps n).lookup k := by
  simp only [compactSafe, Bool.and_eq_true, List.all_eq_true, List.isEmpty_iff, Bool.or_eq_true,
    bne_iff_ne, ne_eq] at hs
  simp only [freshNodeKeys, List.all_eq_true, Option.isNone_iff_eq_none] at hf
  obtain ⟨hruns, hroot⟩ := hs
  exact compact_nodeProps _ s (fun r hr => (hruns r hr).1.2)
    (by intro h0; rcases hroot with h | h
        · exact absurd h0 h
        · exact h)
    hf n k

/-- **CSR construction lemma** (shared with C30): for EVERY edge list, the built and persisted
    segment answers `neighbors` / `incoming_neighbors` with exactly the edges of that source /
    destination and type, and never panics -/
theorem segment_neighbors (id : Nat) (es : List Edge) (src : Nat) (rel : Option Nat) :
    ∃ l, ((buildForward id es).persist).neighbors src rel = some l ∧
      l.Perm (es.filter (fun e => e.src == src && relOk rel e)) := by
  rw [persist_neighbors]; exact buildForward_neighbors id es src rel

theorem segment_incoming (id : Nat) (es : List Edge) (dst : Nat) (rel : Option Nat) :
    ∃ l, ((buildForward id es).persist).incomingG Cfg.current.csrGuard dst rel = some l ∧
      l.Perm (es.filter (fun e => e.dst == dst && relOk rel e)) :=
  built_incoming _ id es dst rel (Or.inl csr_guard_present)

/-! ### non-vacuity: a safe state with two runs (parallel edges, a self loop, overwritten property)
    and an older segment -/

def A : Nat := 321
def R : Nat := 338
def K : Nat := 363

def hSafe : List Op :=
  [ .tx [.node 10 (some A), .node 11 (some A), .edge 0 R 1, .nprop 0 K 1] true, .compact,
    .tx [.edge 0 R 1, .edge 0 R 1, .edge 1 R 1, .nprop 1 K 2] true,
    .tx [.nprop 1 K 3, .eprop 0 R 1 K 4] true ]

example : ∃ s, Storage.run Cfg.current hSafe = .ok s ∧ compactSafe s = true ∧ s.runs.length = 2 ∧
    s.segs.length = 1 := ⟨_, rfl, by decide, by decide, by decide⟩

/-! ### counterexamples on the CURRENT tree (known findings; witnesses in corpus/engine_compact/) -/

/-- compaction drops node tombstones: the deleted node is enumerated again -/
def hNodeTomb : List Op :=
  [ .tx [.node 10 (some A), .node 11 (some A)] true, .tx [.tombNode 1] true ]

theorem C05_counterexample_node_tombstone :
    (∃ s, Storage.run Cfg.current hNodeTomb = .ok s ∧ s.nodes = [0]) ∧
    (∃ s, Storage.run Cfg.current (hNodeTomb ++ [.compact]) = .ok s ∧ s.nodes = [0, 1]) ∧
    StorageTriggers.c05TriggerList Cfg.current (hNodeTomb ++ [.compact]) = ["C05-compact-drops-node-tombstone"] :=
  ⟨⟨_, rfl, by decide⟩, ⟨_, rfl, by decide⟩, by decide⟩

/-- compaction drops the tombstone of an edge that already sits in a segment: the edge is back -/
def hEdgeTomb : List Op :=
  [ .tx [.node 10 (some A), .node 11 (some A), .edge 0 R 1] true, .compact, .tx [.tombEdge 0 R 1] true ]

theorem C05_counterexample_edge_tombstone :
    (∃ s, Storage.run Cfg.current hEdgeTomb = .ok s ∧ s.neighbors 0 none = some []) ∧
    (∃ s, Storage.run Cfg.current (hEdgeTomb ++ [.compact]) = .ok s ∧ s.neighbors 0 none = some [⟨0, 1, 1⟩]) ∧
    StorageTriggers.c05TriggerList Cfg.current (hEdgeTomb ++ [.compact]) = ["C05-compact-drops-edge-tombstone"] :=
  ⟨⟨_, rfl, by decide⟩, ⟨_, rfl, by decide⟩, by decide⟩

/-- a property removal over a compacted value is lost at once: reads fall through to the store -/
def hPropRemoval (compacted : Bool) : List Op :=
  [ .tx [.node 10 (some A), .nprop 0 K 5] true ] ++ (if compacted then [.compact] else []) ++
  [ .tx [.npropDel 0 K] true ]

theorem C05_counterexample_property_removal :
    (∃ s, Storage.run Cfg.current (hPropRemoval false) = .ok s ∧ s.nodeProp 0 K = none) ∧
    (∃ s, Storage.run Cfg.current (hPropRemoval true) = .ok s ∧ s.nodeProp 0 K = some 5 ∧ s.nodeProps 0 = [(K, 5)]) ∧
    StorageTriggers.c05TriggerList Cfg.current (hPropRemoval true) = ["C05-compact-drops-property-removal"] :=
  ⟨⟨_, rfl, by decide⟩, ⟨_, rfl, by decide, by decide⟩, by decide⟩

/-- a value overwritten across two compactions: the single-key read returns the new value, the
    whole-map read the OLD one (the scan keeps the last = oldest duplicate of the key) -/
def hOverwrite : List Op :=
  [ .tx [.node 10 (some A), .nprop 0 K 1] true, .compact, .tx [.nprop 0 K 2] true, .compact ]

theorem C05_counterexample_whole_map_oldest :
    (∃ s, Storage.run Cfg.current hOverwrite = .ok s ∧ s.nodeProp 0 K = some 2 ∧ s.nodeProps 0 = [(K, 1)]) ∧
    StorageTriggers.c05TriggerList Cfg.current hOverwrite = ["C05-whole-map-read-returns-oldest-sunk-value"] :=
  ⟨⟨_, rfl, by decide, by decide⟩, by decide⟩

/-! ### the two defects of the pinned tree that are fixed (witnesses stay in the corpus) -/

/-- pinned tree: an edge-free compaction yields a segment without reverse offsets and
    `incoming_neighbors(0)` panics (csr.rs:67); fixed by f429866 -/
theorem C05_counterexample_edge_free_segment_panics :
    (∃ s, Storage.run Cfg.pinned [ .tx [.node 10 (some A), .nprop 0 K 1] true, .compact ] = .ok s ∧
      s.incoming Cfg.pinned 0 none = none) ∧
    (∃ s, Storage.run Cfg.current [ .tx [.node 10 (some A), .nprop 0 K 1] true, .compact ] = .ok s ∧
      s.incoming Cfg.current 0 none = some []) :=
  ⟨⟨_, rfl, by decide⟩, ⟨_, rfl, by decide⟩⟩

/-- pinned tree: a relationship deleted and re-created in one transaction is dropped by compaction
    (the run's own tombstone is applied to its own edges); fixed by 0624086 -/
def hRecreate : List Op :=
  [ .tx [.node 10 (some A), .node 11 (some A), .edge 0 R 1] true, .tx [.tombEdge 0 R 1, .edge 0 R 1] true, .compact ]

theorem C05_counterexample_recreated_edge_dropped :
    (∃ s, Storage.run Cfg.pinned hRecreate = .ok s ∧ s.neighbors 0 none = some []) ∧
    (∃ s, Storage.run Cfg.current hRecreate = .ok s ∧ s.neighbors 0 none = some [⟨0, 1, 1⟩]) :=
  ⟨⟨_, rfl, by decide⟩, ⟨_, rfl, by decide⟩⟩

end Nervus.Props.C05
