/-
  C05 — Compaction and checkpoint are invisible.
  Statements only (helper lemmas: Nervus.Proofs.{CsrForward,CsrReverse,CsrIncoming,EngineCompact,
  EngineCompactProps,EngineCompactMap,PublishRun,CompactHist}).  Model: Nervus.Model.{Csr,Engine} (`compact` = Db::compact = Db::checkpoint:
  build_segment_from_runs, CsrSegment::persist, property sinking, manifest + checkpoint, runs cleared).
-/
import Nervus.Proofs.CompactHist
namespace Nervus.Props.C05
open Nervus Nervus.Storage
open Nervus.GraphSpec (TxOp Op)

/-- the two C05 fixes are present in the source (regenerated table entries) -/
theorem csr_guard_present : Cfg.current.csrGuard = true := by decide
theorem compact_own_tombstones_last : Cfg.current.compactOwnLast = true := by decide
/-- the whole-map fix is present: `extend_*_properties_from_store` keep the newest store entry of a key -/
theorem whole_map_keeps_newest : Generated.extendKeepsNewest = true := by decide
/-- the property sinking of `GraphEngine::compact` (in `compact` or in the helper it calls) reads
    `tree.root()` only AFTER the insert loops (regenerated table entry; seed C05-seed1 makes it false) -/
theorem compact_reads_root_after_inserts : Cfg.current.rootAfterInserts = true := by decide
/-- the sinking loops replace the store entry of a key (one entry per key: `replace_property_entry`) -/
theorem compact_sink_replaces : Cfg.current.sinkReplaces = true := by decide

/-- the current source with ANY behaviour of the property B-tree's root: `mv n k` says whether the root
    page changes (root split) while a compaction inserts `k` entries into a tree of `n` entries -/
def cfgWithRootSplits (mv : Nat → Nat → Bool) : Cfg := { Cfg.current with rootMoves := mv }

/-- **C05 at full strength**: inserting a compaction anywhere in a history changes no later read.
    NOT provable on this tree: compaction clears the runs and with them every tombstone and every
    property removal (see the counterexamples; the fourth mechanism, whole-map reads returning the oldest
    sunk value, is fixed). -/
def C05_full : Prop :=
  ∀ (h₁ h₂ : List Op) (s s' : Engine),
    Storage.run Cfg.current (h₁ ++ [.compact] ++ h₂) = .ok s → Storage.run Cfg.current (h₁ ++ h₂) = .ok s' →
    s.nodes = s'.nodes ∧ (∀ n rel, PermOpt (s.neighbors n rel) (s'.neighbors n rel)) ∧
    (∀ n rel, PermOpt (s.incoming Cfg.current n rel) (s'.incoming Cfg.current n rel)) ∧
    (∀ n k, s.nodeProp n k = s'.nodeProp n k) ∧ (∀ n k, (s.nodeProps n).lookup k = (s'.nodeProps n).lookup k) ∧
    (∀ e k, s.edgeProp e k = s'.edgeProp e k)

/-! `compactSafe c s` (Proofs/EngineCompactE, decidable): the runs of `s` hold no node tombstone and no
    property removal; no relationship tombstoned by a run is held by an older segment (`segsClear`: the
    tombstones of relationships that live in the runs themselves are fine — build_segment_from_runs
    applies them exactly like the read path, fix 0624086).
    `RootOK s` / `rootOK s` (Proofs/StoreRoot): the page the engine takes for the root of the property tree
    (`propsRoot`: reads, manifest, checkpoint) IS the root of the tree (`storeRoot`), and there is no entry
    without a root.  Reads enter the tree at `propsRoot` (`Engine.visibleStore`). -/

/-- **the root of the property store** (class of seed C05-seed1).  For EVERY root-split behaviour of the
    B-tree (`mv` arbitrary: the root page may change on any insert) and every engine state whose root is
    right: after `compact` the root the engine keeps in memory, writes into the ManifestSwitch and
    Checkpoint records and reads through is the root of the tree that holds every old and every sunk
    entry; every later read sees that whole tree. -/
theorem compact_root_is_store_root (mv : Nat → Nat → Bool) (s : Engine) (hroot : RootOK s) :
    let s' := s.compact (cfgWithRootSplits mv)
    RootOK s' ∧ s'.visibleStore = s'.store ∧
    (s.runs.isEmpty = false → (∀ key, s'.store.lookup key = (sunkOf s ++ s.store).lookup key) ∧
      ∃ epoch segs upTo, s'.wal = s.wal ++ [.beginTx s.nextTxid, .manifestSwitch epoch segs s'.storeRoot,
        .checkpoint upTo epoch s'.storeRoot, .commitTx s.nextTxid]) := by
  have h' := hroot.compact (cfgWithRootSplits mv) compact_reads_root_after_inserts
  refine ⟨h', visibleStore_ok h', fun he => ⟨compact_store_lookup _ s he, ?_⟩⟩
  obtain ⟨st, root, sr, heq⟩ := compact_eq (cfgWithRootSplits mv) s he
  have hr : root = sr := by
    have := h'.eq
    rw [heq] at this
    exact this
  rw [heq]
  exact ⟨_, _, _, by rw [hr]; rfl⟩

/-- the root stays right along every history of transactions and compactions, whatever the root splits -/
theorem root_ok_along_history (mv : Nat → Nat → Bool) : ∀ (h : List Op) (s : Engine), RootOK s →
    compactHistSafe (cfgWithRootSplits mv) s h = true →
    ∃ s', h.foldlM (runOp (cfgWithRootSplits mv)) s = .ok s' ∧ RootOK s' := by
  intro h
  induction h with
  | nil => intro s hs _; exact ⟨s, rfl, hs⟩
  | cons op h ih =>
    intro s hs hsafe
    cases op with
    | tx ops b =>
      simp only [compactHistSafe, Bool.and_eq_true] at hsafe
      obtain ⟨s', h1, h2⟩ := ih _ (runTx_rootOK _ hs ops b) hsafe.2
      exact ⟨s', by rw [List.foldlM_cons]; exact h1, h2⟩
    | compact =>
      simp only [compactHistSafe, Bool.and_eq_true] at hsafe
      obtain ⟨s', h1, h2⟩ := ih _ (hs.compact (cfgWithRootSplits mv) compact_reads_root_after_inserts) hsafe.2
      exact ⟨s', by rw [List.foldlM_cons]; exact h1, h2⟩
    | close => simp [compactHistSafe] at hsafe
    | reopen => simp [compactHistSafe] at hsafe

/-- **C05 (proved part, state level)**: from EVERY engine state that is `compactSafe` — any number of
    runs with any edges (parallel, self loops, none at all), any properties, edge tombstones that hit
    only run-resident relationships, any older segments, any store — `compact` changes neither node
    enumeration, nor outgoing / incoming neighbours with any type filter (as multisets; a panicking older
    segment panics before and after), nor any single-key node / relationship property read, nor labels,
    external ids or external-id lookup. -/
theorem C05_partial (s : Engine) (hs : compactSafe Cfg.current s = true) (hr : rootOK s = true) :
    let s' := s.compact Cfg.current
    s'.nodes = s.nodes ∧ s'.nodesSnap = s.nodesSnap ∧
    (∀ n rel, PermOpt (s'.neighbors n rel) (s.neighbors n rel)) ∧
    (∀ n rel, PermOpt (s'.incoming Cfg.current n rel) (s.incoming Cfg.current n rel)) ∧
    (∀ n k, s'.nodeProp n k = s.nodeProp n k) ∧ (∀ e k, s'.edgeProp e k = s.edgeProp e k) ∧
    s'.nodeLabels = s.nodeLabels ∧ s'.resolveExternal = s.resolveExternal ∧
    s'.lookupInternal = s.lookupInternal ∧ s'.interner = s.interner := by
  obtain ⟨hnt, hnd, hed, hclear⟩ := compactSafe_unpack _ s hs
  have hroot' := (rootOK_iff s).mp hr
  have hid : (s.compact Cfg.current).idmap = s.idmap ∧ (s.compact Cfg.current).interner = s.interner := by
    unfold Engine.compact; split <;> exact ⟨rfl, rfl⟩
  refine ⟨(compact_nodes_E _ s hnt).1, (compact_nodes_E _ s hnt).2,
    compact_neighbors_E _ s hnt compact_own_tombstones_last (segsClear_out hclear),
    compact_incoming_E _ s hnt compact_own_tombstones_last csr_guard_present (segsClear_in hclear),
    compact_nodeProp _ compact_reads_root_after_inserts s hnd hroot',
    compact_edgeProp _ compact_reads_root_after_inserts s hed hroot', ?_, ?_, ?_, hid.2⟩
  · funext n; unfold Engine.nodeLabels; rw [hid.1]
  · funext n; unfold Engine.resolveExternal; rw [hid.1]
  · funext x; unfold Engine.lookupInternal; rw [hid.1]

/-- **whole-map reads = single-key reads, in EVERY engine state** (any runs, segments, store):
    `node_properties(n)` / `edge_properties(e)` hold for every key exactly what `node_property(n, k)` /
    `edge_property(e, k)` answer.  (Pinned tree: false for a key with two store entries — the finding
    `C05-whole-map-read-returns-oldest-sunk-value`, fixed.) -/
theorem whole_map_eq_single_key (s : Engine) :
    (∀ n k, (s.nodeProps n).lookup k = s.nodeProp n k) ∧ (∀ e k, (s.edgeProps e).lookup k = s.edgeProp e k) :=
  ⟨nodeProps_lookup s, edgeProps_lookup s⟩

/-- **C05 (proved part, whole-map reads)**: from every `compactSafe` state `node_properties` and
    `edge_properties` (the whole maps) answer the same value for every key before and after `compact`. -/
theorem C05_partial_whole_map (s : Engine) (hs : compactSafe Cfg.current s = true) (hr : rootOK s = true) :
    (∀ n k, ((s.compact Cfg.current).nodeProps n).lookup k = (s.nodeProps n).lookup k) ∧
    (∀ e k, ((s.compact Cfg.current).edgeProps e).lookup k = (s.edgeProps e).lookup k) := by
  obtain ⟨_, hnd, hed, _⟩ := compactSafe_unpack _ s hs
  have hroot := (rootOK_iff s).mp hr
  exact ⟨compact_nodeProps _ compact_reads_root_after_inserts s hnd hroot,
    compact_edgeProps _ compact_reads_root_after_inserts s hed hroot⟩

/-! ### history level: compactions at arbitrary positions

    `compactHistSafe c s h` (Proofs/CompactHist, decidable — it runs the model): `h` consists of
    transactions (committed or dropped) and compactions; every compaction starts from a state that is
    `compactSafe`; after every transaction no published property removal sits over a value in the store
    (`removalsClear`).  `dropCompactions h` = `h` without its `.compact` entries. -/

/-- every read interface answers alike: node enumeration (both kinds), tombstone test, neighbours in
    both directions with any type filter (as multisets; a panic on one side is a panic on the other),
    single-key node / relationship properties, `node_properties` / `edge_properties` key by key, labels
    (ids and names),
    external ids, external-id lookup, interned names, vector search -/
def SameReads (s u : Engine) : Prop :=
  s.nodes = u.nodes ∧ s.nodesSnap = u.nodesSnap ∧ s.isTombstoned = u.isTombstoned ∧
  (∀ n rel, PermOpt (s.neighbors n rel) (u.neighbors n rel)) ∧
  (∀ n rel, PermOpt (s.incoming Cfg.current n rel) (u.incoming Cfg.current n rel)) ∧
  (∀ n k, s.nodeProp n k = u.nodeProp n k) ∧ (∀ e k, s.edgeProp e k = u.edgeProp e k) ∧
  (∀ n k, (s.nodeProps n).lookup k = (u.nodeProps n).lookup k) ∧
  (∀ e k, (s.edgeProps e).lookup k = (u.edgeProps e).lookup k) ∧
  s.nodeLabels = u.nodeLabels ∧ s.nodeLabelNames = u.nodeLabelNames ∧ s.resolveExternal = u.resolveExternal ∧
  s.lookupInternal = u.lookupInternal ∧ s.interner = u.interner ∧ s.vecNodes = u.vecNodes

/-- **C05 (proved part, history level)**: for EVERY history of transactions and compactions that is
    `compactHistSafe` — any number of compactions at any positions — the engine answers every read
    exactly as the engine that ran the same history WITHOUT any of the compactions. -/
theorem C05_partial_hist (h : List Op) (hs : compactHistSafe Cfg.current {} h = true) :
    ∃ s u, Storage.run Cfg.current h = .ok s ∧ Storage.run Cfg.current (dropCompactions h) = .ok u ∧
      SameReads s u := by
  obtain ⟨s, u, h1, h2, hE, _⟩ := hist_eqv Cfg.current csr_guard_present compact_own_tombstones_last compact_reads_root_after_inserts h {} {}
    (Eqv.refl _ _) RootOK.empty' rfl hs
  exact ⟨s, u, h1, h2, hE.reads⟩

/-- `C05_partial_hist` for EVERY root-split behaviour of the property B-tree (the root page may change on
    any insert of any compaction), together with the fact that the engine's root is the tree's root at
    the end -/
theorem C05_partial_hist_any_root_split (mv : Nat → Nat → Bool) (h : List Op)
    (hs : compactHistSafe (cfgWithRootSplits mv) {} h = true) :
    ∃ s u, Storage.run (cfgWithRootSplits mv) h = .ok s ∧
      Storage.run (cfgWithRootSplits mv) (dropCompactions h) = .ok u ∧ SameReads s u ∧ RootOK s := by
  obtain ⟨s, u, h1, h2, hE, hR⟩ := hist_eqv (cfgWithRootSplits mv) csr_guard_present compact_own_tombstones_last
    compact_reads_root_after_inserts h {} {} (Eqv.refl _ _) RootOK.empty' rfl hs
  exact ⟨s, u, h1, h2, hE.reads, hR⟩

/-- **C05 in the shape of `C05_full`**: inserting one compaction anywhere in a history changes no later
    read, when both histories are `compactHistSafe` (either may hold further compactions). -/
theorem C05_partial_insert (h₁ h₂ : List Op)
    (hs : compactHistSafe Cfg.current {} (h₁ ++ [.compact] ++ h₂) = true)
    (hs' : compactHistSafe Cfg.current {} (h₁ ++ h₂) = true) :
    ∃ s s', Storage.run Cfg.current (h₁ ++ [.compact] ++ h₂) = .ok s ∧
      Storage.run Cfg.current (h₁ ++ h₂) = .ok s' ∧ SameReads s s' := by
  obtain ⟨s, u, h1, h2, hE, _⟩ := hist_eqv Cfg.current csr_guard_present compact_own_tombstones_last compact_reads_root_after_inserts _ {} {}
    (Eqv.refl _ _) RootOK.empty' rfl hs
  obtain ⟨s', u', h1', h2', hE', _⟩ := hist_eqv Cfg.current csr_guard_present compact_own_tombstones_last compact_reads_root_after_inserts _ {} {}
    (Eqv.refl _ _) RootOK.empty' rfl hs'
  rw [dropCompactions_insert] at h2
  have : u = u' := by rw [h2] at h2'; cases h2'; rfl
  subst this
  exact ⟨s, s', h1, h1', (hE.trans hE'.symm).reads⟩

/-- **CSR construction lemma** (shared with C30): for EVERY edge list, the built and persisted
    segment answers `neighbors` / `incoming_neighbors` with exactly the edges of that source /
    destination and type, and never panics -/
theorem segment_neighbors (id : Nat) (es : List Edge) (src : Nat) (rel : Option Nat) :
    ∃ l, ((buildForward id es).persist).neighbors src rel = some l ∧
      l.Perm (es.filter (fun e => e.src == src && relOk rel e)) := by
  rw [persist_neighbors]; exact buildForward_neighbors id es src rel

theorem segment_incoming (id : Nat) (es : List Edge) (dst : Nat) (rel : Option Nat) :
    ∃ l, ((buildForward id es).persist).incomingG Cfg.current.csrGuard dst rel = some l ∧
      l.Perm (es.filter (fun e => e.dst == dst && relOk rel e)) :=
  built_incoming _ id es dst rel (Or.inl csr_guard_present)

/-! ### non-vacuity: a safe state with two runs (parallel edges, a self loop, overwritten property)
    and an older segment -/

def A : Nat := 321
def R : Nat := 338
def K : Nat := 363

def hSafe : List Op :=
  [ .tx [.node 10 (some A), .node 11 (some A), .edge 0 R 1, .nprop 0 K 1] true, .compact,
    .tx [.edge 0 R 1, .edge 0 R 1, .edge 1 R 1, .nprop 1 K 2] true,
    .tx [.nprop 1 K 3, .eprop 0 R 1 K 4] true ]

example : ∃ s, Storage.run Cfg.current hSafe = .ok s ∧ compactSafe Cfg.current s = true ∧ rootOK s = true ∧ s.runs.length = 2 ∧
    s.segs.length = 1 := ⟨_, rfl, by decide, by decide, by decide, by decide⟩

/-- non-vacuity of the history-level statements: two compactions, transactions between and after -/
def hSafe2 : List Op := hSafe ++ [ .compact, .tx [.node 12 none, .edge 2 R 0, .nprop 2 K 7] true,
  .tx [.tombEdge 2 R 0, .edge 2 R 0, .edge 2 R 1] true, .tx [.tombEdge 2 R 1] true, .compact,
  .tx [.edge 0 R 2] true ]

example : compactHistSafe Cfg.current {} hSafe2 = true := by decide
example : compactHistSafe Cfg.current {} (dropCompactions hSafe2) = true := by decide
example : (dropCompactions hSafe2).length + 3 = hSafe2.length := by decide

/-! ### counterexamples on the CURRENT tree (known findings; witnesses in corpus/engine_compact/) -/

/-- compaction drops node tombstones: the deleted node is enumerated again -/
def hNodeTomb : List Op :=
  [ .tx [.node 10 (some A), .node 11 (some A)] true, .tx [.tombNode 1] true ]

theorem C05_counterexample_node_tombstone :
    (∃ s, Storage.run Cfg.current hNodeTomb = .ok s ∧ s.nodes = [0]) ∧
    (∃ s, Storage.run Cfg.current (hNodeTomb ++ [.compact]) = .ok s ∧ s.nodes = [0, 1]) ∧
    StorageTriggers.c05TriggerList Cfg.current (hNodeTomb ++ [.compact]) = ["C05-compact-drops-node-tombstone"] :=
  ⟨⟨_, rfl, by decide⟩, ⟨_, rfl, by decide⟩, by decide⟩

/-- compaction drops the tombstone of an edge that already sits in a segment: the edge is back -/
def hEdgeTomb : List Op :=
  [ .tx [.node 10 (some A), .node 11 (some A), .edge 0 R 1] true, .compact, .tx [.tombEdge 0 R 1] true ]

theorem C05_counterexample_edge_tombstone :
    (∃ s, Storage.run Cfg.current hEdgeTomb = .ok s ∧ s.neighbors 0 none = some []) ∧
    (∃ s, Storage.run Cfg.current (hEdgeTomb ++ [.compact]) = .ok s ∧ s.neighbors 0 none = some [⟨0, 1, 1⟩]) ∧
    StorageTriggers.c05TriggerList Cfg.current (hEdgeTomb ++ [.compact]) = ["C05-compact-drops-edge-tombstone"] :=
  ⟨⟨_, rfl, by decide⟩, ⟨_, rfl, by decide⟩, by decide⟩

/-- a property removal over a compacted value is lost at once: reads fall through to the store -/
def hPropRemoval (compacted : Bool) : List Op :=
  [ .tx [.node 10 (some A), .nprop 0 K 5] true ] ++ (if compacted then [.compact] else []) ++
  [ .tx [.npropDel 0 K] true ]

theorem C05_counterexample_property_removal :
    (∃ s, Storage.run Cfg.current (hPropRemoval false) = .ok s ∧ s.nodeProp 0 K = none) ∧
    (∃ s, Storage.run Cfg.current (hPropRemoval true) = .ok s ∧ s.nodeProp 0 K = some 5 ∧ s.nodeProps 0 = [(K, 5)]) ∧
    StorageTriggers.c05TriggerList Cfg.current (hPropRemoval true) = ["C05-compact-drops-property-removal"] :=
  ⟨⟨_, rfl, by decide⟩, ⟨_, rfl, by decide, by decide⟩, by decide⟩

/-! ### the three defects of the pinned tree that are fixed (witnesses stay in the corpus) -/

/-- a value overwritten across two compactions.  Pinned tree: the store holds BOTH entries of the key and
    the insertion loop of the whole-map read (`props.insert`, `extendWith false`) returned the OLD one
    (the scan kept the last = oldest duplicate).  Current tree: the whole-map scan keeps the first entry
    (c7ee0a6) and the sinking replaces the entry of the key, so the store holds ONE entry. -/
def hOverwrite : List Op :=
  [ .tx [.node 10 (some A), .nprop 0 K 1] true, .compact, .tx [.nprop 0 K 2] true, .compact ]

theorem C05_counterexample_whole_map_oldest :
    (∃ s, Storage.run Cfg.pinned hOverwrite = .ok s ∧ s.store.length = 2 ∧
      Store.extendWith false (s.store.fetchNode 0 []) [] = [(K, 1)]) ∧
    (∃ s, Storage.run Cfg.current hOverwrite = .ok s ∧ s.nodeProp 0 K = some 2 ∧ s.store.length = 1 ∧
      s.nodeProps 0 = [(K, 2)]) ∧
    StorageTriggers.c05TriggerList Cfg.current hOverwrite = [] :=
  ⟨⟨_, rfl, by decide, by decide⟩, ⟨_, rfl, by decide, by decide, by decide⟩, by decide⟩

/-- pinned tree: an edge-free compaction yields a segment without reverse offsets and
    `incoming_neighbors(0)` panics (csr.rs:67); fixed by f429866 -/
theorem C05_counterexample_edge_free_segment_panics :
    (∃ s, Storage.run Cfg.pinned [ .tx [.node 10 (some A), .nprop 0 K 1] true, .compact ] = .ok s ∧
      s.incoming Cfg.pinned 0 none = none) ∧
    (∃ s, Storage.run Cfg.current [ .tx [.node 10 (some A), .nprop 0 K 1] true, .compact ] = .ok s ∧
      s.incoming Cfg.current 0 none = some []) :=
  ⟨⟨_, rfl, by decide⟩, ⟨_, rfl, by decide⟩⟩

/-- pinned tree: a relationship deleted and re-created in one transaction is dropped by compaction
    (the run's own tombstone is applied to its own edges); fixed by 0624086 -/
def hRecreate : List Op :=
  [ .tx [.node 10 (some A), .node 11 (some A), .edge 0 R 1] true, .tx [.tombEdge 0 R 1, .edge 0 R 1] true, .compact ]

theorem C05_counterexample_recreated_edge_dropped :
    (∃ s, Storage.run Cfg.pinned hRecreate = .ok s ∧ s.neighbors 0 none = some []) ∧
    (∃ s, Storage.run Cfg.current hRecreate = .ok s ∧ s.neighbors 0 none = some [⟨0, 1, 1⟩]) :=
  ⟨⟨_, rfl, by decide⟩, ⟨_, rfl, by decide⟩⟩

end Nervus.Props.C05
