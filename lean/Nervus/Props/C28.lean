/-
  C28 — Vacuum preserves the database.
  Statements only (helper lemmas live in Nervus.Proofs.Vacuum).
  Model: Nervus.Model.Vacuum (typed page graph; `succV`/`mark` mirror vacuum.rs, `succR` = what open and
  the read paths dereference; the CSR meta layout vacuum reads is regenerated in Generated/Layout).

  Verdict on the pinned tree: FALSE — vacuum checked the magic `NDBCSRv1` and read two page lists at
  offset 48; segments are written as `NDBCSRv2` with four lists at offset 80, so vacuum failed with
  `invalid csr meta magic` on every compacted database.  Fixed by repo commit 6e96268 (vacuum decodes
  the page lists with csr.rs's own `meta_page_ids`); `layout_agrees` re-checks the agreement on every run.
-/
import Nervus.Proofs.VacuumSucc
import Nervus.Model.VacuumReal
namespace Nervus.Props.C28
open Nervus Nervus.Vacuum

/-- a well-formed closed database: every page is read in one role only (`Typed`), page ids occur once
    in the file, every reachable page passes the check vacuum applies to its role (it is allocated, a
    B-tree page where a B-tree page is expected, no zero child), every blob page is referenced once
    (`Markable`), and a segment meta page holds the page lists csr.rs writes -/
def WellFormed (L : Layout) (d : Db) (τ : Nat → Role) : Prop :=
  Markable L d τ ∧ ∀ p lists, d.pages.get p = some (.csrMeta lists) → lists.length ≤ Generated.csrMetaLists

/-- fuel that always suffices: one unit per root and per page reference in the file -/
def enoughFuel (L : Layout) (d : Db) (τ : Nat → Role) : Nat :=
  (roots L d).length + (futureOf (succV L d) (univ d τ) []).length

/-- what a reader of `d'` sees is what a reader of `d` sees: the same roots, the same reachable
    (page, role) nodes, the same content in each of them -/
def SameView (L : Layout) (d d' : Db) : Prop :=
  roots L d' = roots L d ∧
  (∀ n, Reach (succR d') (roots L d') n ↔ Reach (succR d) (roots L d) n) ∧
  (∀ n, Reach (succR d) (roots L d) n → d'.pages.get n.1 = d.pages.get n.1)

/-- **C28 at full strength** (on the typed page-graph model): vacuum succeeds on every well-formed
    closed database — with any fuel ≥ roots + page references — and leaves what a reader sees unchanged -/
def C28_full : Prop :=
  ∀ (d : Db) (τ : Nat → Role), WellFormed Layout.real d τ → ∀ fuel, enoughFuel Layout.real d τ ≤ fuel →
    ∃ d', vacuum Layout.real d fuel = .ok d' ∧ SameView Layout.real d d'

/-- vacuum reads the CSR meta page exactly as csr.rs writes it: same magic, same offsets, all the
    page lists (regenerated from vacuum.rs / csr.rs on every run; fails to build if they drift apart) -/
theorem layout_agrees :
    Layout.real.magicOk = true ∧ Generated.csrMetaLists ≤ Layout.real.csrLists ∧
    Generated.vacuumCsrCountsOff = Generated.csrMetaCountsOff ∧
    Generated.vacuumCsrListsOff = Generated.csrMetaListsOff := by decide

/-- vacuum follows the payloads of exactly the reserved B-trees whose payloads are blob ids, and marks
    the node table, the catalog, the property store, the statistics and the segments -/
theorem roots_agree :
    Generated.vacuumBlobTrees = Generated.engineBlobTrees ∧ Generated.vacuumMarksProps = true ∧
    Generated.vacuumMarksStats = true ∧ Generated.vacuumMarksI2e = true ∧
    Generated.vacuumMarksCatalog = true ∧ Generated.vacuumMarksSegments = true := by decide

/-- the comparison operators of the two WAL scans, regenerated from vacuum.rs and engine.rs, are the same
    (`>=` for a ManifestSwitch, `==` for a Checkpoint, initial epoch 0) -/
theorem scan_ops_agree : ScanOps.vacuumReal = ScanOps.engineReal := by decide

/-- **wal_roots_agree**: for EVERY log (any list of committed transactions, any epochs, any order)
    vacuum's `scan_wal_roots` selects the segment list, property root and statistics root that the
    engine's `scan_recovery_state` selects when the database is opened -/
theorem wal_roots_agree (log : List Tx) :
    (vacuumScan ScanOps.vacuumReal log).roots = (engineScan ScanOps.engineReal log).roots := by
  rw [scan_ops_agree]; exact scan_agree _ log

/-- **inclusion obligation**: on every database whose meta pages hold at most the lists csr.rs writes,
    every (page, role) a reader can reach is reached by vacuum's traversal -/
theorem C28_inclusion (d : Db)
    (h : ∀ p lists, d.pages.get p = some (.csrMeta lists) → lists.length ≤ Generated.csrMetaLists) :
    ∀ n, Reach (succR d) (roots Layout.real d) n → Reach (succV Layout.real d) (roots Layout.real d) n :=
  reader_sub_vacuum Layout.real d _ (fun p lists hp => Nat.le_trans (h p lists hp) layout_agrees.2.1)

/-- **vacuum_preserves**: keeping any page set that contains the reader-reachable pages leaves the
    reader's view unchanged -/
theorem vacuum_preserves (L : Layout) (d : Db) (keep : List Nat)
    (h : ∀ n, Reach (succR d) (roots L d) n → n.1 ∈ keep) : SameView L d (keepPages d keep) :=
  ⟨roots_keep L d keep, (keep_preserves L d keep h).1, (keep_preserves L d keep h).2⟩

/-- **C28 (partial)**: for EVERY well-formed closed database, whenever vacuum's mark phase returns Ok
    (any fuel), the vacuumed database shows a reader exactly what the original showed -/
theorem C28_partial (d : Db) (τ : Nat → Role) (wf : WellFormed Layout.real d τ) (fuel : Nat) (d' : Db)
    (h : vacuum Layout.real d fuel = .ok d') : SameView Layout.real d d' := by
  unfold vacuum at h
  cases hm : mark Layout.real d fuel with
  | error e => simp [hm] at h
  | ok keep =>
    simp only [hm, Except.ok.injEq] at h
    subst h
    apply vacuum_preserves
    intro n hn
    exact mark_complete Layout.real d τ wf.1.typed fuel keep hm n (C28_inclusion d wf.2 n hn)

/-- **C28 (success)**: on a well-formed database the mark phase returns a page set, whatever the shape
    and size of the file, as soon as the fuel covers the roots and the page references -/
theorem C28_mark_succeeds (d : Db) (τ : Nat → Role) (wf : WellFormed Layout.real d τ) (fuel : Nat)
    (hf : enoughFuel Layout.real d τ ≤ fuel) : ∃ keep, mark Layout.real d fuel = .ok keep :=
  mark_succeeds Layout.real d τ wf.1 fuel hf

/-- **C28**: the full statement holds of the model -/
theorem C28 : C28_full := by
  intro d τ wf fuel hf
  obtain ⟨keep, hk⟩ := C28_mark_succeeds d τ wf fuel hf
  refine ⟨keepPages d keep, by simp [vacuum, hk], ?_⟩
  exact C28_partial d τ wf fuel _ (by simp [vacuum, hk])

/-- **C28 (partial, with the WAL)**: the page file `d` is vacuumed with the roots VACUUM finds in the
    log and read with the roots the ENGINE finds in the log; for every log and every well-formed file,
    when the mark phase returns Ok the reader's view is unchanged -/
theorem C28_partial_log (d : Db) (log : List Tx) (τ : Nat → Role)
    (wf : WellFormed Layout.real (d.withRoots (engineScan ScanOps.engineReal log).roots) τ) (fuel : Nat) (d' : Db)
    (h : vacuum Layout.real (d.withRoots (vacuumScan ScanOps.vacuumReal log).roots) fuel = .ok d') :
    SameView Layout.real (d.withRoots (engineScan ScanOps.engineReal log).roots) d' := by
  rw [wal_roots_agree log] at h
  exact C28_partial _ τ wf fuel d' h

/-! ### non-vacuity: a database with every kind of structure -/

/-- node table (3 records on page 4), catalog → HNSW vector tree (leaf 3 → blob 7 → blob 14),
    user index tree (internal 15 → leaves 16, 17), property store (leaf 11 → blob 12), statistics
    blob 13, one segment (meta 5 → offsets 6, edges 8, in_offsets 9, in_edges 10), orphan page 20 -/
def exampleDb : Db :=
  { pages := [(2, .catalog [(3, true), (15, false)]), (3, .leaf [7] 0), (7, .blob 14), (14, .blob 0),
              (15, .internal [16, 17] 0), (16, .leaf [1, 2] 17), (17, .leaf [3] 0),
              (4, .raw), (5, .csrMeta [[6], [8], [9], [10]]), (6, .raw), (8, .raw), (9, .raw), (10, .raw),
              (11, .leaf [12] 0), (12, .blob 0), (13, .blob 0), (20, .blob 0)],
    i2eStart := 4, i2eLen := 3, catalogRoot := 2, propsRoot := 11, statsRoot := 13, segments := [5] }

def exampleTyping (p : Nat) : Role :=
  if p = 2 then .catalog else if p = 3 then .tree true else if p = 7 ∨ p = 14 ∨ p = 12 ∨ p = 13 then .blob
  else if p = 15 ∨ p = 16 ∨ p = 17 then .tree false else if p = 11 then .tree true
  else if p = 5 then .csrMeta else if p = 6 ∨ p = 8 ∨ p = 9 ∨ p = 10 then .csrData else .i2e

/-- the example is well formed -/
example : WellFormed Layout.real exampleDb exampleTyping :=
  ⟨markable_of_refs _ _ _ (typed_of_pages _ _ _ (by decide +kernel) (by decide +kernel)) (by decide +kernel)
    (by decide +kernel) (by decide +kernel), lists_of_pages _ _ (by decide +kernel)⟩
example : enoughFuel Layout.real exampleDb exampleTyping = 17 := by decide +kernel

/-- vacuum succeeds on it, keeps the 16 live pages (plus pages 0 and 1) and drops the orphan -/
example : (okOf (mark Layout.real exampleDb 100)).map (fun l => (l.length, l.contains 20)) = some (18, false) := by
  decide +kernel

/-! ### counterexamples -/

/-- the pinned vacuum (NDBCSRv1 magic) fails on any database with a segment -/
theorem C28_counterexample_pinned : errOf (mark Layout.pinned exampleDb 100) = some .magic := by decide +kernel

/-- a vacuum that accepted the magic but read only the two forward page lists would drop the
    reverse-index pages a reader needs (incoming relationships) -/
theorem C28_counterexample_forgot_reverse_lists :
    (okOf (mark { Layout.real with csrLists := 2 } exampleDb 100)).map (fun l => (l.contains 9, l.contains 10)) =
      some (false, false) ∧
    (reachR Layout.real exampleDb 100).contains (10, Role.csrData) = true := by decide +kernel

/-- a scan that accepts a ManifestSwitch only for a LARGER epoch (seeded change C28-seed1) ignores the
    epoch-0 manifest the bulk loader writes: it finds no segment where the engine finds one, so vacuum
    would treat every CSR page of a bulk-loaded database as garbage -/
theorem C28_counterexample_epoch0 :
    (vacuumScan ⟨">", "==", 0⟩ [⟨0, [.manifest 0 [7] 3 4, .checkpoint 0 0 3 4]⟩]).roots = ([], 3, 4) ∧
    (engineScan ScanOps.engineReal [⟨0, [.manifest 0 [7] 3 4, .checkpoint 0 0 3 4]⟩]).roots = ([7], 3, 4) := by
  decide

/-- non-vacuity of `wal_roots_agree`: a bulk load (epoch 0), a transaction, two compactions, a
    checkpoint-on-close snapshot that re-emits the current manifest -/
example : (engineScan ScanOps.engineReal
    [⟨0, [.manifest 0 [7] 3 4, .checkpoint 0 0 3 4]⟩, ⟨1, [.other]⟩,
     ⟨3, [.manifest 1 [20, 7] 21 22, .checkpoint 2 1 21 22]⟩, ⟨5, [.manifest 2 [30, 20, 7] 31 32, .checkpoint 4 2 31 32]⟩,
     ⟨6, [.manifest 2 [30, 20, 7] 31 32, .checkpoint 5 2 31 32]⟩]).roots = ([30, 20, 7], 31, 32) := by decide

end Nervus.Props.C28
