/-
  C35 — Concurrent use never deadlocks.
  Statements only (helper lemmas: Nervus.Proofs.LockLTS).
  Model: Nervus.Model.LockLTS (threads acquiring non-re-entrant locks according to an acquisition
  relation).  The relation is `Generated.lockAcqs`, regenerated from engine.rs / api.rs / backup.rs /
  nervusdb/src/lib.rs / nervusdb-capi/src/lib.rs by tools/lockorder.py on every run.
-/
import Nervus.Proofs.LockLTS
import Nervus.Model.Generated.LockOrder
namespace Nervus.Props.C35
open Nervus Nervus.LockLTS

def toAcqs (l : List (List Nat × Nat)) : List Acq := l.map (fun p => ⟨p.1, p.2⟩)

/-- every acquisition site reachable through the public API, including those of a thread that
    calls a `write_lock`-taking operation while it owns an open write transaction -/
def fullRelation : List Acq := toAcqs (Generated.lockAcqs ++ Generated.lockAcqsReentrantExtra)

/-- trigger predicate of the known finding: the site asks for a lock the thread already holds -/
def reentrant (a : Acq) : Bool := a.held.contains a.want

/-- the relation without re-entrant sites -/
def apiRelation : List Acq := fullRelation.filter (fun a => !reentrant a)

/-- **C35 at full strength**: no reachable state of any number of threads using the whole public
    API is a deadlock.  FALSE (see `C35_counterexample_reentry`). -/
def C35_full : Prop := ∀ s, Reach fullRelation s → ¬ Deadlock s

/-- **Generic theorem (proved once, for every relation)**: if the acquisition relation has no
    feasible cycle — no cycle whose edges have pairwise disjoint held-sets — then no reachable state
    contains a cycle of threads waiting for each other, whatever the number of threads and the
    interleaving. -/
theorem no_feasible_cycle_no_deadlock (A : List Acq) (n : Nat) (hwf : wellFormed A n = true)
    (hno : hasFeasibleCycle A n = false) (s : State) (h : Reach A s) : ¬ Deadlock s := by
  intro ⟨ts, hc⟩
  obtain ⟨c, hfc⟩ := deadlock_gives_feasible (reach_inv h) ts hc
  have := hasFeasibleCycle_complete hwf c hfc
  rw [hno] at this; cases this

/-- the search is exact in the other direction for single edges: it does find the gate-free cycle -/
theorem search_finds_ungated_cycle : hasFeasibleCycle [⟨[2], 4⟩, ⟨[4], 2⟩] 5 = true := by decide
/-- … and a shared gate lock (here lock 0 in both held-sets) makes the same cycle infeasible -/
theorem gate_breaks_cycle : hasFeasibleCycle [⟨[0, 2], 4⟩, ⟨[0, 4], 2⟩] 5 = false := by decide

/-- per-run obligation 1: every lock number in the regenerated table is in range -/
theorem relation_wellFormed : wellFormed apiRelation Generated.nLocks = true := by decide +kernel

/-- per-run obligation 2: the regenerated relation has no feasible cycle -/
theorem relation_no_feasible_cycle : hasFeasibleCycle apiRelation Generated.nLocks = false := by decide +kernel

/-- the only re-entrant sites are on the gate lock itself (so the partial theorem's hypothesis is
    exactly "no thread asks for write_lock while it owns a write transaction") -/
theorem reentrant_sites_are_write_lock : (fullRelation.filter reentrant).all (fun a => a.want == 0) = true := by
  decide +kernel

/-- **C35 (partial)**: as long as no thread calls a `write_lock`-taking operation (begin_write,
    compact, checkpoint, close, auto-commit write) while it owns an open write transaction, no
    reachable state is a deadlock — any number of threads, all interleavings of all public
    operations. -/
theorem C35_partial (s : State) (h : Reach apiRelation s) : ¬ Deadlock s :=
  no_feasible_cycle_no_deadlock apiRelation Generated.nLocks relation_wellFormed relation_no_feasible_cycle s h

/-- **Progress (generic)**: under the same hypothesis, in every reachable state every thread — in
    particular every blocked one — transitively waits for a thread that can take a step (it is running, or
    the lock it waits for is free).  Assumed, not modelled: that thread is eventually scheduled. -/
theorem blocked_waits_for_runnable (A : List Acq) (n : Nat) (hwf : wellFormed A n = true)
    (hno : hasFeasibleCycle A n = false) (s : State) (h : Reach A s) (t : Nat) :
    ∃ u, WaitsStar s t u ∧ Runnable s u :=
  progress_aux (reach_inv h) (held_lt hwf h) (no_feasible_cycle_no_deadlock A n hwf hno s h)
    (n + 1) [] t (by simp) trivial (by simp; omega)

/-- **Progress for the API relation**: if some thread is blocked, some thread can take a step. -/
theorem C35_progress (s : State) (h : Reach apiRelation s) (t : Nat) :
    ∃ u, WaitsStar s t u ∧ Runnable s u :=
  blocked_waits_for_runnable apiRelation Generated.nLocks relation_wellFormed relation_no_feasible_cycle s h t

/-- the relation really contains the `wal → label_interner` / `label_interner → wal` cycle that only
    the `write_lock` gate makes infeasible (non-vacuity of the gate argument) -/
theorem gated_cycle_present : (⟨[0, 2], 4⟩ : Acq) ∈ apiRelation ∧ (⟨[0, 4], 2⟩ : Acq) ∈ apiRelation := by
  decide +kernel

private def s1 : State := upd init 0 { held := [], wait := some 0 }
private def s2 : State := upd s1 0 { held := [0], wait := none }
private def s3 : State := upd s2 0 { held := [0], wait := some 0 }

/-- **Counterexample (re-entry)**: one thread opens a write transaction (`begin_write`: takes
    write_lock) and then calls an operation that takes write_lock again (`ndb_execute_write`,
    `ndb_compact`, `Db::compact`, a second `begin_write`): it waits for itself forever. -/
theorem C35_counterexample_reentry : ∃ s, Reach fullRelation s ∧ Deadlock s := by
  refine ⟨s3, ?_, [0], ?_⟩
  · have r1 : Reach fullRelation s1 :=
      Reach.step Reach.init (Step.request init 0 ⟨[], 0⟩ rfl (by decide +kernel) (by intro x; simp [init]))
    have r2 : Reach fullRelation s2 :=
      Reach.step r1 (Step.grant s1 0 0 (by simp [s1]) (by intro u; simp [s1, upd, init]; split <;> simp))
    exact Reach.step r2 (Step.request s2 0 ⟨[0], 0⟩ (by simp [s2]) (by decide +kernel) (by intro x; simp [s2]))
  · exact ⟨by simp, 0, by simp [s3], by simp [s3]⟩

theorem C35_full_is_false : ¬ C35_full := by
  intro h
  obtain ⟨s, hr, hd⟩ := C35_counterexample_reentry
  exact h s hr hd

/-! non-vacuity: a reachable state of the API relation with two threads inside `commit`-like nesting -/
example : ∃ s, Reach apiRelation s ∧ (s 0).held = [2, 0] ∧ (s 1).wait = some 0 := by
  let a := upd init 0 { held := [], wait := some 0 }
  let b := upd a 0 { held := [0], wait := none }
  let c := upd b 0 { held := [0], wait := some 2 }
  let d := upd c 0 { held := [2, 0], wait := none }
  let e := upd d 1 { held := [], wait := some 0 }
  have ra : Reach apiRelation a := .step .init (.request init 0 ⟨[], 0⟩ rfl (by decide +kernel) (by intro x; simp [init]))
  have rb : Reach apiRelation b := .step ra (.grant a 0 0 (by simp [a]) (by intro u; simp [a, upd, init]; split <;> simp))
  have rc : Reach apiRelation c := .step rb (.request b 0 ⟨[0], 2⟩ (by simp [b]) (by decide +kernel) (by intro x; simp [b]))
  have rd : Reach apiRelation d := .step rc (.grant c 0 2 (by simp [c]) (by
    intro u; simp only [c, b, a, upd, init]; split <;> simp))
  have re : Reach apiRelation e := .step rd (.request d 1 ⟨[], 0⟩ (by simp [d, c, b, a, upd, init]) (by decide +kernel)
    (by intro x; simp [d, c, b, a, upd, init]))
  exact ⟨e, re, by simp [e, d, upd], by simp [e]⟩

end Nervus.Props.C35
