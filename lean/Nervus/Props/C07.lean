/-
  C07 — Uncommitted transactions leave no trace.
  Statements only (helper lemmas: Nervus.Proofs.EngineAbort).
  Model: Nervus.Model.{Engine,EngineRun} (WriteTxn buffers every write in the memtable / pending
  lists; the two write-through paths are `get_or_create_label` and — before fix 9b4c429 — `set_vector`).
-/
import Nervus.Proofs.EngineAbort
import Nervus.Proofs.CheckpointHist
import Nervus.Model.Triggers
namespace Nervus.Props.C07
open Nervus Nervus.Storage
open Nervus.GraphSpec (TxOp Op)


/-- the C07 fix is present in the source (regenerated table entry): `set_vector` stages the vector -/
theorem vectors_staged : Cfg.current.vecStaged = true := by decide

/-- **C07 (state level, full strength)**: from ANY engine state, a write transaction that stages ANY
    writes (vector insertions, new labels / relationship types included) and is then dropped leaves
    every read interface unchanged: node enumeration, tombstone flags, external ids, label ids,
    single-key and whole-map properties of nodes and relationships, outgoing / incoming neighbours,
    external-id lookup and vector search.  (`abs'` = these reads.) -/
theorem abort_no_trace (s : Engine) (ops : List TxOp) :
    let s' := runTx Cfg.current s ops false
    s'.nodes = s.nodes ∧ s'.nodesSnap = s.nodesSnap ∧ s'.isTombstoned = s.isTombstoned ∧
    s'.resolveExternal = s.resolveExternal ∧ s'.nodeLabels = s.nodeLabels ∧ s'.nodeProp = s.nodeProp ∧
    s'.nodeProps = s.nodeProps ∧ s'.neighbors = s.neighbors ∧
    s'.incoming Cfg.current = s.incoming Cfg.current ∧
    s'.edgeProp = s.edgeProp ∧ s'.edgeProps = s.edgeProps ∧ s'.lookupInternal = s.lookupInternal ∧
    s'.vecNodes = s.vecNodes :=
  (fold_view Cfg.current vectors_staged ops s.beginWrite).reads Cfg.current

/-- label interning writes through, but it is unobservable: names already interned keep their ids,
    and the label NAMES of every node are unchanged (stored label ids are interned ids or
    `LabelId::MAX`, the interner stays below `LabelId::MAX`) -/
theorem abort_label_names (s : Engine) (ops : List TxOp)
    (hids : ∀ (n l : Nat), l ∈ (s.idmap.i2l[n]?).getD [] → l = labelMax ∨ l < s.interner.length)
    (hsmall : (runTx Cfg.current s ops false).interner.length ≤ labelMax) (n : Nat) :
    (runTx Cfg.current s ops false).nodeLabelNames n = s.nodeLabelNames n ∧
    ∀ id, id < s.interner.length → (runTx Cfg.current s ops false).interner.getName id = s.interner.getName id :=
  ⟨(fold_view Cfg.current vectors_staged ops s.beginWrite).labelNames hids hsmall n,
   fun id h => getName_prefix (fold_view Cfg.current vectors_staged ops s.beginWrite).pre id h⟩

/-- what survives on disk: node table, segments, property store, vector index, manifest epoch and
    checkpoint are untouched (the log only gains label mini-transactions) -/
theorem abort_disk (s : Engine) (ops : List TxOp) :
    let s' := runTx Cfg.current s ops false
    s'.disk.i2e = s.disk.i2e ∧ s'.disk.segStore = s.disk.segStore ∧ s'.disk.store = s.disk.store ∧
    s'.disk.vecs = s.disk.vecs ∧ s'.epoch = s.epoch ∧ s'.ckptTxid = s.ckptTxid := by
  have h := fold_view Cfg.current vectors_staged ops s.beginWrite
  refine ⟨?_, h.segStore, h.store, h.vecs, h.epoch, h.ckpt⟩
  show (runTx Cfg.current s ops false).idmap.i2e = s.idmap.i2e
  exact congrArg IdMap.i2e h.idmap

/-- **C07 (history level)**: `abs' (M.run (h ++ [begin … abort])) = abs' (M.run h)` -/
theorem abort_no_trace_hist (h : List Op) (t : List TxOp) (s : Engine)
    (hr : Storage.run Cfg.current h = .ok s) :
    ∃ s', Storage.run Cfg.current (h ++ [.tx t false]) = .ok s' ∧
      s'.nodes = s.nodes ∧ s'.neighbors = s.neighbors ∧ s'.incoming Cfg.current = s.incoming Cfg.current ∧
      s'.nodeProp = s.nodeProp ∧ s'.nodeProps = s.nodeProps ∧ s'.edgeProp = s.edgeProp ∧
      s'.edgeProps = s.edgeProps ∧ s'.nodeLabels = s.nodeLabels ∧ s'.lookupInternal = s.lookupInternal ∧
      s'.vecNodes = s.vecNodes := by
  refine ⟨runTx Cfg.current s t false, ?_, ?_⟩
  · unfold Storage.run at hr ⊢
    rw [List.foldlM_append, hr]; rfl
  · have := abort_no_trace s t
    simp only at this
    obtain ⟨h1, _, _, _, h5, h6, h7, h8, h9, h10, h11, h12, h13⟩ := this
    exact ⟨h1, h8, h9, h6, h7, h10, h11, h5, h12, h13⟩

/-! ### failed commits: the log prefix they leave, and what replay makes of it -/

/-- the grouping loop of `Wal::replay_committed` drops its buffered records at every BeginTx
    (regenerated table entry; seed C07-seed1 makes it false) -/
theorem replay_resets_pending_at_begin : Generated.replayResetsPendingAtBegin = true := by decide

/-- **record level, every log**: for EVERY log that consists of complete transactions and — anywhere
    between them and at the end — fragments `BeginTx, records…` that never got their CommitTx (failed
    commits, crashes), `replay_committed` returns exactly the complete transactions, each with the
    records strictly between its BeginTx and ITS CommitTx, in file order.  (`Blocks`, Proofs/WalBlocks.) -/
theorem replay_sees_committed_only {w : List WalRec} {txs : List (Nat × List WalRec)} (h : Blocks w txs) :
    replayCommitted w none [] = .ok txs := h.parse

/-- the same as an equation between logs: a fragment between two parts of a log changes nothing -/
theorem replay_drops_fragment {w w' : List WalRec} {txs txs' : List (Nat × List WalRec)}
    (h : Blocks w txs) (h' : Blocks w' txs') (t : Nat) (body : List WalRec) (hb : ∀ r ∈ body, r.isBody = true) :
    replayCommitted (w ++ (WalRec.beginTx t :: (body ++ w'))) none [] = replayCommitted (w ++ w') none [] := by
  rw [(h.concat (Blocks.abandoned hb h')).parse, (h.concat h').parse]

/-- without the reset (the seeded grouping loop) the records of a failed commit are handed to the next
    transaction that commits -/
theorem C07_counterexample_replay_without_reset :
    replayCommittedWith false
      [.beginTx 5, .setNodeProperty 0 363 7, .beginTx 6, .createEdge ⟨0, 1, 1⟩, .commitTx 6] none [] =
      .ok [(6, [.setNodeProperty 0 363 7, .createEdge ⟨0, 1, 1⟩])] ∧
    replayCommittedWith true
      [.beginTx 5, .setNodeProperty 0 363 7, .beginTx 6, .createEdge ⟨0, 1, 1⟩, .commitTx 6] none [] =
      .ok [(6, [.createEdge ⟨0, 1, 1⟩])] := ⟨rfl, rfl⟩

/-- every read interface answers alike (what `Eqv` says, spelled out) -/
def SameReads (s u : Engine) : Prop :=
  s.nodes = u.nodes ∧ s.nodesSnap = u.nodesSnap ∧ s.isTombstoned = u.isTombstoned ∧
  (∀ n rel, PermOpt (s.neighbors n rel) (u.neighbors n rel)) ∧
  (∀ n rel, PermOpt (s.incoming Cfg.current n rel) (u.incoming Cfg.current n rel)) ∧
  (∀ n k, s.nodeProp n k = u.nodeProp n k) ∧ (∀ e k, s.edgeProp e k = u.edgeProp e k) ∧
  (∀ n k, (s.nodeProps n).lookup k = (u.nodeProps n).lookup k) ∧
  (∀ e k, (s.edgeProps e).lookup k = (u.edgeProps e).lookup k) ∧
  s.nodeLabels = u.nodeLabels ∧ s.nodeLabelNames = u.nodeLabelNames ∧ s.resolveExternal = u.resolveExternal ∧
  s.lookupInternal = u.lookupInternal ∧ s.interner = u.interner ∧ s.vecNodes = u.vecNodes

/-- **one failed commit, state level**: a commit that fails at ANY of its log appends (`j` arbitrary:
    record larger than 1 MiB, value nested too deeply, I/O error; `j = 0`: nothing was appended) changes
    no read interface — exactly like dropping the transaction — and leaves files from which `open`
    rebuilds an engine that no read can tell from the one before the transaction, whatever was committed
    before (`Rec`: the log is `Blocks`, the fragment is dropped by replay). -/
theorem failed_commit_no_trace (s : Engine) (ops : List TxOp) (j : Nat) :
    let s' := runTxFail Cfg.current s ops j
    s'.nodes = s.nodes ∧ s'.nodesSnap = s.nodesSnap ∧ s'.isTombstoned = s.isTombstoned ∧
    s'.resolveExternal = s.resolveExternal ∧ s'.nodeLabels = s.nodeLabels ∧ s'.nodeProp = s.nodeProp ∧
    s'.nodeProps = s.nodeProps ∧ s'.neighbors = s.neighbors ∧ s'.incoming Cfg.current = s.incoming Cfg.current ∧
    s'.edgeProp = s.edgeProp ∧ s'.edgeProps = s.edgeProps ∧ s'.lookupInternal = s.lookupInternal ∧
    s'.vecNodes = s.vecNodes := by
  have hv := fold_view Cfg.current vectors_staged ops s.beginWrite
  have h1 : SameView s (ops.foldl (stepTx Cfg.current) s.beginWrite).1 :=
    SameView.trans (b := s.beginWrite.1) ⟨rfl, rfl, rfl, rfl, rfl, rfl, rfl, rfl, rfl, rfl, List.prefix_refl _⟩ hv
  have h2 : SameView s (runTxFail Cfg.current s ops j) :=
    ⟨h1.runs, h1.idmap, h1.segs, h1.segStore, h1.store, h1.root, h1.storeRoot, h1.vecs, h1.epoch, h1.ckpt, h1.pre⟩
  exact h2.reads Cfg.current

/-- **failed commits, history level (also after reopen)**.  For EVERY history of transactions
    (committed, dropped, or with a commit that FAILED at any of its log appends), compactions, closes
    and reopens whose view without the log (`XOp.erase`: a failed commit is an abandoned transaction) is
    well-formed, triggers no C06 finding and is `xHistSafe`: the history runs; a further reopen succeeds;
    and — live and after that reopen — the engine answers every read like the shadow engine `u` that ran
    only the transactions of the erased history (the failed ones as abandoned ones: they intern names and
    nothing else), which agrees with the Spec graph in which the failed transactions never happened.
    Uncommitted ⇒ no trace, also after reopen, also when later transactions commit behind the fragment. -/
theorem failed_commits_no_trace_hist (xs : List XOp)
    (hwf : GraphSpec.wellFormed (xs.map XOp.erase) = true)
    (hk : GraphSpec.noC06Trigger (xs.map XOp.erase) = true) (hsz : histSize (xs.map XOp.erase) ≤ labelMax)
    (hs : xHistSafe Cfg.current {} xs = true) :
    ∃ s s' u, xs.foldlM (runX Cfg.current) {} = .ok s ∧ s.reopen = .ok s' ∧
      Storage.run Cfg.current (txPart (xs.map XOp.erase)) = .ok u ∧
      SameReads s u ∧ SameReads s' u ∧ ReadsAgree Cfg.current u (GraphSpec.run (xs.map XOp.erase)) := by
  simp only [GraphSpec.noC06Trigger, Bool.and_eq_true, Bool.not_eq_true'] at hk
  obtain ⟨⟨⟨k1, k2⟩, k3⟩, k4⟩ := hk
  obtain ⟨s, u, hrun, hrunu, hP⟩ := hist_pairX xs {} {} {} Pair.empty hs hwf (by simpa using hsz) k1 k2 k3 k4
  obtain ⟨s', hopen, hP'⟩ := hP.reopen
  exact ⟨s, s', u, hrun, hopen, hrunu, hP.eqv.reads, hP'.eqv.reads, hP.sim.reads _⟩

/-- non-vacuity: a failed commit with records in the log, a committed transaction behind it, a
    compaction, another failed commit (nothing appended), reopen, more writes -/
def hFailed : List XOp :=
  [ .op (.tx [.node 10 (some 321), .node 11 none, .edge 0 338 1, .nprop 0 363 7] true),
    .txFail [.node 12 (some 322), .edge 0 338 1, .nprop 0 363 9, .eprop 0 338 1 363 5, .tombNode 2] 4,
    .op (.tx [.node 12 none, .edge 2 338 0, .nprop 2 363 1] true),
    .op .compact,
    .txFail [.nprop 1 363 4] 0,
    .op .reopen,
    .txFail [.tombEdge 0 338 1, .node 13 none] 9,
    .op (.tx [.nprop 1 363 2] true), .op .close ]

example : xHistSafe Cfg.current {} hFailed = true ∧ GraphSpec.wellFormed (hFailed.map XOp.erase) = true ∧
    GraphSpec.noC06Trigger (hFailed.map XOp.erase) = true ∧ histSize (hFailed.map XOp.erase) ≤ labelMax := by decide

/-- vector search never returns a node that a published run tombstones (fix b85f233 of the index
    builder; a deleted node is not an existing node) -/
theorem vsearch_excludes_deleted (s : Engine) (n : Nat) (h : n ∈ s.vecNodes) : s.isTombstoned n = false := by
  unfold Engine.vecNodes at h
  have := (List.mem_filter.mp h).2
  unfold Engine.isTombstoned
  simpa using this

/-! ### non-vacuity -/

def A : Nat := 321
def R : Nat := 338

def hBase : List Op := [ .tx [.node 10 (some A), .node 11 (some A), .edge 0 R 1, .vec 0 [1, 2]] true ]
def tAbandoned : List TxOp := [.node 12 (some 322), .edge 0 339 1, .tombNode 1, .nprop 0 363 5, .vec 1 [3, 4]]

example : ∃ s, Storage.run Cfg.current hBase = .ok s ∧ s.vecNodes = [0] ∧ s.nodes = [0, 1] ∧
    (runTx Cfg.current s tAbandoned false).interner.length = s.interner.length + 2 :=
  ⟨_, rfl, by decide, by decide, by decide⟩

/-! ### the defect of the pinned tree (fixed by 9b4c429; witness corpus/engine_abort/c07-vector-write-through.ops) -/

/-- with `set_vector` writing through (pinned tree) the vector of an abandoned transaction is searchable -/
theorem C07_counterexample_vector_write_through :
    ∃ s, Storage.run Cfg.pinned [ .tx [.node 10 (some A)] true ] = .ok s ∧ s.vecNodes = [] ∧
      (runTx Cfg.pinned s [.vec 0 [1, 2]] false).vecNodes = [0] ∧
      StorageTriggers.trigAbortedVec Cfg.pinned [ .tx [.node 10 (some A)] true, .tx [.vec 0 [1, 2]] false ] = true :=
  ⟨_, rfl, by decide, by decide, by decide⟩

/-- with the fix no history triggers the finding any more -/
theorem no_trigger_left (h : List Op) : StorageTriggers.trigAbortedVec Cfg.current h = false := by
  unfold StorageTriggers.trigAbortedVec; rw [vectors_staged]; rfl

end Nervus.Props.C07
