/-
  C07 — Uncommitted transactions leave no trace.
  Statements only (helper lemmas: Nervus.Proofs.EngineAbort).
  Model: Nervus.Model.{Engine,EngineRun} (WriteTxn buffers every write in the memtable / pending
  lists; the two write-through paths are `get_or_create_label` and — before fix 9b4c429 — `set_vector`).
-/
import Nervus.Proofs.EngineAbort
import Nervus.Model.Triggers
namespace Nervus.Props.C07
open Nervus Nervus.Storage
open Nervus.GraphSpec (TxOp Op)

/-- the C07 fix is present in the source (regenerated table entry): `set_vector` stages the vector -/
theorem vectors_staged : Cfg.current.vecStaged = true := by decide

/-- **C07 (state level, full strength)**: from ANY engine state, a write transaction that stages ANY
    writes (vector insertions, new labels / relationship types included) and is then dropped leaves
    every read interface unchanged: node enumeration, tombstone flags, external ids, label ids,
    single-key and whole-map properties of nodes and relationships, outgoing / incoming neighbours,
    external-id lookup and vector search.  (`abs'` = these reads.) -/
theorem abort_no_trace (s : Engine) (ops : List TxOp) :
    let s' := runTx Cfg.current s ops false
    s'.nodes = s.nodes ∧ s'.nodesSnap = s.nodesSnap ∧ s'.isTombstoned = s.isTombstoned ∧
    s'.resolveExternal = s.resolveExternal ∧ s'.nodeLabels = s.nodeLabels ∧ s'.nodeProp = s.nodeProp ∧
    s'.nodeProps = s.nodeProps ∧ s'.neighbors = s.neighbors ∧
    s'.incoming Cfg.current = s.incoming Cfg.current ∧
    s'.edgeProp = s.edgeProp ∧ s'.edgeProps = s.edgeProps ∧ s'.lookupInternal = s.lookupInternal ∧
    s'.vecNodes = s.vecNodes :=
  (fold_view Cfg.current vectors_staged ops s.beginWrite).reads Cfg.current

/-- label interning writes through, but it is unobservable: names already interned keep their ids,
    and the label NAMES of every node are unchanged (stored label ids are interned ids or
    `LabelId::MAX`, the interner stays below `LabelId::MAX`) -/
theorem abort_label_names (s : Engine) (ops : List TxOp)
    (hids : ∀ (n l : Nat), l ∈ (s.idmap.i2l[n]?).getD [] → l = labelMax ∨ l < s.interner.length)
    (hsmall : (runTx Cfg.current s ops false).interner.length ≤ labelMax) (n : Nat) :
    (runTx Cfg.current s ops false).nodeLabelNames n = s.nodeLabelNames n ∧
    ∀ id, id < s.interner.length → (runTx Cfg.current s ops false).interner.getName id = s.interner.getName id :=
  ⟨(fold_view Cfg.current vectors_staged ops s.beginWrite).labelNames hids hsmall n,
   fun id h => getName_prefix (fold_view Cfg.current vectors_staged ops s.beginWrite).pre id h⟩

/-- what survives on disk: node table, segments, property store, vector index, manifest epoch and
    checkpoint are untouched (the log only gains label mini-transactions) -/
theorem abort_disk (s : Engine) (ops : List TxOp) :
    let s' := runTx Cfg.current s ops false
    s'.disk.i2e = s.disk.i2e ∧ s'.disk.segStore = s.disk.segStore ∧ s'.disk.store = s.disk.store ∧
    s'.disk.vecs = s.disk.vecs ∧ s'.epoch = s.epoch ∧ s'.ckptTxid = s.ckptTxid := by
  have h := fold_view Cfg.current vectors_staged ops s.beginWrite
  refine ⟨?_, h.segStore, h.store, h.vecs, h.epoch, h.ckpt⟩
  show (runTx Cfg.current s ops false).idmap.i2e = s.idmap.i2e
  exact congrArg IdMap.i2e h.idmap

/-- **C07 (history level)**: `abs' (M.run (h ++ [begin … abort])) = abs' (M.run h)` -/
theorem abort_no_trace_hist (h : List Op) (t : List TxOp) (s : Engine)
    (hr : Storage.run Cfg.current h = .ok s) :
    ∃ s', Storage.run Cfg.current (h ++ [.tx t false]) = .ok s' ∧
      s'.nodes = s.nodes ∧ s'.neighbors = s.neighbors ∧ s'.incoming Cfg.current = s.incoming Cfg.current ∧
      s'.nodeProp = s.nodeProp ∧ s'.nodeProps = s.nodeProps ∧ s'.edgeProp = s.edgeProp ∧
      s'.edgeProps = s.edgeProps ∧ s'.nodeLabels = s.nodeLabels ∧ s'.lookupInternal = s.lookupInternal ∧
      s'.vecNodes = s.vecNodes := by
  refine ⟨runTx Cfg.current s t false, ?_, ?_⟩
  · unfold Storage.run at hr ⊢
    rw [List.foldlM_append, hr]; rfl
  · have := abort_no_trace s t
    simp only at this
    obtain ⟨h1, _, _, _, h5, h6, h7, h8, h9, h10, h11, h12, h13⟩ := this
    exact ⟨h1, h8, h9, h6, h7, h10, h11, h5, h12, h13⟩

/-! ### non-vacuity -/

def A : Nat := 321
def R : Nat := 338

def hBase : List Op := [ .tx [.node 10 (some A), .node 11 (some A), .edge 0 R 1, .vec 0 [1, 2]] true ]
def tAbandoned : List TxOp := [.node 12 (some 322), .edge 0 339 1, .tombNode 1, .nprop 0 363 5, .vec 1 [3, 4]]

example : ∃ s, Storage.run Cfg.current hBase = .ok s ∧ s.vecNodes = [0] ∧ s.nodes = [0, 1] ∧
    (runTx Cfg.current s tAbandoned false).interner.length = s.interner.length + 2 :=
  ⟨_, rfl, by decide, by decide, by decide⟩

/-! ### the defect of the pinned tree (fixed by 9b4c429; witness corpus/engine_abort/c07-vector-write-through.ops) -/

/-- with `set_vector` writing through (pinned tree) the vector of an abandoned transaction is searchable -/
theorem C07_counterexample_vector_write_through :
    ∃ s, Storage.run Cfg.pinned [ .tx [.node 10 (some A)] true ] = .ok s ∧ s.vecNodes = [] ∧
      (runTx Cfg.pinned s [.vec 0 [1, 2]] false).vecNodes = [0] ∧
      StorageTriggers.trigAbortedVec Cfg.pinned [ .tx [.node 10 (some A)] true, .tx [.vec 0 [1, 2]] false ] = true :=
  ⟨_, rfl, by decide, by decide, by decide⟩

/-- with the fix no history triggers the finding any more -/
theorem no_trigger_left (h : List Op) : StorageTriggers.trigAbortedVec Cfg.current h = false := by
  unfold StorageTriggers.trigAbortedVec; rw [vectors_staged]; rfl

end Nervus.Props.C07
