/-
  C18 — Growing one structure never corrupts another.
  Statements only (helper lemmas live in Nervus.Proofs.Pager).
  Model: Nervus.Model.Pager (mirrors pager.rs allocate_page / ensure_allocated / free_page and
  idmap.rs i2e_location / write_i2e_record; constants regenerated in Generated/Sizes).

  Verdict on the pinned tree: FALSE (known finding C18-i2e-growth): the record of node k is written to
  page `i2e_start + k/512` through `ensure_allocated`, which accepts any page — also one that a CSR
  segment, a B-tree, a blob chain … allocated in the meantime.  Every other structure only writes pages
  it allocated itself, and the allocator never hands out an allocated page: `C18_partial`.
-/
import Nervus.Proofs.Pager
import Nervus.Model.PagerReal
namespace Nervus.Props.C18
open Nervus Nervus.Pager

/-- **C18 at full strength** (not provable): after ANY history of page-level engine operations no page
    is claimed by two structures (so a write by one structure cannot change what another stored) -/
def C18_full : Prop := ∀ ops : List Op, ownedOnce (run Cfg.real (init Cfg.real) ops).1

/-- no known finding is triggered: no node record went to a page the node table had not claimed
    and that another structure owns -/
def NoTrigger (c : Cfg) (ops : List Op) : Bool := !(run c (init c) ops).2

/-- **C18 (partial)**: for EVERY history outside the trigger — any interleaving of node creation,
    page allocation by any number of other structures and rewrites of own pages, of any length —
    page ownership stays a partial function, every claimed page is allocated -/
theorem C18_partial (c : Cfg) (ops : List Op) (h : NoTrigger c ops = true) :
    ownedOnce (run c (init c) ops).1 ∧ ∀ x ∈ (run c (init c) ops).1.own, x.1 ∈ (run c (init c) ops).1.pg.bits := by
  simp only [NoTrigger, Bool.not_eq_true'] at h
  have inv := run_inv c ops (init c) (init_inv c) h
  exact ⟨inv.once, inv.alloc⟩

/-- **C18 (isolation)**: in a state where ownership is a partial function, an operation outside the
    trigger changes the stored content of no page owned by a structure other than the one operating -/
theorem C18_isolation (c : Cfg) (s s' : Sys) (op : Op) (inv : Inv s) (ht : i2eConflict c s op = false)
    (h : step c s op = .ok s') (p : Nat) (o : Owner) (ho : o ≠ writer op) (hown : (p, o) ∈ s.own) :
    s'.data.get p = s.data.get p :=
  step_isolated c s s' op inv ht h p o ho hown

/-- **C18 (isolation over histories)**: along EVERY history outside the trigger (any length, any
    interleaving), a page claimed by structure `o` keeps exactly the content `o` last stored — and `o`
    keeps its claim — however much every OTHER structure grows or rewrites in the meantime -/
theorem C18_run_isolation (c : Cfg) (ops₀ ops : List Op) (h : NoTrigger c (ops₀ ++ ops) = true)
    (p : Nat) (o : Owner) (hown : (p, o) ∈ (run c (init c) ops₀).1.own)
    (hw : ∀ op ∈ ops, writer op ≠ o) :
    (run c (init c) (ops₀ ++ ops)).1.data.get p = (run c (init c) ops₀).1.data.get p ∧
    (p, o) ∈ (run c (init c) (ops₀ ++ ops)).1.own := by
  simp only [NoTrigger, Bool.not_eq_true'] at h
  rw [run_append] at h ⊢
  simp only [Bool.or_eq_false_iff] at h
  exact run_isolated c ops _ (run_inv c ops₀ (init c) (init_inv c) h.1) h.2 p o hown hw

/-- the allocator never hands out an allocated page (first free bit below next_page_id, else
    next_page_id), whatever was freed before -/
theorem C18_allocate_fresh (c : Cfg) (s s' : Pg) (p : Nat) (ok : PgOK s) (h : allocate c s = .ok (p, s')) :
    p ∉ s.bits ∧ p ∈ s'.bits :=
  ⟨(allocate_spec c s s' p ok h).1, (allocate_spec c s s' p ok h).2.1⟩

/-- allocation is monotone under engine operations: the engine never frees a page -/
theorem C18_monotone (c : Cfg) (s s' : Sys) (op : Op) (ok : PgOK s.pg) (h : step c s op = .ok s') :
    ∀ p, p ∈ s.pg.bits → p ∈ s'.pg.bits :=
  step_mono c s s' op ok h

/-- allocation is monotone over EVERY history outside the trigger: whatever was allocated after a prefix
    is still allocated after any continuation, so (with `C18_allocate_fresh`) no later allocation by any
    structure returns a page that some structure was given earlier -/
theorem C18_run_monotone (c : Cfg) (ops₀ ops : List Op) (h : NoTrigger c (ops₀ ++ ops) = true) :
    ∀ p, p ∈ (run c (init c) ops₀).1.pg.bits → p ∈ (run c (init c) (ops₀ ++ ops)).1.pg.bits := by
  simp only [NoTrigger, Bool.not_eq_true'] at h
  rw [run_append] at h ⊢
  simp only [Bool.or_eq_false_iff] at h
  exact run_mono c ops _ (run_inv c ops₀ (init c) (init_inv c) h.1) h.2

/-- **no page is handed out twice**: after EVERY trigger-free history, whatever `Pager::allocate_page`
    returns next is a page no structure has a claim on (claimed pages are allocated — the invariant —
    and the allocator returns only unallocated pages) -/
theorem C18_never_reallocated (c : Cfg) (ops : List Op) (h : NoTrigger c ops = true) (q : Nat) (pg' : Pg)
    (ha : allocate c (run c (init c) ops).1.pg = .ok (q, pg')) :
    ∀ x ∈ (run c (init c) ops).1.own, x.1 ≠ q := by
  simp only [NoTrigger, Bool.not_eq_true'] at h
  have inv := run_inv c ops (init c) (init_inv c) h
  intro x hx e
  exact (allocate_spec c _ pg' q inv.pg ha).1 (e ▸ inv.alloc x hx)

/-! ### non-vacuity (2 records per node-table page) -/

def tiny : Cfg := ⟨2, 64, 2⟩

/-- the node table grows over three pages, then three other structures allocate and rewrite -/
def exampleOps : List Op :=
  [.alloc 1, .createNode, .createNode, .createNode, .createNode, .createNode, .alloc 2, .alloc 3,
   .rewrite 2 6, .rewrite 1 2, .createNode]

example : NoTrigger tiny exampleOps = true := by decide
example : (run tiny (init tiny) exampleOps).1.own =
    [(7, .other 3), (6, .other 2), (5, .i2e), (4, .i2e), (3, .i2e), (2, .other 1)] := by decide
example : Inv (init tiny) := init_inv tiny
example : (allocate tiny (run tiny (init tiny) exampleOps).1.pg).toOption.map (·.1) = some 8 := by decide
/-- `C18_run_isolation` is not vacuous: structure 1's page 2 survives five node creations, two foreign
    allocations and a foreign rewrite (prefix = first op, suffix without `rewrite 1 2`) -/
example : NoTrigger tiny ([.alloc 1] ++ (exampleOps.drop 1).dropLast.dropLast) = true ∧
    (2, Owner.other 1) ∈ (run tiny (init tiny) [.alloc 1]).1.own ∧
    (∀ op ∈ (exampleOps.drop 1).dropLast.dropLast, writer op ≠ .other 1) ∧
    (run tiny (init tiny) ([.alloc 1] ++ (exampleOps.drop 1).dropLast.dropLast)).1.data.get 2 = some (.other 1, 0) := by
  decide

/-! ### counterexample -/

/-- one node, then another structure allocates the page right behind the node table's first page,
    then the node table grows past its page: the third node's record goes into that structure's
    page — two owners, and the structure's content is gone (last writer: the node table) -/
theorem C18_counterexample :
    ¬ ownedOnce (run tiny (init tiny) [.createNode, .alloc 7, .createNode, .createNode]).1 ∧
    (run tiny (init tiny) [.createNode, .alloc 7]).1.data.get 3 = some (.other 7, 1) ∧
    (run tiny (init tiny) [.createNode, .alloc 7, .createNode, .createNode]).1.data.get 3 = some (.i2e, 3) ∧
    (run tiny (init tiny) [.createNode, .alloc 7, .createNode, .createNode]).2 = true := by decide

/-- the same at the real record size: 1 node, one foreign allocation, 512 more nodes -/
theorem C18_counterexample_real :
    ¬ ownedOnce (run Cfg.real (init Cfg.real) (.createNode :: .alloc 7 :: List.replicate 512 .createNode)).1 := by
  decide +kernel

/-- **`C18_full` is false** -/
theorem C18_counterexample_full : ¬ C18_full :=
  fun h => C18_counterexample_real (h _)

end Nervus.Props.C18
