/-
  C03 — Snapshots are consistent and stable.
  Statements only (helper lemmas: Nervus.Proofs.SnapLTS).
  Model: Nervus.Model.SnapLTS (one writer: commit / compaction publication steps; any number of readers
  assembling snapshots field by field).  The step orders are pinned to the regenerated
  `Generated.PubOrder` below.
-/
import Nervus.Proofs.SnapLTS
import Nervus.Model.Generated.PubOrder
namespace Nervus.Props.C03
open Nervus Nervus.SnapLTS

/-- **C03 at full strength**: every completed snapshot shows the Spec state of ONE instant inside its
    acquisition window (consistency), and what it shows never changes afterwards (stability) — for all
    interleavings of commits, compactions and any number of readers.  FALSE (six counterexamples below). -/
def C03_full : Prop :=
  ∀ (h0 : Bool) (s : State), Reach (init h0) s →
    (∀ j σ, s.snaps j = some σ → σ.pc = 5 → ∃ c, σ.lo ≤ c ∧ c ≤ σ.hi ∧ Shows s.hasIndex (view s σ) c) ∧
    (∀ l s' j σ, step s l = some s' → s.snaps j = some σ → σ.pc = 5 → l ≠ .dropSnap j →
      ∃ σ', s'.snaps j = some σ' ∧ view s' σ' = view s σ)

/-- the model's step orders ARE the orders of the source (regenerated on every run) -/
theorem pub_order_in_source :
    Generated.commitPubOrder = ["indexUpdate", "walCommit", "idmapApply", "publishNodeLabels", "publishRun"] ∧
    Generated.compactPubOrder = ["persistSegment", "sinkProps", "walManifest", "storeRoots", "clearRuns", "setSegments"] ∧
    Generated.beginReadOrder = ["readRuns", "readSegments", "readLabels", "readNodeLabels", "readRoots"] ∧
    Generated.snapshotOrder = ["scanI2e", "beginRead"] ∧
    Generated.sinkInPlace = true ∧ Generated.indexLive = true ∧ Generated.storeLive = true := by decide

/-- `compact` (and `checkpoint_on_close`) read the published run list only AFTER taking the writer lock
    (regenerated: position of `write_lock.lock()` vs the first `published_runs` access) -/
theorem runs_read_under_writer_lock_in_source :
    Generated.compactHead = ["lockWriter", "readRuns"] ∧ Generated.compactRunsReadUnderLock = true ∧
    Generated.checkpointRunsReadUnderLock = true := by decide

/-- "no known finding is triggered" for snapshot `σ` read in state `s` (decidable):
    no commit step and no compaction step overlapped its acquisition, compaction has not sunk
    properties under its (non-zero) root since, and the live index has not changed since. -/
def noTrigger (s : State) (σ : Snap) : Bool :=
  !σ.dirtyCommit && !σ.dirtyCompact && !(σ.stale && σ.root) && (s.index == σ.idxAtDone)

/-- **C03 (partial)**: a snapshot taken while no writer step is in flight, read before the next
    compaction sinks properties under its root and before the index changes, shows exactly the
    transactions committed when it was taken (`σ.lo = σ.hi`), in every reachable state of every
    interleaving with any number of other readers — hence it is also stable for as long as no trigger
    holds (`σ.lo` never changes). -/
theorem C03_partial (h0 : Bool) (s : State) (hr : Reach (init h0) s) (j : Nat) (σ : Snap)
    (hj : s.snaps j = some σ) (hdone : σ.pc = 5) (hnt : noTrigger s σ = true) :
    Shows s.hasIndex (view s σ) σ.lo ∧ σ.hi = σ.lo := by
  simp only [noTrigger, Bool.and_eq_true, Bool.not_eq_true', beq_iff_eq] at hnt
  obtain ⟨⟨⟨h1, h2⟩, h3⟩, h4⟩ := hnt
  obtain ⟨_, _, _, hd⟩ := (reach_inv hr).snaps j σ hj
  obtain ⟨a, b, c, d, e, f⟩ := hd hdone ⟨h1, h2⟩
  exact ⟨⟨a, b, d, f h3, by simp only [view, h4]; exact e⟩, c⟩

/-- the engine side at rest: when no writer step is in flight every separately published component
    reflects exactly the committed transactions -/
theorem quiescent_engine_consistent (h0 : Bool) (s : State) (hr : Reach (init h0) s) (hw : s.w = .idle) :
    s.nodes = s.committed ∧ s.labels = s.committed ∧ (∀ k, k ∈ s.runs ++ s.segs ↔ k < s.committed) ∧
    (∀ k, k ∈ s.index ↔ (s.hasIndex = true ∧ k < s.committed)) := by
  have := (reach_inv hr).w
  simp only [WInv, hw] at this
  exact ⟨this.1, this.2.1, this.2.2.1, this.2.2.2.2.2⟩

/-- **compaction preserves the committed transactions**: when every read of the run list that feeds
    the segment build and the final clear happens under the writer lock (what the source does), then in
    every reachable state at rest every committed transaction's run is in the published runs or merged
    into the published segments — for all interleavings of commits, compactions and readers. -/
theorem compact_preserves_committed (h0 : Bool) (s : State) (hr : Reach (init h0) s) (hw : s.w = .idle)
    (k : Nat) (hk : k < s.committed) : k ∈ s.runs ++ s.segs :=
  ((quiescent_engine_consistent h0 s hr hw).2.2.1 k).mpr hk

/-! ### counterexample traces, one per confirmed cause (each replayed on the real code through hook H2:
    corpus/snapsched/*.ops) -/

def tx : List Label := [.commitStep, .commitStep, .commitStep, .commitStep]
def compaction : List Label := List.replicate 6 .compactStep
def snap (j : Nat) : List Label := List.replicate 5 (.readStep j)

private theorem okG : (runTrace (init false true)
    (tx ++ [.compactRead] ++ tx ++ List.replicate 6 .compactStep)).isSome = true := by decide
/-- run-list read BEFORE the writer lock: one commit, the compactor captures `[0]`, a second commit
    (the compactor waits for the lock), the compaction runs from the stale list and clears ALL runs -/
def stG : State := (runTrace (init false true)
    (tx ++ [.compactRead] ++ tx ++ List.replicate 6 .compactStep)).get okG

/-- **Counterexample (run list read before the writer lock)**: transaction 1 is committed and
    acknowledged, yet after the compaction it is neither in the published runs nor in the segments, and
    a fresh, undisturbed snapshot does not show it. -/
theorem C03_counterexample_stale_run_list :
    Reach (init false true) stG ∧ stG.w = .idle ∧ stG.committed = 2 ∧ stG.runs = [] ∧ stG.segs = [0] ∧
    ¬ (∀ k, k < stG.committed → k ∈ stG.runs ++ stG.segs) := by
  refine ⟨reach_of_runTrace _ .refl (Option.some_get okG).symm, by decide, by decide, by decide, by decide, ?_⟩
  intro h
  have := h 1 (by decide)
  revert this
  decide


private theorem okA : (runTrace (init false) (tx ++ tx ++ List.replicate 5 .compactStep ++ snap 0)).isSome = true := by decide
private theorem okB : (runTrace (init false) (tx ++ [.commitStep, .commitStep] ++ snap 0)).isSome = true := by decide
private theorem okC1 : (runTrace (init false) (tx ++ compaction ++ snap 0)).isSome = true := by decide
private theorem okC2 : (runTrace (init false) (tx ++ compaction ++ snap 0 ++ tx ++ compaction)).isSome = true := by decide
private theorem okD : (runTrace (init true) (tx ++ snap 0 ++ tx)).isSome = true := by decide
private theorem okE : (runTrace (init false) (tx ++ [.readStep 0, .readStep 0] ++ tx ++ List.replicate 3 (.readStep 0))).isSome = true := by decide
private theorem okF : (runTrace (init false) (tx ++ [.readStep 0] ++ tx ++ List.replicate 4 (.readStep 0))).isSome = true := by decide

/-- state after: two commits; compaction up to and including `clearRuns`; a whole snapshot -/
def stA : State := (runTrace (init false) (tx ++ tx ++ List.replicate 5 .compactStep ++ snap 0)).get okA
def stB : State := (runTrace (init false) (tx ++ [.commitStep, .commitStep] ++ snap 0)).get okB
def stC1 : State := (runTrace (init false) (tx ++ compaction ++ snap 0)).get okC1
def stC2 : State := (runTrace (init false) (tx ++ compaction ++ snap 0 ++ tx ++ compaction)).get okC2
def stD : State := (runTrace (init true) (tx ++ snap 0 ++ tx)).get okD
def stE : State := (runTrace (init false) (tx ++ [.readStep 0, .readStep 0] ++ tx ++ List.replicate 3 (.readStep 0))).get okE
def stF : State := (runTrace (init false) (tx ++ [.readStep 0] ++ tx ++ List.replicate 4 (.readStep 0))).get okF

/-- the view of snapshot 0 in a state (default view if absent) -/
def view0 (s : State) : View := match s.snaps 0 with
  | some σ => view s σ
  | none => ⟨0, 0, [], [], []⟩
def window0 (s : State) : Nat × Nat := match s.snaps 0 with
  | some σ => (σ.lo, σ.hi)
  | none => (0, 0)

/-- the fields snapshot 0 copied (everything except the ghost fields) -/
def copied0 (s : State) : Option (Nat × List Nat × List Nat × Nat × Bool) :=
  (s.snaps 0).map (fun σ => (σ.i2e, σ.runs, σ.segs, σ.nlabels, σ.root))

/-- **(a) compaction window** `clearRuns; ⟨snapshot⟩; setSegments`: both committed edges are in neither
    the runs nor the segments the snapshot copied. -/
theorem C03_counterexample_compact_window :
    Reach (init false) stA ∧ window0 stA = (2, 2) ∧ view0 stA = ⟨2, 2, [], [1, 0], []⟩ ∧
    ¬ ∃ c, Shows false (view0 stA) c := by
  refine ⟨reach_of_runTrace _ .refl (Option.some_get okA).symm, by decide, by decide, ?_⟩
  rw [show view0 stA = ⟨2, 2, [], [1, 0], []⟩ by decide]
  rintro ⟨c, h1, _, h3, _⟩
  have := (h3 0).mpr (by simp at h1; omega)
  simp at this

/-- **(b) commit window** `idmapApply; ⟨snapshot⟩; publishNodeLabels; publishRun`: the snapshot
    enumerates the new node without its label, property and edge. -/
theorem C03_counterexample_commit_window :
    Reach (init false) stB ∧ window0 stB = (1, 1) ∧ view0 stB = ⟨2, 1, [0], [0], []⟩ ∧
    ¬ ∃ c, Shows false (view0 stB) c := by
  refine ⟨reach_of_runTrace _ .refl (Option.some_get okB).symm, by decide, by decide, ?_⟩
  rw [show view0 stB = ⟨2, 1, [0], [0], []⟩ by decide]
  rintro ⟨c, h1, h2, _⟩
  simp at h1 h2; omega

/-- **(c) properties sunk in place under an old root**: the snapshot was consistent and complete
    (`stC1`), then a later commit and compaction change what it shows (`stC2`) — not stable. -/
theorem C03_counterexample_props_sunk_in_place :
    Reach (init false) stC1 ∧ Reach (init false) stC2 ∧ window0 stC2 = (1, 1) ∧
    view0 stC1 = ⟨1, 1, [0], [0], []⟩ ∧ view0 stC2 = ⟨1, 1, [0], [1, 0], []⟩ ∧
    copied0 stC1 = copied0 stC2 ∧ ¬ ∃ c, Shows false (view0 stC2) c := by
  refine ⟨reach_of_runTrace _ .refl (Option.some_get okC1).symm,
    reach_of_runTrace _ .refl (Option.some_get okC2).symm, by decide, by decide, by decide, ?_, ?_⟩
  · decide
  · rw [show view0 stC2 = ⟨1, 1, [0], [1, 0], []⟩ by decide]
    rintro ⟨c, h1, _, _, h4, _⟩
    have := (h4 1).mp (by simp)
    simp at h1; omega

/-- **(d) live index**: `lookup_index` on an old snapshot finds a node committed later. -/
theorem C03_counterexample_index_live :
    Reach (init true) stD ∧ window0 stD = (1, 1) ∧ view0 stD = ⟨1, 1, [0], [0], [1, 0]⟩ ∧
    ¬ ∃ c, Shows true (view0 stD) c := by
  refine ⟨reach_of_runTrace _ .refl (Option.some_get okD).symm, by decide, by decide, ?_⟩
  rw [show view0 stD = ⟨1, 1, [0], [0], [1, 0]⟩ by decide]
  rintro ⟨c, h1, _, _, _, h5⟩
  have := ((h5 1).mp (by simp)).2
  simp at h1; omega

/-- **(e) commit between the field reads of `begin_read`** (`readRuns; ⟨commit⟩; readNodeLabels`): labels
    of a transaction whose node and run the snapshot lacks. -/
theorem C03_counterexample_begin_read_window :
    Reach (init false) stE ∧ window0 stE = (1, 2) ∧ view0 stE = ⟨1, 2, [0], [0], []⟩ ∧
    ¬ ∃ c, Shows false (view0 stE) c := by
  refine ⟨reach_of_runTrace _ .refl (Option.some_get okE).symm, by decide, by decide, ?_⟩
  rw [show view0 stE = ⟨1, 2, [0], [0], []⟩ by decide]
  rintro ⟨c, h1, h2, _⟩
  simp at h1 h2; omega

/-- **(f) commit between the node-table scan and `begin_read`**: edges and properties of a node that
    `nodes()` does not enumerate. -/
theorem C03_counterexample_i2e_window :
    Reach (init false) stF ∧ window0 stF = (1, 2) ∧ view0 stF = ⟨1, 2, [1, 0], [1, 0], []⟩ ∧
    ¬ ∃ c, Shows false (view0 stF) c := by
  refine ⟨reach_of_runTrace _ .refl (Option.some_get okF).symm, by decide, by decide, ?_⟩
  rw [show view0 stF = ⟨1, 2, [1, 0], [1, 0], []⟩ by decide]
  rintro ⟨c, h1, h2, _⟩
  simp at h1 h2; omega

/-- hence the full-strength statement is false -/
theorem C03_full_is_false : ¬ C03_full := by
  intro h
  obtain ⟨hr, _, hv, hno⟩ := C03_counterexample_commit_window
  have hs : ∃ σ, stB.snaps 0 = some σ ∧ σ.pc = 5 ∧ view stB σ = view0 stB := by
    cases hσ : stB.snaps 0 with
    | none => exact absurd hσ (by decide)
    | some σ =>
      have hp : (stB.snaps 0).map (·.pc) = some 5 := by decide
      rw [hσ] at hp
      exact ⟨σ, rfl, by simpa using hp, by simp [view0, hσ]⟩
  obtain ⟨σ, hσ, hpc, hview⟩ := hs
  obtain ⟨c, _, _, hc⟩ := (h false stB hr).1 0 σ hσ hpc
  have hidx : stB.hasIndex = false := by decide
  rw [hview, hidx] at hc
  exact hno ⟨c, hc⟩

/-! non-vacuity of `C03_partial`: a long-lived clean snapshot spanning two later commits, taken after a
    compaction, with an index — all hypotheses hold and it still shows exactly transaction 0 -/
private theorem okN : (runTrace (init false) (tx ++ compaction ++ snap 0 ++ tx ++ tx ++ snap 1)).isSome = true := by decide
private def stN : State := (runTrace (init false) (tx ++ compaction ++ snap 0 ++ tx ++ tx ++ snap 1)).get okN
example : Reach (init false) stN ∧ (stN.snaps 0).map (noTrigger stN) = some true ∧
    (stN.snaps 1).map (noTrigger stN) = some true ∧ stN.committed = 3 ∧
    view0 stN = ⟨1, 1, [0], [0], []⟩ :=
  ⟨reach_of_runTrace _ .refl (Option.some_get okN).symm, by decide, by decide, by decide, by decide⟩

end Nervus.Props.C03
