/-
  C15 — Indexes never change query results.
  Statements only (helper lemmas: Nervus.Proofs.Index, Nervus.Proofs.IndexKey).
  Model: Nervus.Model.Index (commit's IndexOp phase, create_index, lookup_index, compaction /
  reopen of the read view, match_compile's IndexSeek planning, execute_index_seek, NodeScan);
  the four repaired behaviours are read from the regenerated table Generated/IndexFlags.
  Spec: Nervus.Spec.IndexFree (the same history without its create_index calls answers alike).
-/
import Nervus.Proofs.IndexKey
import Nervus.Proofs.IndexCatalog
namespace Nervus.Props.C15
open Nervus Nervus.OKey Nervus.Index

/-- **C15 at full strength**: for every (well-formed) history and every query the rows with and
    without the indexes are equal.  Not provable: see the two `counterexample_*` theorems on the
    current tree (known findings) and the four on the pinned tree (repaired). -/
def C15_full (cfg : Cfg) : Prop := ∀ h : List Op, WF h = true → Transparent cfg h

/-- the four `fix:` commits are present in the source (table regenerated on every run) -/
theorem fixes_present : Cfg.current = Cfg.fixed := by decide

/-- **C15 (partial)**: for EVERY history — creates, overwrites, duplicate values, removals, deletes,
    label removals, index creation at any point (before or after the data), compactions, reopens —
    that stays outside the known triggers (`_hS` excludes index keys that do not fit a B-tree cell:
    the code panics there, the model has no such path, so the hypothesis is not used by the proof),
    and every equality-lookup query (any labels, any
    number of properties, any value kind), the rows with the indexes equal the rows without, in
    the same order.  Induction over the history with the index-content invariant `Inv`. -/
theorem C15_partial (h : List Op) (hwf : WF h = true)
    (hD : trigNonFirstLabel h = false) (hF : trigRemCompact h = false)
    (_hS : trigOversizedKey h = false) :
    Transparent Cfg.current h := by
  rw [fixes_present]; exact transparent_of_clean h hwf hD hF

/-- the invariant behind it, for every clean history: each index holds exactly one entry
    `([id][enc v][n], n)` per node `n` — tombstoned or not — whose creation label is the index
    label and whose indexed property currently reads `v`; nothing else, nothing twice -/
theorem index_content (h : List Op) (hwf : WF h = true)
    (hD : trigNonFirstLabel h = false) (hF : trigRemCompact h = false)
    (d : IndexDef) (hd : d ∈ (run Cfg.current h).indexes) :
    d.entries.Nodup ∧ ∀ b n, (b, n) ∈ d.entries ↔
      (n < (run Cfg.current h).nodes.length ∧ (run Cfg.current h).first n = some d.label ∧
        ∃ v, (run Cfg.current h).prop n d.key = some v ∧ b = encIndexKey d.id v n) := by
  rw [fixes_present] at hd ⊢
  obtain ⟨m, hinv⟩ := clean_inv h hwf hD hF
  exact hinv.good d hd

/-- `lookup_index` = prefix scan is exact (through C27's `prefix_free` and `equality_iff`): after a
    clean history it returns precisely the nodes with the index label as creation label whose stored
    value equals the lookup value — for all valid values, `1`/`1.0` and `-0.0`/`+0.0` included -/
theorem lookup_exact (h : List Op) (hwf : WF h = true)
    (hD : trigNonFirstLabel h = false) (hF : trigRemCompact h = false)
    (l : Label) (k : Key) (v : OV) (hv : Valid v)
    (hvals : ∀ n v', (run Cfg.current h).prop n k = some v' → Valid v')
    (ids : List Nat) (hl : lookupIndex (run Cfg.current h) l k v = some ids) (n : Nat) :
    n ∈ ids ↔ (n < (run Cfg.current h).nodes.length ∧ (run Cfg.current h).first n = some l ∧
      ∃ v', (run Cfg.current h).prop n k = some v' ∧ eqv v' v) := by
  rw [fixes_present] at hvals hl ⊢
  obtain ⟨m, hinv⟩ := clean_inv h hwf hD hF
  exact lookup_exact_of_inv m _ hinv l k v hv hvals ids hl n

/-! ### non-vacuity: a clean history that exercises everything the theorem covers -/

def lA : Label := 65
def lB : Label := 66
def kp : Key := 112
def kq : Key := 113
def sa : OV := .str [0x61]
def sb : OV := .str [0x62]
def one : OV := .int 1
def onef : OV := .float 0x3ff0000000000000

/-- data before the index, duplicates, 1 / 1.0, an overwrite back and forth, a delete, a label
    removal, a compaction, both kinds of reopen, a second index -/
def hClean : List Op := [
  .commit [.node (some lA), .set 0 kp sa, .node (some lA), .set 1 kp sa, .node (some lB), .set 2 kp sa],
  .commit [.node (some lA), .set 3 kp one, .node (some lA), .set 4 kp onef],
  .index lA kp,
  .commit [.set 0 kp sb], .commit [.set 0 kp sa],
  .commit [.del 1], .commit [.labelDel 3 lA],
  .compact, .reopen true,
  .commit [.node (some lA), .set 5 kp sa, .set 5 kq one, .labelAdd 5 lA],
  .index lA kq, .reopen false ]

example : WF hClean = true ∧ trigNonFirstLabel hClean = false ∧ trigRemCompact hClean = false ∧
    trigOversizedKey hClean = false := by
  decide +kernel

/-- the seek really answers from the index there.  Before the compaction the deleted node 1 and the
    un-labelled node 3 are skipped; afterwards both are back *in both plans* (compaction drops node
    tombstones, reopen forgets label removals — C05 / C04, not an index matter) -/
example : usesIndex (run Cfg.fixed hClean) ⟨[lA], [(kp, sa)]⟩ = true ∧
    queryRows Cfg.fixed (run Cfg.fixed (hClean.take 7)) ⟨[lA], [(kp, sa)]⟩ = [0] ∧
    queryRows Cfg.fixed (run Cfg.fixed (hClean.take 7)) ⟨[lA], [(kp, one)]⟩ = [4] ∧
    queryRows Cfg.fixed (run Cfg.fixed hClean) ⟨[lA], [(kp, sa)]⟩ = [0, 1, 5] ∧
    queryRows Cfg.fixed (run Cfg.fixed hClean) ⟨[lA], [(kp, one)]⟩ = [3, 4] := by
  decide +kernel

/-! ### counterexamples on the current tree (KNOWN findings; witnesses in corpus/index) -/

def hNonFirst : List Op := [
  .index lB kp,
  .commit [.node (some lB), .set 0 kp sa],
  .commit [.node (some lA), .labelAdd 1 lB, .set 1 kp sa] ]

/-- C15-nonfirst-label: `CREATE (:A:B {p:'a'})` is not in the index on `B.p` -/
theorem counterexample_nonfirst_label :
    WF hNonFirst = true ∧ trigNonFirstLabel hNonFirst = true ∧ trigRemCompact hNonFirst = false ∧
    queryRows Cfg.fixed (run Cfg.fixed hNonFirst) ⟨[lB], [(kp, sa)]⟩ = [0] ∧
    queryRows Cfg.fixed (run Cfg.fixed (stripIndex hNonFirst)) ⟨[lB], [(kp, sa)]⟩ = [0, 1] := by
  decide +kernel

def hResurrect : List Op := [
  .index lA kp,
  .commit [.node (some lA), .set 0 kp sa],
  .commit [.node (some lA), .set 1 kp sa],
  .compact,
  .commit [.rem 0 kp] ]

/-- C15-removed-prop-resurrects: after compaction a removed property still reads from the property
    store, the index entry is gone -/
theorem counterexample_removed_prop_resurrects :
    WF hResurrect = true ∧ trigNonFirstLabel hResurrect = false ∧ trigRemCompact hResurrect = true ∧
    queryRows Cfg.fixed (run Cfg.fixed hResurrect) ⟨[lA], [(kp, sa)]⟩ = [1] ∧
    queryRows Cfg.fixed (run Cfg.fixed (stripIndex hResurrect)) ⟨[lA], [(kp, sa)]⟩ = [0, 1] := by
  decide +kernel

/-- hence the full-strength statement is false of the current tree -/
theorem C15_full_false : ¬ C15_full Cfg.fixed := by
  intro h
  have := h hNonFirst (by decide +kernel) ⟨[lB], [(kp, sa)]⟩
  rw [counterexample_nonfirst_label.2.2.2.1, counterexample_nonfirst_label.2.2.2.2] at this
  cases this

/-! ### counterexamples on the pinned tree (each cause alone: one repair switched off) -/

def hLate : List Op := [
  .commit [.node (some lA), .set 0 kp sa],
  .index lA kp,
  .commit [.node (some lA), .set 1 kp sa] ]

/-- C15-late-index (repaired: backfill): 2 rows without the index, 1 with it -/
theorem counterexample_late_index :
    let cfg : Cfg := { Cfg.fixed with backfill := false }
    trigLateIndex cfg hLate = true ∧
    queryRows cfg (run cfg hLate) ⟨[lA], [(kp, sa)]⟩ = [1] ∧
    queryRows cfg (run cfg (stripIndex hLate)) ⟨[lA], [(kp, sa)]⟩ = [0, 1] := by
  decide +kernel

def hIntFloat : List Op := [
  .index lA kp,
  .commit [.node (some lA), .set 0 kp one],
  .commit [.node (some lA), .set 1 kp onef] ]

/-- C15-int-float (repaired: numeric values scan): `1 = 1.0` but the keys differ -/
theorem counterexample_int_float :
    let cfg : Cfg := { Cfg.fixed with numFallback := false }
    queryRows cfg (run cfg hIntFloat) ⟨[lA], [(kp, one)]⟩ = [0] ∧
    queryRows cfg (run cfg (stripIndex hIntFloat)) ⟨[lA], [(kp, one)]⟩ = [0, 1] := by
  decide +kernel

def hDeleted : List Op := [
  .index lA kp,
  .commit [.node (some lA), .set 0 kp sa],
  .commit [.del 0] ]

/-- C15-deleted-node (repaired: liveness check in the seek) -/
theorem counterexample_deleted_node :
    let cfg : Cfg := { Cfg.fixed with seekLive := false }
    trigDelete hDeleted = true ∧
    queryRows cfg (run cfg hDeleted) ⟨[lA], [(kp, sa)]⟩ = [0] ∧
    queryRows cfg (run cfg (stripIndex hDeleted)) ⟨[lA], [(kp, sa)]⟩ = [] := by
  decide +kernel

def hDup : List Op := [
  .index lA kp,
  .commit [.node (some lA), .set 0 kp sa],
  .commit [.node (some lA), .set 1 kp sa],
  .commit [.node (some lA), .set 2 kp sa],
  .commit [.set 0 kp sb],
  .commit [.set 0 kp sa] ]

/-- C15-dup-delete-miss (repaired: node id in the key): the delete of `(a,0)` misses inside the run
    of equal keys, the node is returned twice -/
theorem counterexample_dup_delete_miss :
    let cfg : Cfg := { Cfg.fixed with compositeKey := false }
    trigDupValues hDup = true ∧
    queryRows cfg (run cfg hDup) ⟨[lA], [(kp, sa)]⟩ = [0, 0, 1, 2] ∧
    queryRows cfg (run cfg (stripIndex hDup)) ⟨[lA], [(kp, sa)]⟩ = [0, 1, 2] := by
  decide +kernel

/-- with all four repairs the same four histories are transparent (they are clean) -/
example : Transparent Cfg.current hLate ∧ Transparent Cfg.current hDeleted ∧
    Transparent Cfg.current hDup ∧ Transparent Cfg.current hIntFloat :=
  ⟨C15_partial _ (by decide +kernel) (by decide +kernel) (by decide +kernel) (by decide +kernel),
   C15_partial _ (by decide +kernel) (by decide +kernel) (by decide +kernel) (by decide +kernel),
   C15_partial _ (by decide +kernel) (by decide +kernel) (by decide +kernel) (by decide +kernel),
   C15_partial _ (by decide +kernel) (by decide +kernel) (by decide +kernel) (by decide +kernel)⟩

/-! ### the index roots survive reopen, whatever operation moved them

`Model/Index.reopen` keeps every index's content: it assumes that the roots `GraphEngine::open` reads
from the catalog page are the roots the engine was using.  That assumption is this theorem (over
`Model/IndexCatalog`: any operations, any root movements, the flush condition regenerated from the
"Apply Index Updates" block of `commit`). -/

section catalog
open Nervus.IndexCatalog

/-- the catalog page is written unconditionally after the index operations of a commit, or under a
    flag that accumulates `tree.root() != re.root` after every insert (regenerated; the recogniser
    fails on shapes it does not know) — and `create_index` records the root after its backfill -/
theorem catalog_flush_sound : (Flush.current = .always ∨ Flush.current = .anyMoved) ∧
    backfillRecordsRoot = true := by decide

/-- **catalog_roots_durable**: after EVERY event of EVERY history — commits with any number of
    index operations on any indexes whose deletes and inserts move the roots anywhere (any oracle for
    the B-tree), index creations with backfills that move the root, reopens — the on-disk root of
    every index equals the in-memory root; so a reopen changes no root -/
theorem catalog_roots_durable (evs : List Ev) :
    (IndexCatalog.run Flush.current backfillRecordsRoot evs).disk =
      (IndexCatalog.run Flush.current backfillRecordsRoot evs).mem ∧
    IndexCatalog.reopen (IndexCatalog.run Flush.current backfillRecordsRoot evs) =
      IndexCatalog.run Flush.current backfillRecordsRoot evs := by
  have h := run_synced Flush.current catalog_flush_sound.1 evs ⟨[], []⟩ rfl
  rw [catalog_flush_sound.2]
  refine ⟨h, ?_⟩
  unfold IndexCatalog.reopen IndexCatalog.run
  generalize List.foldl (IndexCatalog.step Flush.current true) ⟨[], []⟩ evs = c at h
  obtain ⟨m, d⟩ := c
  simp only at h
  subst h; rfl

/-- C15-seed2's shape (`root_moved = …`, plain assignment): a root split by a non-last operation of
    the commit is lost — the disk keeps root 10 while the engine uses 11 -/
theorem counterexample_flush_last_op_only :
    let c := IndexCatalog.run .lastMoved true
      [.createIndex 3 10 10, .commit [⟨3, 10, 11⟩, ⟨3, 11, 11⟩]]
    c.mem = [(3, 11)] ∧ c.disk = [(3, 10)] ∧ (IndexCatalog.reopen c).mem = [(3, 10)] := by decide

/-- C18-seed2's shape (flag computed before the insert of an Update): a split during a SET on an
    existing node is lost -/
theorem counterexample_flush_flag_before_insert :
    let c := IndexCatalog.run .beforeInsert true
      [.createIndex 3 10 10, .commit [⟨3, 10, 11⟩]]
    c.mem = [(3, 11)] ∧ c.disk = [(3, 10)] := by decide

/-- non-vacuity: the same two histories under the current policy -/
example :
    (IndexCatalog.run Flush.current backfillRecordsRoot
      [.createIndex 3 10 12, .commit [⟨3, 12, 13⟩, ⟨3, 13, 13⟩, ⟨4, 0, 0⟩], .reopen, .commit [⟨3, 13, 14⟩]]).disk
      = [(3, 14)] := by decide

end catalog

end Nervus.Props.C15
