/-
  C31 — Vector search is sound and durable.
  Statements only (helper lemmas: Nervus.Proofs.Hnsw{Heap,Search,Top,Graph,History}).
  Model: Nervus.Model.Hnsw (HnswIndex::{insert, search_layer, select_neighbors, search},
  GraphEngine::search_vector; abstract distance, levels as input, repairs read from the regenerated
  table Generated/HnswFlags).  Spec: Nervus.Spec.VectorSearch (`Sound`, `Exact`, `bruteForce`).
  The f32 value of the Euclidean distance is NOT in these theorems (stream `hnsw`: brute-force
  recomputation on the real code).  Durability is proved at the level of the persistent store
  (Model/HnswStore over builder btree's B-tree model): `durable_*` below; that the B-tree behind a
  given root answers like the map of Model/Hnsw is C26's refinement, not re-proved here.
-/
import Nervus.Proofs.HnswHistory
import Nervus.Proofs.HnswStore
import Nervus.Proofs.HnswBlob
import Nervus.Model.BTreeReal
namespace Nervus.Props.C31
open Nervus Nervus.Hnsw

variable {V D : Type}

/-- **C31 at full strength** (the part a model can state): after every history of vector writes
    (re-writes included), deletions and compactions, every `search_vector` answer is sound and —
    when the index holds at most `2m+1` vectors (and `ef_search` is not configured below that) —
    exactly the k nearest.  False: `counterexample_reinsert`. -/
def C31_full (sp : Space V D) (p : Params) : Prop :=
  ∀ (ops : List (EOp V)) (st : EState V), erun sp p ops EState.init = .ok st →
    ∀ (q : V) (k : Nat) (r : List (D × Nat)), searchVector Cfg.current sp p st.ix st.tomb q k = .ok r →
      Sound sp st.ix st.tomb q k r ∧
      ((storedIds st.ix).length ≤ 2 * p.m + 1 → (storedIds st.ix).length ≤ p.efS →
        Exact sp st.ix st.tomb q k r)

/-- the two modelled `fix:` commits are present in the source (table regenerated on every run) -/
theorem fixes_present : Cfg.current = Cfg.fixed := by decide

/-- **soundness, for ANY distance and ANY index state** (whatever sequence of inserts, re-inserts,
    levels and truncations produced it, however broken its graph): at most k results, distinct
    ids, every id has a stored vector and carries `dist query vector`, no tombstoned node,
    distances non-decreasing -/
theorem sound (sp : Space V D) (law : sp.Lawful) (p : Params) (ix : Index V) (tomb : List Nat) (q : V)
    (k : Nat) (r : List (D × Nat)) (h : searchVector Cfg.current sp p ix tomb q k = .ok r) :
    Sound sp ix tomb q k r := by
  rw [fixes_present] at h; exact searchVector_sound law p ix tomb q k r h

/-- **exactness on a connected base layer**: if layer 0 links only stored ids and every stored id
    reaches every other, and `ef_search ≥ n`, the answer is exactly the first k of the brute-force
    ranking of the existing nodes (ties broken by id, as the heap does) -/
theorem exact_of_connected (sp : Space V D) (law : sp.Lawful) (p : Params) (ix : Index V)
    (hc : Connected0 ix) (hent : ix.entry = none → storedIds ix = [])
    (hef : (storedIds ix).length ≤ p.efS) (tomb : List Nat) (q : V) (k : Nat) (r : List (D × Nat))
    (h : searchVector Cfg.current sp p ix tomb q k = .ok r) :
    r = (bruteForce sp ix tomb q).take k := by
  rw [fixes_present] at h; exact searchVector_exact law p ix hc hef hent tomb q k r h

/-- **connectivity is an invariant of `insert`** for a first-time insert while the index holds at
    most `2m` other vectors — for any distance, any level: no truncation branch can fire, the base
    layer stays symmetric, duplicate-free and connected -/
theorem insert_keeps_connected (sp : Space V D) (p : Params) (ix : Index V) (hc : Conn ix) (id : Nat) (v : V)
    (level : Nat) (hid : id ∉ storedIds ix) (hn : (storedIds ix).length + 1 ≤ 2 * p.m + 1)
    (hefc : 1 ≤ p.efC) (ix' : Index V) (h : insert sp p ix id v level = .ok ix') :
    Conn ix' ∧ ∀ j, j ∈ storedIds ix' ↔ (j = id ∨ j ∈ storedIds ix) :=
  insert_conn sp p ix hc id v level hid (by omega) hefc ix' h

/-- **C31 (partial)**: every history in which each id receives its vector once (trigger
    `C31-reinsert-disconnects` excluded) and that stores at most `2m+1` vectors — any vectors, any
    distance, any levels, ties, duplicates, any interleaving of node deletions and compactions —
    answers every search soundly and with exactly the k nearest existing nodes -/
theorem C31_partial (sp : Space V D) (law : sp.Lawful) (p : Params) (ops : List (EOp V))
    (hfirst : (vecIds ops).Nodup) (hsmall : (vecIds ops).length ≤ 2 * p.m + 1)
    (hefs : (vecIds ops).length ≤ p.efS) (hefc : 1 ≤ p.efC)
    (st : EState V) (hrun : erun sp p ops EState.init = .ok st)
    (q : V) (k : Nat) (r : List (D × Nat)) (h : searchVector Cfg.current sp p st.ix st.tomb q k = .ok r) :
    Sound sp st.ix st.tomb q k r ∧ r = (bruteForce sp st.ix st.tomb q).take k ∧
      Exact sp st.ix st.tomb q k r := by
  obtain ⟨hconn, hlen⟩ := erun_conn (sp := sp) p hefc ops EState.init st conn_empty hfirst
    (by intro id _ hin; simp [EState.init, storedIds, Index.empty, dedupIds] at hin)
    (by simp [EState.init, storedIds, Index.empty, dedupIds]; omega) hrun
  have hlen' : (storedIds st.ix).length = (vecIds ops).length := by
    rw [hlen]; simp [EState.init, storedIds, Index.empty, dedupIds]
  have hex := exact_of_connected sp law p st.ix hconn.connected0 hconn.entry_none (by omega) st.tomb q k r h
  exact ⟨sound sp law p st.ix st.tomb q k r h, hex, by unfold Exact; rw [hex]⟩

/-! ### non-vacuity (the stream's concrete space: integer half-unit coordinates, squared distance) -/

def pSmall : Params := ⟨2, 200, 200⟩

/-- five vectors = 2m+1, with a tie (ids 1 and 3 are equidistant from the query), a duplicate vector
    (ids 0 and 4), levels 0‥2, a deleted node and a compaction in between -/
def opsClean : List (EOp Vec) := [
  .vec 0 0 [0, 0], .vec 1 2 [2, 0], .vec 2 0 [4, 4], .del 1, .vec 3 1 [0, 2], .compact, .vec 4 0 [0, 0], .del 2 ]

example : (vecIds opsClean).Nodup ∧ (vecIds opsClean).length ≤ 2 * pSmall.m + 1 := by decide

/-- the model runs it, finds all four live nodes in brute-force order and skips the deleted one -/
example :
    ((erun intSpace pSmall opsClean EState.init).toOption.bind fun st =>
      (searchVector Cfg.fixed intSpace pSmall st.ix st.tomb [1, 1] 10).toOption)
      = some [(2, 0), (2, 1), (2, 3), (2, 4)] := by decide +kernel

example : (intSpace).Lawful := intSpace_lawful

/-! ### counterexample on the current tree (KNOWN finding; witness corpus/hnsw/reinsert-disconnects.ops) -/

def pOne : Params := ⟨1, 200, 200⟩

def opsReinsert : List (EOp Vec) := [.vec 0 0 [0, 0], .vec 1 0 [2, 0], .vec 2 0 [4, 0], .vec 1 0 [2, 0]]

/-- C31-reinsert-disconnects: writing the vector of node 1 again replaces its adjacency by its
    single nearest stored id — itself; node 2 is no longer reachable from the entry point and a
    search over 3 = 2m+1 vectors misses the nearest one -/
theorem counterexample_reinsert :
    ((erun intSpace pOne opsReinsert EState.init).toOption.bind fun st =>
      (searchVector Cfg.fixed intSpace pOne st.ix st.tomb [4, 0] 3).toOption) = some [(4, 1), (16, 0)] ∧
    ((erun intSpace pOne opsReinsert EState.init).toOption.map fun st =>
      ((bruteForce intSpace st.ix st.tomb [4, 0]).take 3, (storedIds st.ix).length))
      = some ([(0, 2), (4, 1), (16, 0)], 3) ∧
    (vecIds opsReinsert).Nodup = False := by
  refine ⟨by decide +kernel, by decide +kernel, ?_⟩
  simp [opsReinsert, vecIds]

/-- hence the full-strength statement is false of the current tree -/
theorem C31_full_false : ¬ C31_full intSpace pOne := by
  intro hfull
  obtain ⟨h1, h2, _⟩ := counterexample_reinsert
  cases he : erun intSpace pOne opsReinsert EState.init with
  | error e => rw [he] at h1; simp [Except.toOption] at h1
  | ok st =>
    rw [he] at h1 h2
    simp only [Except.toOption, Option.bind_some, Option.map_some, Option.some.injEq, Prod.mk.injEq] at h1 h2
    cases hs : searchVector Cfg.fixed intSpace pOne st.ix st.tomb [4, 0] 3 with
    | error e => rw [hs] at h1; simp at h1
    | ok r =>
      rw [hs] at h1
      simp only [Option.some.injEq] at h1
      have := (hfull opsReinsert st he [4, 0] 3 r (by rw [fixes_present]; exact hs)).2
        (by rw [h2.2]; decide) (by rw [h2.2]; decide)
      unfold Exact at this
      rw [h2.1, h1] at this
      revert this; decide

/-! ### counterexamples on the pinned tree (repaired; witnesses corpus/hnsw/{k-zero,deleted-node}.ops) -/

def opsTwo : List (EOp Vec) := [.vec 0 0 [0, 0], .vec 1 0 [2, 0]]

/-- C31-k-zero (repaired): `search(query, 0)` returned one node (pinned tree: neither repair) -/
theorem counterexample_k_zero :
    ((erun intSpace pSmall opsTwo EState.init).toOption.bind fun st =>
      (searchVector Cfg.pinned intSpace pSmall st.ix st.tomb [1, 0] 0).toOption)
      = some [(1, 0)] := by decide +kernel

/-- C31-deleted-node (repaired): a deleted node was still returned -/
theorem counterexample_deleted_node :
    ((erun intSpace pSmall (opsTwo ++ [.del 0]) EState.init).toOption.bind fun st =>
      (searchVector { Cfg.fixed with skipTomb := false } intSpace pSmall st.ix st.tomb [0, 0] 2).toOption)
      = some [(0, 0), (4, 1)] ∧
    ((erun intSpace pSmall (opsTwo ++ [.del 0]) EState.init).toOption.bind fun st =>
      (searchVector Cfg.fixed intSpace pSmall st.ix st.tomb [0, 0] 2).toOption) = some [(4, 1)] := by
  constructor <;> decide +kernel

/-! ### durability: what the next `open` loads is what the running engine uses -/

section durability
open Nervus.BTree Nervus.HnswStore
variable {κ : Type} [KeyOrd κ]

/-- the root write-back of `insert_vector` is present in the source (regenerated) -/
theorem roots_written_back : rootsWrittenBack = true := by decide

/-- **durability of the two system B-trees**: after ANY history of successful engine inserts — any
    keys, any payloads, any number of leaf / internal / root splits, any page size — the catalog
    records the roots in use, so reopening changes nothing at all in the store the index reads -/
theorem durable_store (c : BTree.Cfg) (ops : List (List (κ × Nat) × List (κ × Nat))) (s : Store κ)
    (h : runStore rootsWrittenBack c (Store.create c) ops = (s, true)) : s.reopen = s := by
  rw [roots_written_back] at h
  obtain ⟨hv, hg⟩ := runStore_synced c ops _ s (create_synced c) (create_synced c) h
  exact store_reopen_of_synced s hv hg

/-- … hence every `get_vector` / `get_neighbors` / `get_meta` (a `lookup`) answers the same after
    the reopen, and so does every search built from them -/
theorem durable_reads (c : BTree.Cfg) (ops : List (List (κ × Nat) × List (κ × Nat))) (s : Store κ)
    (h : runStore rootsWrittenBack c (Store.create c) ops = (s, true)) (k : κ) :
    lookup c s.reopen.vec.tree k = lookup c s.vec.tree k ∧
    lookup c s.reopen.graph.tree k = lookup c s.graph.tree k := by
  rw [durable_store c ops s h]; exact ⟨rfl, rfl⟩

/-- non-vacuity / C31-root-split-reopen (repaired): on a 64-byte page six vector writes split the
    root; with the write-back the reopened store still finds all six keys … -/
example :
    let s := (runStore true (BTree.Cfg.small 64) (Store.create (BTree.Cfg.small 64) : Store Nat)
      [([(1, 10), (2, 20), (3, 30)], []), ([(4, 40), (5, 50), (6, 60)], [])]).1
    s.vec.tree.root ≠ (Store.create (BTree.Cfg.small 64) : Store Nat).vec.tree.root ∧
    [1, 2, 3, 4, 5, 6].map (fun k => lookup (BTree.Cfg.small 64) s.reopen.vec.tree k) =
      [.ok (some 10), .ok (some 20), .ok (some 30), .ok (some 40), .ok (some 50), .ok (some 60)] := by
  decide +kernel

/-- … without it (pinned tree) the reopened store reads through the old root and has lost three -/
theorem counterexample_root_split_reopen :
    let s := (runStore false (BTree.Cfg.small 64) (Store.create (BTree.Cfg.small 64) : Store Nat)
      [([(1, 10), (2, 20), (3, 30)], []), ([(4, 40), (5, 50), (6, 60)], [])]).1
    [1, 2, 3, 4, 5, 6].map (fun k => lookup (BTree.Cfg.small 64) s.vec.tree k) =
      [.ok (some 10), .ok (some 20), .ok (some 30), .ok (some 40), .ok (some 50), .ok (some 60)] ∧
    [1, 2, 3, 4, 5, 6].map (fun k => lookup (BTree.Cfg.small 64) s.reopen.vec.tree k) =
      [.ok (some 10), .ok (some 20), .ok (some 30), .ok none, .ok none, .ok none] := by
  decide +kernel

end durability

/-! ### the blob layer under the stores: what is stored is what is read back (cold cache) -/

section blob
open Nervus.HnswBlob

/-- `get_vector` / `get_neighbors` decode the concatenated blob, not page by page (regenerated from
    index/hnsw/storage.rs; the recogniser fails on shapes it does not know) -/
theorem decoders_use_concat : decodesPerPage = false := by decide

/-- the blob page payload (regenerated from blob_store.rs) is positive — and NOT a multiple of the
    word size, which is why a per-page decoder is wrong for values longer than one page -/
theorem page_payload_facts : 1 ≤ pagePayload ∧ pagePayload % 4 ≠ 0 := by decide

/-- **stored = read back**: a vector or neighbour list of ANY length written through
    `BlobStore::write_direct` and read with a cold cache through `read_direct` + word decoding comes
    back unchanged — for the engine's page payload … -/
theorem stored_is_read_back (ws : List Nat) (hw : ∀ w, w ∈ ws → w < 2 ^ 32) :
    roundTrip decodesPerPage pagePayload ws = .ok ws := by
  rw [decoders_use_concat]; exact roundTrip_concat pagePayload page_payload_facts.1 ws hw

/-- … and for every page payload `P ≥ 1` whatsoever -/
theorem stored_is_read_back_any_page (P : Nat) (hP : 1 ≤ P) (ws : List Nat) (hw : ∀ w, w ∈ ws → w < 2 ^ 32) :
    roundTrip false P ws = .ok ws := roundTrip_concat P hP ws hw

/-- **the per-page decoder is wrong** whenever the payload is not a multiple of 4 and the value
    crosses a page: the result is strictly shorter than what was stored (C31-seed1's refactoring) -/
theorem counterexample_per_page_decoding (P : Nat) (hP4 : P % 4 ≠ 0) (ws : List Nat)
    (hcross : P < 4 * ws.length) (r : List Nat) (h : roundTrip true P ws = .ok r) : r ≠ ws := by
  intro e
  have := perPage_loses_words P hP4 ws hcross r h
  rw [e] at this; exact Nat.lt_irrefl _ this

/-- concretely, on a 6-byte page: the word straddling the boundary is dropped and the next one is
    decoded two bytes out of phase (3 becomes 3·2^16); the concatenating decoder is right -/
example : roundTrip true 6 [1, 2, 3] = .ok [1, 196608] ∧ roundTrip false 6 [1, 2, 3] = .ok [1, 2, 3] := by
  decide +kernel
/-- the engine's payload: 2046 words are one more than fit a page (instance of the theorems above) -/
example : pagePayload < 4 * 2046 ∧ 4 * 2045 ≤ pagePayload := by decide
/-- non-vacuity of `stored_is_read_back_any_page`: values of 0‥9 words over pages of 1‥9 bytes -/
example : (List.range 10).all (fun n => (List.range 9).all (fun p =>
    roundTrip false (p + 1) ((List.range n).map (· * 16843009 % 4294967296)) ==
      .ok ((List.range n).map (· * 16843009 % 4294967296)))) = true := by decide +kernel

end blob

end Nervus.Props.C31
