/-
  C29 — Backups restore a consistent committed state.
  Statements only (helper lemmas: Nervus.Proofs.BackupLTS).
  Model: Nervus.Model.BackupLTS (file-level writer steps against `copy page file; copy WAL`, recovery of
  the restored pair).  The copy order is pinned to the regenerated `Generated.BackupOrder`.
-/
import Nervus.Proofs.BackupLTS
import Nervus.Model.Generated.BackupOrder
namespace Nervus.Props.C29
open Nervus Nervus.BackupLTS

/-- **C29 at full strength**: every completed backup, whatever the writer did meanwhile, restores to
    a database that opens and shows the source's content at one instant of the backup window.
    FALSE (`C29_counterexample_compaction`, `C29_counterexample_index`). -/
def C29_full : Prop :=
  ∀ (h0 : Bool) (s : State), Reach (init h0) s → ∀ c0 c1 pf0 w1, s.bk = .done c0 c1 pf0 w1 →
    ∃ v c, recover pf0 w1 = some v ∧ c0 ≤ c ∧ c ≤ c1 ∧ Shows s.hasIndex v c

/-- the model's copy order is the order of the source; files are copied whole; the index is not logged -/
theorem backup_order_in_source :
    Generated.backupCopyOrder = ["copyNdb", "copyWal"] ∧ Generated.backupWholeFileCopies = true ∧
    Generated.indexLogged = false := by decide

/-- "no known finding is triggered" for the completed backup of state `s` (decidable) -/
def noTrigger (s : State) : Bool := !s.sawCompact && !(s.hasIndex && s.sawCommit)

/-- **Idempotent replay**: a page file that already holds the node records (and sunk properties) of
    some replayed transactions recovers to the same content as an older one that does not — replaying
    `CreateNode` on an idmap that has the node is a no-op.  (Same WAL, same segments, same index.) -/
theorem idempotent_replay (pf pf' : PF) (w : Wal)
    (hn : pf.nodes ≤ pf'.nodes) (hn' : pf'.nodes ≤ w.txs) (hs : pf'.segs = pf.segs) (hst : pf'.store = pf.store)
    (hi : pf'.index = pf.index) (hc : w.ckpt ≤ pf.nodes) : recover pf w = recover pf' w := by
  simp only [recover, hs, hst, hi]
  by_cases h1 : pf.segs < w.msegs
  · simp [h1]
  · have h2 : ¬ pf.nodes < w.ckpt := by omega
    have h3 : ¬ pf'.nodes < w.ckpt := by omega
    have h4 : max pf.nodes w.txs = max pf'.nodes w.txs := by omega
    simp only [h1, h2, h3, if_false, h4]

/-- **C29 (partial)**: for all interleavings of commits, compactions and backups — if no compaction
    step ran between the two file copies and (when an index exists) no commit step did, the restored
    pair opens and shows exactly the transactions committed when the WAL was copied: an instant inside
    the backup window that includes everything committed before the backup began. -/
theorem C29_partial (h0 : Bool) (s : State) (hr : Reach (init h0) s) (c0 c1 : Nat) (pf0 : PF) (w1 : Wal)
    (hb : s.bk = .done c0 c1 pf0 w1) (hnt : noTrigger s = true) :
    ∃ v, recover pf0 w1 = some v ∧ Shows s.hasIndex v c1 ∧ c0 ≤ c1 := by
  have hi := (reach_inv hr).bk
  simp only [BkInv, hb] at hi
  simp only [noTrigger, Bool.and_eq_true, Bool.not_eq_true', Bool.and_eq_false_iff] at hnt
  obtain ⟨h1, _, h3⟩ := hi
  obtain ⟨v, hv, hs⟩ := h3 hnt.1 (by intro hx; rcases hnt.2 with h | h; simp [hx] at h; exact h)
  exact ⟨v, hv, hs, h1⟩

/-- **Quiescent backup**: with no writer step at all during the backup, the restored database shows
    the source's content (`c0` = the transactions committed when the backup began = when it ended). -/
theorem C29_quiescent (h0 : Bool) (s : State) (hr : Reach (init h0) s) (c0 c1 : Nat) (pf0 : PF) (w1 : Wal)
    (hb : s.bk = .done c0 c1 pf0 w1) (hq : s.sawAny = false) (hnt : noTrigger s = true) :
    ∃ v, recover pf0 w1 = some v ∧ Shows s.hasIndex v c0 ∧ c1 = c0 := by
  have hi := (reach_inv hr).bk
  simp only [BkInv, hb] at hi
  obtain ⟨v, hv, hs, _⟩ := C29_partial h0 s hr c0 c1 pf0 w1 hb hnt
  have := hi.2.1 hq
  exact ⟨v, hv, this ▸ hs, this.symm⟩

/-- reopening the source itself (both files as they are) at rest shows every committed transaction -/
theorem source_recovers (h0 : Bool) (s : State) (hr : Reach (init h0) s) (hm : s.mode = .idle) :
    ∃ v, recover s.pf s.wal = some v ∧ Shows s.hasIndex v s.wal.txs := by
  have hi := (reach_inv hr).src
  simp only [SrcInv, hm] at hi
  obtain ⟨a, b, c, d, e, e', f, g1, g2, g3⟩ := hi
  exact good_of s.hasIndex s.pf s.wal (by omega) e (Or.inr c) d (by omega) b a e' f

private theorem okR : (runTrace (init false)
    ([.cW, .cI, .kP, .kS, .kM, .bStart, .bPf, .close, .reopen, .cW, .cI, .bWal])).isSome = true := by decide
def stR : State := (runTrace (init false)
    ([.cW, .cI, .kP, .kS, .kM, .bStart, .bPf, .close, .reopen, .cW, .cI, .bWal])).get okR

/-- **Close-time WAL rewrite during a backup is harmless** (it is not a trigger): `Db::close` between —
    or around — the two copies replaces the log by a snapshot transaction only when every run is merged,
    and then the manifest, the checkpoint and the page file are what they were; `C29_partial` holds with
    any number of `close`/`reopen` steps inside the backup window.  This instance: page file copied,
    handle closed (log rewritten), handle reopened, one more commit, log copied. -/
theorem close_rewrite_between_copies_is_consistent :
    ∃ s, Reach (init false) s ∧ noTrigger s = true ∧
      s.bk = .done 1 2 ⟨1, 1, 1, 0⟩ ⟨2, 1, 1, 1⟩ ∧
      recover ⟨1, 1, 1, 0⟩ ⟨2, 1, 1, 1⟩ = some ⟨2, 2, 1, 1, 2, 0⟩ :=
  ⟨stR, reach_of_runTrace _ .refl (Option.some_get okR).symm, by decide, by decide, by decide⟩

/-- restore opens every destination so that its contents are REPLACED (regenerated table entry) -/
theorem restore_dest_in_source :
    Generated.restoreReplacesContents = true ∧ Generated.backupReplacesContents = true := by decide

/-- **restore replaces**: with a replacing open the restored file equals the backup file byte for
    byte, whatever the target held (longer, shorter, a different database). -/
theorem restore_replaces {α : Type} (old new : List α) : overwrite true old new = new := rfl

/-- … and so does the restored pair, whatever database was at the target path -/
theorem restore_replaces_pair (target : Option (PF × Wal)) (b : PF × Wal) : restoreOver true target b = b := rfl

/-- an in-place overwrite WITHOUT truncation is exact only when the old file is not longer -/
theorem overwrite_in_place_exact_iff {α : Type} (old new : List α) :
    overwrite false old new = new ↔ old.length ≤ new.length := by
  simp only [overwrite, Bool.false_eq_true, if_false]
  constructor
  · intro h
    have := congrArg List.length h
    simp at this; omega
  · intro h; simp [List.drop_eq_nil_of_le h]

/-- **Counterexample (in-place restore)**: when the target holds the backup's own log continued
    (`old = new ++ tail`), the tail survives: the "restored" file is the OLD file. -/
theorem C29_counterexample_restore_in_place {α : Type} (new tail : List α) (h : tail ≠ []) :
    overwrite false (new ++ tail) new = new ++ tail ∧ overwrite false (new ++ tail) new ≠ new := by
  have e : overwrite false (new ++ tail) new = new ++ tail := by simp [overwrite]
  refine ⟨e, ?_⟩
  rw [e]; intro h'
  have := congrArg List.length h'
  simp at this; exact h this

/-- at the level of the database: one transaction, backup, a second transaction, restore over the
    SAME path in place — the log's tail survives and recovery shows BOTH transactions instead of the
    state at backup time; with a compaction after the backup the surviving manifest makes open fail. -/
theorem C29_counterexample_restore_over_live :
    let b : PF × Wal := (⟨1, 0, 0, 0⟩, ⟨1, 0, 0, 0⟩)          -- backup after transaction 0
    let live : PF × Wal := (⟨2, 0, 0, 0⟩, ⟨2, 0, 0, 0⟩)       -- the source after one more commit
    let live2 : PF × Wal := (⟨2, 1, 2, 0⟩, ⟨2, 2, 1, 0⟩)      -- … and a compaction
    recover (restoreOver true (some live) b).1 (restoreOver true (some live) b).2 = some ⟨1, 1, 0, 0, 1, 0⟩ ∧
    recover (restoreOver false (some live) b).1 (restoreOver false (some live) b).2 = some ⟨2, 2, 0, 0, 2, 0⟩ ∧
    recover (restoreOver false (some live2) b).1 (restoreOver false (some live2) b).2 = none := by decide

def tx : List Label := [.cW, .cI]
def compaction : List Label := [.kP, .kS, .kM]

private theorem okK : (runTrace (init false) (tx ++ tx ++ [.bStart, .bPf] ++ compaction ++ [.bWal])).isSome = true := by decide
private theorem okI : (runTrace (init true) (tx ++ [.bStart, .bPf] ++ tx ++ [.bWal])).isSome = true := by decide
private theorem okC : (runTrace (init false) (tx ++ compaction ++ [.bStart, .bPf] ++ tx ++ tx ++ [.bWal])).isSome = true := by decide

def stK : State := (runTrace (init false) (tx ++ tx ++ [.bStart, .bPf] ++ compaction ++ [.bWal])).get okK
def stI : State := (runTrace (init true) (tx ++ [.bStart, .bPf] ++ tx ++ [.bWal])).get okI
def stC : State := (runTrace (init false) (tx ++ compaction ++ [.bStart, .bPf] ++ tx ++ tx ++ [.bWal])).get okC

/-- **Counterexample (compaction between the copies)**: the copied WAL's manifest lists a segment
    whose pages are not in the copied page file — the restored database does not open. -/
theorem C29_counterexample_compaction :
    Reach (init false) stK ∧ stK.bk = .done 2 2 ⟨2, 0, 0, 0⟩ ⟨2, 2, 1, 0⟩ ∧ recover ⟨2, 0, 0, 0⟩ ⟨2, 2, 1, 0⟩ = none :=
  ⟨reach_of_runTrace _ .refl (Option.some_get okK).symm, by decide, by decide⟩

/-- **Counterexample (index not in the log)**: a commit between the copies is replayed from the copied
    WAL, but its index entry exists only in the newer page file — the restored index misses the node. -/
theorem C29_counterexample_index :
    Reach (init true) stI ∧ stI.bk = .done 1 2 ⟨1, 0, 0, 1⟩ ⟨2, 0, 0, 0⟩ ∧
    recover ⟨1, 0, 0, 1⟩ ⟨2, 0, 0, 0⟩ = some ⟨2, 2, 0, 0, 2, 1⟩ ∧
    ¬ ∃ c, Shows true ⟨2, 2, 0, 0, 2, 1⟩ c := by
  refine ⟨reach_of_runTrace _ .refl (Option.some_get okI).symm, by decide, by decide, ?_⟩
  rintro ⟨c, h1, _, _, h4⟩
  simp at h1 h4; omega

theorem C29_full_is_false : ¬ C29_full := by
  intro h
  obtain ⟨hr, hb, hn⟩ := C29_counterexample_compaction
  obtain ⟨v, c, hv, _⟩ := h false stK hr _ _ _ _ hb
  rw [hn] at hv; cases hv

/-! non-vacuity: two commits between the copies, after an earlier compaction, no index: `C29_partial`
    applies and the restored pair shows all three transactions (later log replayed on earlier page file) -/
example : Reach (init false) stC ∧ noTrigger stC = true ∧ stC.bk = .done 1 3 ⟨1, 1, 1, 0⟩ ⟨3, 1, 1, 0⟩ ∧
    recover ⟨1, 1, 1, 0⟩ ⟨3, 1, 1, 0⟩ = some ⟨3, 3, 1, 1, 3, 0⟩ ∧
    recover ⟨1, 1, 1, 0⟩ ⟨3, 1, 1, 0⟩ = recover ⟨3, 1, 1, 0⟩ ⟨3, 1, 1, 0⟩ :=
  ⟨reach_of_runTrace _ .refl (Option.some_get okC).symm, by decide, by decide, by decide, by decide⟩

end Nervus.Props.C29
