/-
  C24 — Transactions see their own writes.
  Statements only (helper lemmas: Nervus.Proofs.Txn).  Model: Nervus.Model.Txn — `execute_write_in_txn` evaluates
  every statement on `db.snapshot()`, the committed state.  Reference: Nervus.Spec.TxnSem.rywStep — statement `i`
  of a transaction evaluates on committed ⊕ staged(1..i−1) (failed statements have no effect in both).
-/
import Nervus.Proofs.Txn
namespace Nervus.Props.C24
open Nervus.Txn Nervus.Spec.TxnSem

/-- **read_your_writes / C24 at full strength**: for every history the code behaves like the semantics in which
    each statement of an explicit transaction reads committed ⊕ the writes staged by the earlier statements. -/
def C24_full : Prop := ∀ (σ : State) (ops : List Op), codeRun σ ops = rywRun σ ops
abbrev read_your_writes := C24_full

/-- **C24_partial**: what does hold.  If no statement of an explicit transaction reads a label that an earlier
    statement of the same transaction writes (trigger `readsOwnWrites`, decidable on the statement sequence), the
    transaction behaves exactly as if every statement had been run on committed ⊕ its own staged writes —
    for all histories and all committed graphs, by induction over the history. -/
theorem C24_partial (σ : State) (w : Option (List Nat)) (ops : List Op) (ht : Tracks σ w)
    (htrig : readsOwnWrites w ops = false) : codeRun σ ops = rywRun σ ops := by
  rw [codeRun_def]
  exact ryw_run_eq true ops σ w ht htrig

/-- from the empty database (or any state without an open transaction) the tracker starts at `none` -/
theorem C24_partial_init (ops : List Op) (htrig : readsOwnWrites none ops = false) :
    codeRun State.init ops = rywRun State.init ops :=
  C24_partial State.init none ops Tracks.init htrig

/-- one statement: when the staged writes do not touch the label the statement reads, evaluating it on the
    committed state is evaluating it on committed ⊕ staged (the frame property behind `C24_partial`). -/
theorem stmt_reads_only_its_label (g : Graph) (ps : List Prim) (n : Nat) (s : Stmt)
    (h : ∀ l, s.reads = some l → ∀ p ∈ ps, p.lbl ≠ l) : exec (applyAll g ps) n s = exec g n s :=
  exec_frame g ps n s h

/-- the same held on the pinned tree, before failed statements were made atomic (the two repairs are independent) -/
theorem ryw_independent_of_atomicity (ops : List Op) (htrig : readsOwnWrites none ops = false) :
    legacyRun State.init ops = legacyRywRun State.init ops :=
  ryw_run_eq false ops State.init none Tracks.init htrig

/-! ### non-vacuity: a transaction with several statements on different labels, then one on a fresh label -/

def okHistory : List Op :=
  [.auto (.create 0 [(1, .t), (2, .f)] false), .begin, .tq (.setw 0 .t .x), .tq (.create 1 [(3, .t)] true),
   .commit, .begin, .tq (.del 1), .tq (.merge 0 7), .rollback]

example : readsOwnWrites none okHistory = false := by decide
example : (codeRun State.init okHistory).committed =
    [⟨0, 0, 1, some .x, none⟩, ⟨1, 0, 2, some .f, none⟩, ⟨2, 1, 3, some .t, some true⟩] := by decide

/-! ### the defect (known finding C24-txn-reads-committed-snapshot), replayed by corpus/capiryw/*.ops -/

/-- `CREATE (:A {k:1, q:true})` then `MATCH (n:A) WHERE n.q = true SET n.q = false` in one transaction:
    the second statement matches nothing, `q` stays `true` (the probe's `CREATE (:X {k:1})`, `MATCH (n:X) SET n.k = 2`). -/
def witness : List Op := [.begin, .tq (.create 0 [(1, .t)] false), .tq (.setw 0 .t .f), .commit]

theorem counterexample_match_after_create :
    (codeRun State.init witness).committed.map (·.q) = [some .t] ∧
      (rywRun State.init witness).committed.map (·.q) = [some .f] ∧
      readsOwnWrites none witness = true := by decide

/-- MERGE twice in one transaction creates two nodes: the second MERGE does not see the first one's node. -/
theorem counterexample_merge_twice :
    (codeRun State.init [.begin, .tq (.merge 0 1), .tq (.merge 0 1), .commit]).committed.length = 2 ∧
      (rywRun State.init [.begin, .tq (.merge 0 1), .tq (.merge 0 1), .commit]).committed.length = 1 := by decide

/-- a statement acts on a node that an earlier statement of the transaction has deleted: the update is staged for
    the dead node (and lost), where read-your-writes would not have matched it at all; here the visible difference
    is in what a *following* statement sees: DELETE then MERGE of the same key does not re-create the node. -/
theorem counterexample_delete_then_merge :
    let h := [.auto (.create 0 [(1, .t)] false), .begin, .tq (.del 0), .tq (.merge 0 1), .commit]
    (codeRun State.init h).committed = [] ∧ (rywRun State.init h).committed.length = 1 := by decide

theorem C24_full_false : ¬ C24_full := fun h => by
  have := h State.init witness
  exact absurd this (by decide)

end Nervus.Props.C24
