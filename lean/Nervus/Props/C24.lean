/-
  C24 — Transactions see their own writes.
  Statements only (helper lemmas: Nervus.Proofs.Txn).  Model: Nervus.Model.Txn — `execute_write_in_txn` evaluates
  every statement on `db.snapshot()`, the committed state.  Reference: Nervus.Spec.TxnSem.rywStep — statement `i`
  of a transaction evaluates on committed ⊕ staged(1..i−1) (failed statements have no effect in both).
-/
import Nervus.Proofs.Txn
import Nervus.Proofs.TxnLabels
namespace Nervus.Props.C24
open Nervus.Txn Nervus.Spec.TxnSem

/-- **read_your_writes / C24 at full strength**: for every history the code behaves like the semantics in which
    each statement of an explicit transaction reads committed ⊕ the writes staged by the earlier statements. -/
def C24_full : Prop := ∀ (σ : State) (ops : List Op), codeRun σ ops = rywRun σ ops
abbrev read_your_writes := C24_full

/-- **C24_partial**: what does hold.  If no statement of an explicit transaction reads a label that an earlier
    statement of the same transaction writes (trigger `readsOwnWrites`, decidable on the statement sequence), the
    transaction behaves exactly as if every statement had been run on committed ⊕ its own staged writes —
    for all histories and all committed graphs, by induction over the history. -/
theorem C24_partial (σ : State) (w : Option (List Nat)) (ops : List Op) (ht : Tracks σ w)
    (htrig : readsOwnWrites w ops = false) : codeRun σ ops = rywRun σ ops := by
  rw [codeRun_def]
  exact ryw_run_eq true ops σ w ht htrig

/-- from the empty database (or any state without an open transaction) the tracker starts at `none` -/
theorem C24_partial_init (ops : List Op) (htrig : readsOwnWrites none ops = false) :
    codeRun State.init ops = rywRun State.init ops :=
  C24_partial State.init none ops Tracks.init htrig

/-- one statement: when the staged writes do not touch the label the statement reads, evaluating it on the
    committed state is evaluating it on committed ⊕ staged (the frame property behind `C24_partial`). -/
theorem stmt_reads_only_its_label (g : Graph) (ps : List Prim) (n : Nat) (s : Stmt)
    (h : ∀ l, s.reads = some l → ∀ p ∈ ps, p.lbl ≠ l) : exec (applyAll g ps) n s = exec g n s :=
  exec_frame g ps n s h

/-- the same held on the pinned tree, before failed statements were made atomic (the two repairs are independent) -/
theorem ryw_independent_of_atomicity (ops : List Op) (htrig : readsOwnWrites none ops = false) :
    legacyRun State.init ops = legacyRywRun State.init ops :=
  ryw_run_eq false ops State.init none Tracks.init htrig

/-! ### non-vacuity: a transaction with several statements on different labels, then one on a fresh label -/

def okHistory : List Op :=
  [.auto (.create 0 [(1, .t), (2, .f)] false), .begin, .tq (.setw 0 .t .x), .tq (.create 1 [(3, .t)] true),
   .commit, .begin, .tq (.del 1), .tq (.merge 0 7), .rollback]

example : readsOwnWrites none okHistory = false := by decide
example : (codeRun State.init okHistory).committed =
    [⟨0, 0, 1, some .x, none⟩, ⟨1, 0, 2, some .f, none⟩, ⟨2, 1, 3, some .t, some true⟩] := by decide

/-! ### the defect (known finding C24-txn-reads-committed-snapshot), replayed by corpus/capiryw/*.ops -/

/-- `CREATE (:A {k:1, q:true})` then `MATCH (n:A) WHERE n.q = true SET n.q = false` in one transaction:
    the second statement matches nothing, `q` stays `true` (the probe's `CREATE (:X {k:1})`, `MATCH (n:X) SET n.k = 2`). -/
def witness : List Op := [.begin, .tq (.create 0 [(1, .t)] false), .tq (.setw 0 .t .f), .commit]

theorem counterexample_match_after_create :
    (codeRun State.init witness).committed.map (·.q) = [some .t] ∧
      (rywRun State.init witness).committed.map (·.q) = [some .f] ∧
      readsOwnWrites none witness = true := by decide

/-- MERGE twice in one transaction creates two nodes: the second MERGE does not see the first one's node. -/
theorem counterexample_merge_twice :
    (codeRun State.init [.begin, .tq (.merge 0 1), .tq (.merge 0 1), .commit]).committed.length = 2 ∧
      (rywRun State.init [.begin, .tq (.merge 0 1), .tq (.merge 0 1), .commit]).committed.length = 1 := by decide

/-- a statement acts on a node that an earlier statement of the transaction has deleted: the update is staged for
    the dead node (and lost), where read-your-writes would not have matched it at all; here the visible difference
    is in what a *following* statement sees: DELETE then MERGE of the same key does not re-create the node. -/
theorem counterexample_delete_then_merge :
    let h := [.auto (.create 0 [(1, .t)] false), .begin, .tq (.del 0), .tq (.merge 0 1), .commit]
    (codeRun State.init h).committed = [] ∧ (rywRun State.init h).committed.length = 1 := by decide

theorem C24_full_false : ¬ C24_full := fun h => by
  have := h State.init witness
  exact absurd this (by decide)


/-! ### the name-level fragment that DOES hold: labels added / removed by name (Nervus.Model.TxnLabels)

  Label names are interned write-through (published at once) and every `ndb_txn_query` statement gets a fresh
  snapshot, so a later statement can resolve a label name that an earlier statement of the same transaction
  introduced; additions and removals for the same node compose in the transaction's pending lists. -/

section Labels
open Nervus.TxnLabels

/-- what the source does today: `execute_write_in_txn` calls `db.snapshot()` for every statement (regenerated) -/
theorem snapshot_taken_per_statement : Generated.capiTxnSnapshotPerStatement = true := snapshot_per_statement

/-- **labels_read_your_writes**: for every committed graph `g`, every label table that contains the labels in use,
    every committed node `n` (with an id of its own) and every transaction of the fragment
    (`MATCH (n:Base) SET n:X`, `… REMOVE n:X`, `MATCH (n) REMOVE n:X`, `CREATE (:X …)`, unrelated statements; base
    labels 0/1 are only matched on, labels ≥ 2 only written) in which no label is re-added after the transaction
    removed it, the labels `n` has after `begin; statements; commit` on the code are exactly the labels obtained by
    applying the statements one after the other — each statement observes the label writes of the earlier ones,
    including names that were new to the database. -/
theorem labels_read_your_writes (σ : TxnLabels.State) (hopen : σ.staged = none) (n : TxnLabels.Node)
    (hn : n ∈ σ.committed) (huniq : ∀ m ∈ σ.committed, m.id = n.id → m.labels = n.labels)
    (hlt : ∀ m ∈ σ.committed, m.id < σ.allocated) (hknown : ∀ y ∈ n.labels, y ∈ σ.known)
    (stmts : List TxnLabels.Stmt) (hwf : ∀ s ∈ stmts, s.wellFormed = true) (hre : reAdds [] stmts = false) :
    ∃ ps, (TxnLabels.run true σ (txnOps stmts)).committed = applyCommit σ.committed ps ∧
      ∀ l, l ∈ finalLabels n ps ↔ l ∈ specNodeLabels n.labels stmts :=
  ⟨_, run_txn_committed σ hopen stmts,
    node_labels_agree σ.committed n σ.allocated hn huniq hlt stmts [] σ.known [] n.labels hwf
      (by simp [createdNodes]) (by simp [addsFor]) (by simp [remsFor]) (by simp [remsFor])
      (by intro y hy; rcases hy with hy | hy; exact hknown y hy; simp [addsFor] at hy)
      (by intro l; simp [addsFor, remsFor]) hre⟩

/-- non-vacuity, and the shape the seeded fault needs: an unrelated first statement, then a label that is new to
    the database is added and removed again by name -/
def lblState : TxnLabels.State := ⟨[⟨0, [0], 1, false⟩, ⟨1, [1], 2, false⟩], [], 2, [0, 1], none, none⟩
def lblTxn : List TxnLabels.Stmt := [.seen 0, .addl 0 2, .addl 1 3, .reml 0 2, .crx 4 7, .remall 4]

example : reAdds [] lblTxn = false ∧ (∀ s ∈ lblTxn, s.wellFormed = true) := by decide
example : ((TxnLabels.run true lblState (txnOps lblTxn)).committed.map (·.labels)) = [[0], [1, 3], []] := by decide
example : specNodeLabels [0] lblTxn = [0] ∧ specNodeLabels [1] lblTxn = [1, 3] := by decide

/-- **one snapshot per transaction breaks the fragment** (the shape of seeded fault C24-seed1): with the label table
    of the transaction's first snapshot, `REMOVE n:X` cannot resolve a name interned later and stages nothing —
    the label survives the commit. -/
theorem per_transaction_snapshot_breaks_labels :
    ((TxnLabels.run false lblState (txnOps [.seen 0, .addl 0 2, .reml 0 2])).committed.map (·.labels)) = [[0, 2], [1]] ∧
      ((TxnLabels.run true lblState (txnOps [.seen 0, .addl 0 2, .reml 0 2])).committed.map (·.labels)) = [[0], [1]] := by
  decide

/-- **counterexample (known finding C24-label-readd-lost-at-commit)**: commit applies every label addition and then
    every label removal, so `SET n:X`, `REMOVE n:X`, `SET n:X` in one transaction ends without the label. -/
theorem counterexample_label_readd :
    ((TxnLabels.run true lblState (txnOps [.addl 0 2, .reml 0 2, .addl 0 2])).committed.map (·.labels)) = [[0], [1]] ∧
      specNodeLabels [0] [.addl 0 2, .reml 0 2, .addl 0 2] = [0, 2] ∧
      reAdds [] [.addl 0 2, .reml 0 2, .addl 0 2] = true := by decide

end Labels

end Nervus.Props.C24
