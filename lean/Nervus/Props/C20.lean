/-
  C20 — ORDER BY sorts and SKIP/LIMIT slice it.   Statements only (lemmas live in Nervus.Proofs.*).

  Model: `Nervus.Model.Eval.orderCompare` (mirrors `order_compare` / `order_compare_non_null`, rank table
  regenerated from the source), `Nervus.Model.Order` (`execute_order_by`, `execute_skip`, `execute_limit`).
  Spec:  `Nervus.Spec.Order` (total preorder, sorted, stable), `Nervus.Spec.Findings` (trigger predicates).
-/
import Nervus.Proofs.KeyCompare
import Nervus.Proofs.TopK
import Nervus.Spec.CypherValue
set_option exponentiation.threshold 4096
namespace Nervus.Props.C20
open Nervus Nervus.Eval Nervus.Order Nervus.Spec Value

/-- **C20 at full strength** (NOT provable, see the counterexamples): for every instantiation of the
    model's parameters `order_compare` is a total preorder on all values, hence every ORDER BY output is the
    stable sorted permutation of its input. -/
def C20_full : Prop := ∀ E : Env, CmpLaws (orderCompare E)

/-- `order_compare` is antisymmetric (`cmp a b = (cmp b a).swap`, hence reflexive and total) on ALL values,
    for every environment — no hypothesis. -/
theorem orderCompare_antisymm (E : Env) (a b : Value) : orderCompare E a b = (orderCompare E b a).swap :=
  orderCompare_swap E a b

/-- **C20_partial (comparator)**: on every set of well-formed values outside the two known triggers
    (`ordOK`: no NaN inside a map — C20-nan-in-map; the engine's string comparison is transitive on the
    strings present — C20-temporal-string-order) `order_compare` is a total preorder.  This covers every mix
    of nulls, booleans, integers of any size next to floats (±0, ±∞, NaN), strings, lists, maps, ids. -/
theorem orderCompare_totalPreorder_partial (E : Env) (vs : List Value) (h : ordOK E vs = true) :
    CmpLawsOn (orderCompare E) (fun v => v ∈ vs) :=
  orderCompare_lawsOn E vs h

/-- numbers are ordered by the rationals they denote (NaN last): the comparator agrees with the Spec's
    `numOrder` on every pair of well-formed numbers, integers beyond 2^53 next to floats included. -/
theorem orderCompare_numbers (E : Env) (a b : Value) (ha : isNum a = true) (hb : isNum b = true)
    (wa : a.wf = true) (wb : b.wf = true) : some (orderCompare E a b) = Spec.numOrder a b := by
  have h := numCmpNanLast_exact a b ha hb wa wb
  cases a <;> simp [isNum] at ha <;> cases b <;> simp [isNum] at hb <;>
    simp only [orderCompare, orderCompareNonNull, Option.getD, Spec.numOrder, Spec.numVal] <;>
    simp only [numF] at h <;> rw [h] <;> rfl

/-- the rank table regenerated from `value_order_rank` IS the openCypher orderability of kinds … -/
theorem rank_is_spec_rank (v : Value) : rank v = Spec.typeRank v := by cases v <;> rfl

/-- … and values of different kinds are ordered by it, whatever their payloads (all values, every `E`) -/
theorem cross_kind_order (E : Env) (a b : Value) (h : Spec.typeRank a < Spec.typeRank b) :
    orderCompare E a b = .lt := by
  rw [← rank_is_spec_rank, ← rank_is_spec_rank] at h
  have hne : rank a ≠ rank b := by omega
  have := ocnn_of_rank_ne E a b hne
  rw [cmpNat_lt.2 h] at this
  cases a <;> cases b <;> first | (simp only [orderCompare, this, Option.getD]; done) | rfl | (exfalso; revert h; simp [rank, Generated.rankNull, Generated.rankBool, Generated.rankInt, Generated.rankFloat, Generated.rankString, Generated.rankList, Generated.rankMap, Generated.rankNodeId, Generated.rankExternalId, Generated.rankEdgeKey, Generated.rankDateTime, Generated.rankBlob, Generated.rankPath]; done)

/-- the shared string comparator attempts the temporal parse for EVERY pair of strings (regenerated table
    `Comparators`): no text-only shortcut, so the model's `strCmp` — which consults `temporalKey` for every pair — is
    the comparator of ORDER BY, `<` and min/max -/
theorem string_compare_always_parses : Generated.stringCompareAlwaysParses = true := by decide

/-- the model's string comparison IS the Spec's string order: same-kind temporal strings chronologically (by the
    keys of the temporal parser), every other pair as text -/
theorem strCmp_is_spec_order (E : Env) (x y : Str) : strCmp E x y = Spec.strOrder E x y := rfl

/-- the composed comparator of an ORDER BY with several ASC/DESC items is a total preorder on rows whose
    keys come from a set of values outside the triggers -/
theorem keyCompare_totalPreorder_partial (E : Env) (vs : List Value) (h : ordOK E vs = true) (dirs : List Dir) :
    CmpLawsOn (keyCompare E) (KeyOK vs dirs) :=
  keyCompare_lawsOn E vs h dirs

/-- **permutation** (unconditional): ORDER BY neither loses nor duplicates rows -/
theorem orderBy_perm {α : Type} (E : Env) (rows : List (Keyed α)) : (orderBy E rows).Perm rows :=
  isort_perm _ rows

/-- **sorted**: no pair of output rows is out of order w.r.t. the composed key comparator -/
theorem orderBy_sorted {α : Type} (E : Env) (vs : List Value) (h : ordOK E vs = true) (dirs : List Dir)
    (rows : List (Keyed α)) (hk : ∀ r ∈ rows, KeyOK vs dirs r.1) :
    SortedBy (fun a b : Keyed α => keyCompare E a.1 b.1) (orderBy E rows) := by
  have laws : CmpLawsOn (fun a b : Keyed α => keyCompare E a.1 b.1) (fun r => KeyOK vs dirs r.1) :=
    ⟨fun a b ha hb => (keyCompare_lawsOn E vs h dirs).swap a.1 b.1 ha hb,
     fun a b c ha hb hc => (keyCompare_lawsOn E vs h dirs).trans a.1 b.1 c.1 ha hb hc⟩
  exact isort_sorted _ laws rows hk

/-- **stable**: rows that are not out of order keep their input order; in particular rows with equal keys -/
theorem orderBy_stable {α : Type} (E : Env) (rows : List (Keyed α)) :
    StableWrt (fun a b : Keyed α => keyCompare E a.1 b.1) rows (orderBy E rows) :=
  fun a b hab hsub => isort_stable _ a b hab rows hsub

/-- the three facts for ANY comparison that is a total preorder on the rows (what is assumed of std's
    `sort_by`, proved of the model's insertion sort) -/
theorem sort_of_total_preorder {α : Type} (cmp : α → α → Ordering) (P : α → Prop) (h : CmpLawsOn cmp P)
    (l : List α) (hl : ∀ x ∈ l, P x) :
    (isort cmp l).Perm l ∧ SortedBy cmp (isort cmp l) ∧ StableWrt cmp l (isort cmp l) :=
  ⟨isort_perm cmp l, isort_sorted cmp h l hl, fun a b hab hs => isort_stable cmp a b hab l hs⟩

/-- **SKIP s LIMIT l** returns exactly the rows at positions `s … s+l-1` of the sorted order -/
theorem skip_limit_positions {α : Type} (E : Env) (rows : List (Keyed α)) (s l i : Nat) :
    (orderBySkipLimit E (some s) (some l) rows)[i]? = if i < l then (orderBy E rows)[s + i]? else none :=
  skip_limit_get (orderBy E rows) s l i

theorem skip_limit_count {α : Type} (E : Env) (rows : List (Keyed α)) (s l : Nat) :
    (orderBySkipLimit E (some s) (some l) rows).length = min l (rows.length - s) := by
  have := skip_limit_length (orderBy E rows) s l
  rw [(orderBy_perm E rows).length_eq] at this
  exact this

/-! ### non-vacuity: concrete key sets inside the domain -/

/-- a dummy float arithmetic / environment without temporal strings -/
def F0 : FArith := ⟨fun a _ => a, fun a _ => a, fun a _ => a, fun a _ => a, fun a _ => a, fun a _ => a⟩
def E0 : Env := ⟨F0, fun _ => none, fun _ => false, fun _ _ => .null, fun _ _ => .null, fun _ _ _ => .null⟩

/-- large integers next to floats, ±0, NaN, null, strings, a list with a null, a NaN-free map -/
def sampleKeys : List Value :=
  [.int 9007199254740993, .float 0x4340000000000000, .int 9007199254740992, .int 9223372036854775807,
   .float 0x43E0000000000000, .float 0x8000000000000000, .float 0, .float 0x7FF8000000000000, .null,
   .str [0x61], .str [], .list [.int 1, .null], .map [([0x61], .float 0x3FF0000000000000)], .bool true]

example : ordOK E0 sampleKeys = true := by decide
/-- after the fix the former witness is strictly ordered: 2^53 = 2^53.0 < 2^53+1 -/
example : orderCompare E0 (.int 9007199254740992) (.float 0x4340000000000000) = .eq ∧
    orderCompare E0 (.float 0x4340000000000000) (.int 9007199254740993) = .lt ∧
    orderCompare E0 (.int 9007199254740992) (.int 9007199254740993) = .lt := by decide
example : (orderBy E0 [([(.int 2, .asc)], "b"), ([(.int 1, .asc)], "a"), ([(.float 0x4000000000000000, .asc)], "c")]).map (·.2)
    = ["a", "b", "c"] := by decide

/-! ### SKIP/LIMIT over ORDER BY returns the slice of the FULL sort, for every input size -/

/-- the source has the shape the model covers: `execute_order_by` receives no row bound and sorts its whole
    input, Skip/Limit are plain `skip`/`take` over the unrestricted input (regenerated table `OrderBy`; a top-k
    rewrite flips the flag or breaks the recogniser, and this theorem with it) -/
theorem composition_is_modelled : orderByBuffersAll = true := by decide

/-- **top-k pruning is sound iff it uses the full comparison**: under `ORDER BY … SKIP s LIMIT l` a row `r` may be
    dropped from the input once `s + l` rows that arrived before it are not placed after it by the FULL key
    vector (ties resolved by arrival order, i.e. the stable order): the slice is unchanged — for any input size,
    any number of keys and directions, any comparator that is a total preorder on the rows. -/
theorem topk_sound {α : Type} (cmp : α → α → Ordering) (P : α → Prop) (h : CmpLawsOn cmp P)
    (pre post : List α) (r : α) (s l : Nat) (hP : ∀ x ∈ pre ++ r :: post, P x)
    (hk : s + l ≤ cntLe cmp r pre) :
    limit l (skip s (isort cmp (pre ++ r :: post))) = limit l (skip s (isort cmp (pre ++ post))) :=
  topk_drop_sound_slice cmp h pre post r s l hP hk

/-- **pruning on the LEADING key alone is wrong** (the seeded change C20-seed1): with `ORDER BY k1, k2 LIMIT 1`
    and input (1,5), (2,0), (1,0) the cutoff after the first rows is (1,5); the third row ties with it on `k1`
    (not strictly `Less`, so the leading-key filter drops it) although the full comparison puts it FIRST
    (no earlier row precedes it: `cntLe = 0`); dropping it changes the result. -/
theorem counterexample_leading_key_prune :
    let k (a b : Int) : List (Value × Dir) := [(.int a, .asc), (.int b, .asc)]
    let rows : List (Keyed Nat) := [(k 1 5, 0), (k 2 0, 1), (k 1 0, 2)]
    orderCompare E0 (.int 1) (.int 1) ≠ .lt ∧
    cntLe (fun a b : Keyed Nat => keyCompare E0 a.1 b.1) (k 1 0, 2) [(k 1 5, 0), (k 2 0, 1)] = 0 ∧
    (orderBySkipLimit E0 none (some 1) rows).map (·.2) = [2] ∧
    (orderBySkipLimit E0 none (some 1) [(k 1 5, 0), (k 2 0, 1)]).map (·.2) = [0] := by decide

/-! ### counterexamples to `C20_full` -/

/-- the temporal reading of three strings as the real parser gives it (validated on every run by the `sort`
    stream: `@…` oracle tokens of corpus/sort/temporal-text-mix.ops):
    '2020-W01-1' ↦ Date 737423 (= 2019-12-30), '2019-12-31' ↦ Date 737424, '2019-12-31x' ↦ not temporal -/
def sW01 : Str := [0x32,0x30,0x32,0x30,0x2d,0x57,0x30,0x31,0x2d,0x31]
def s1231 : Str := [0x32,0x30,0x31,0x39,0x2d,0x31,0x32,0x2d,0x33,0x31]
def s1231x : Str := [0x32,0x30,0x31,0x39,0x2d,0x31,0x32,0x2d,0x33,0x31,0x78]
def tkW (s : Str) : Option (Nat × TKey) :=
  if s = sW01 then some (0, TKey.mk 737423 0 0) else if s = s1231 then some (0, TKey.mk 737424 0 0) else none
def EW : Env := ⟨F0, tkW, fun _ => false, fun _ _ => .null, fun _ _ => .null, fun _ _ _ => .null⟩

/-- **known finding C20-temporal-string-order**: a cycle `a < b < c < a` — two strings that both parse as
    dates are compared as dates, every other pair as text. -/
theorem counterexample_temporal_strings :
    orderCompare EW (.str sW01) (.str s1231) = .lt ∧ orderCompare EW (.str s1231) (.str s1231x) = .lt ∧
    orderCompare EW (.str s1231x) (.str sW01) = .lt := by decide +kernel

theorem counterexample_temporal_strings_not_full : ¬ C20_full := by
  intro h
  have t := (h EW).trans (.str sW01) (.str s1231) (.str s1231x) (by decide +kernel) (by decide +kernel)
  revert t; decide +kernel

/-- **known finding C20-nan-in-map**: maps are compared with the derived `partial_cmp`; a NaN inside makes
    it `None`, which `order_compare` turns into `Equal`: {a:NaN} ~ {a:1.0}, {a:NaN} ~ {a:2.0}, {a:1.0} < {a:2.0} -/
theorem counterexample_nan_in_map :
    orderCompare E0 (.map [([0x61], .float 0x4000000000000000)]) (.map [([0x61], .float 0x7FF8000000000000)]) = .eq ∧
    orderCompare E0 (.map [([0x61], .float 0x7FF8000000000000)]) (.map [([0x61], .float 0x3FF0000000000000)]) = .eq ∧
    orderCompare E0 (.map [([0x61], .float 0x4000000000000000)]) (.map [([0x61], .float 0x3FF0000000000000)]) = .gt := by
  decide

/-- **fixed finding (pinned tree)**: before the `fix:` commit Int/Float pairs were compared through
    `as f64`: 2^53+1 ~ 2^53.0 ~ 2^53 although 2^53+1 > 2^53. -/
theorem counterexample_pinned_int_float :
    Pinned.numOrder (.int 9007199254740993) (.float 0x4340000000000000) = .eq ∧
    Pinned.numOrder (.float 0x4340000000000000) (.int 9007199254740992) = .eq ∧
    Pinned.numOrder (.int 9007199254740993) (.int 9007199254740992) = .gt := by decide

end Nervus.Props.C20
