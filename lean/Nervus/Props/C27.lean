/-
  C27 — Index key encoding preserves order and equality.
  Statements only (helper lemmas live in Nervus.Proofs.*).
  Model: Nervus.Model.OKey (mirrors ordered_key.rs, tags and the −0.0 normalisation flag
  regenerated from the source).  Spec: Nervus.Spec.OrderedValue.
-/
import Nervus.Proofs.OKey
import Nervus.Proofs.F64Bits
namespace Nervus.Props.C27
open Nervus Nervus.OKey

/-- the −0.0 normalisation is present in the source (regenerated table entry) -/
theorem norm_present : Generated.okeyNormalisesNegZero = true := by decide

private theorem int_lt (a b : Int) (ha : I64.inRange a) (hb : I64.inRange b) (h : a < b) :
    bytesLt (beBytes 8 (signFlip a)) (beBytes 8 (signFlip b)) = true := by
  apply beBytes_lt _ _ _ _ (signFlip_lt b hb)
  have := signFlip_eq a ha; have := signFlip_eq b hb; omega

private theorem float_lt (a b : Nat) (ha : a < two64) (hb : b < two64) (h : fkey a < fkey b) :
    bytesLt (beBytes 8 (floatSortable (normZero a))) (beBytes 8 (floatSortable (normZero b))) = true := by
  apply beBytes_lt _ _ _ _ (floatSortable_lt _ (normZero_lt b hb))
  have h1 := floatSortable_norm a ha norm_present
  have h2 := floatSortable_norm b hb norm_present
  split at h1 <;> split at h2 <;> omega

/-- **C27 (order)**: for values of one kind, `a < b` implies `enc a < enc b` byte-wise —
    for *all* integers, booleans, byte strings and non-NaN floats. -/
theorem order_preserved (a b : OV) (ha : Valid a) (hb : Valid b) (h : lt a b) :
    bytesLt (enc a) (enc b) = true := by
  cases a <;> cases b <;> simp only [lt] at h <;> simp only [enc, bytesLt_cons_same]
  case bool.bool x y => obtain ⟨rfl, rfl⟩ := h; decide
  case int.int x y => exact int_lt x y ha hb h
  case float.float x y => exact float_lt x y ha.1 hb.1 h
  case str.str x y => exact stuff_lt x y h
  case datetime.datetime x y => exact int_lt x y ha hb h
  case blob.blob x y => exact stuff_lt x y h

/-- within one kind the value order is total up to value equality -/
theorem lt_total (a b : OV) (hk : kind a = kind b) : lt a b ∨ eqv a b ∨ lt b a := by
  cases a <;> cases b <;> simp [kind] at hk <;> simp only [lt, eqv]
  case null.null => simp
  case bool.bool x y => cases x <;> cases y <;> simp
  case int.int x y => omega
  case float.float x y => omega
  case str.str x y => exact bytesLt_total x y
  case datetime.datetime x y => omega
  case blob.blob x y => exact bytesLt_total x y

theorem enc_head (a : OV) : ∃ t rest, enc a = t :: rest ∧ t.toNat = kind a := by
  cases a <;> exact ⟨_, _, rfl, by simp only [kind]; decide⟩

/-- **C27 (equality ⇒)**: equal values have equal encodings (needs the −0.0 normalisation). -/
theorem enc_eq_of_eqv (a b : OV) (ha : Valid a) (hb : Valid b) (h : eqv a b) : enc a = enc b := by
  cases a <;> cases b <;> simp only [eqv] at h <;> try (first | exact h.elim | (subst h; rfl) | rfl)
  case float.float x y =>
    have h1 := floatSortable_norm x ha.1 norm_present
    have h2 := floatSortable_norm y hb.1 norm_present
    have : floatSortable (normZero x) = floatSortable (normZero y) := by
      split at h1 <;> split at h2 <;> omega
    simp [enc, this]

/-- **C27 (equality ⇐)**: equal encodings come from equal values, across all kinds. -/
theorem eqv_of_enc_eq (a b : OV) (ha : Valid a) (hb : Valid b) (h : enc a = enc b) : eqv a b := by
  have hk : kind a = kind b := by
    obtain ⟨t, r, e1, k1⟩ := enc_head a
    obtain ⟨t', r', e2, k2⟩ := enc_head b
    rw [e1, e2] at h; injection h with ht _; subst ht; omega
  rcases lt_total a b hk with hlt | heq | hgt
  · have := order_preserved a b ha hb hlt; rw [h, bytesLt_irrefl] at this; cases this
  · exact heq
  · have := order_preserved b a hb ha hgt; rw [h, bytesLt_irrefl] at this; cases this

/-- **C27 (equality)**: `a = b` exactly when `enc a = enc b`. -/
theorem equality_iff (a b : OV) (ha : Valid a) (hb : Valid b) : eqv a b ↔ enc a = enc b :=
  ⟨enc_eq_of_eqv a b ha hb, eqv_of_enc_eq a b ha hb⟩

/-- **C27 (order reflected)**: within one kind the byte order decides the value order. -/
theorem order_reflected (a b : OV) (ha : Valid a) (hb : Valid b) (hk : kind a = kind b)
    (h : bytesLt (enc a) (enc b) = true) : lt a b := by
  rcases lt_total a b hk with hlt | heq | hgt
  · exact hlt
  · rw [enc_eq_of_eqv a b ha hb heq, bytesLt_irrefl] at h; cases h
  · have := bytesLt_asymm _ _ (order_preserved b a hb ha hgt); rw [this] at h; cases h

/-- **C27 (prefix-free)**: no encoding is a proper prefix of another one, across all kinds. -/
theorem prefix_free (a b : OV) (ha : Valid a) (hb : Valid b) : properPrefix (enc a) (enc b) = false := by
  cases hp : properPrefix (enc a) (enc b) with
  | false => rfl
  | true =>
    exfalso
    have hl := properPrefix_length _ _ hp
    cases a <;> cases b <;> simp only [enc, properPrefix_cons, Bool.and_eq_true, beq_iff_eq] at hp <;>
      first
      | exact absurd hp.1 (by decide)
      | (simp [enc, beBytes_length] at hl; done)
      | (simp [stuff_not_prefix] at hp; done)

/-- Consequence used by the composite index key `[index_id][value][node_id]`: the value decides
    the order whatever the node ids are. -/
theorem index_key_order (i : Nat) (a b : OV) (n m : Nat) (ha : Valid a) (hb : Valid b)
    (h : lt a b) :
    bytesLt (encIndexKey i a n) (encIndexKey i b m) = true := by
  have hlt := order_preserved a b ha hb h
  have hpf := prefix_free a b ha hb
  unfold encIndexKey
  rw [List.append_assoc, List.append_assoc, bytesLt_append_same]
  -- enc a < enc b and enc a is not a proper prefix of enc b, so the order is decided inside
  have key : ∀ (x y c d : Bytes), bytesLt x y = true → properPrefix x y = false →
      bytesLt (x ++ c) (y ++ d) = true := by
    intro x
    induction x with
    | nil => intro y c d h1 h2; cases y <;> simp [bytesLt, properPrefix] at h1 h2
    | cons p ps ih =>
      intro y c d h1 h2
      cases y with
      | nil => simp [bytesLt] at h1
      | cons q qs =>
        simp only [bytesLt, List.cons_append] at h1 ⊢
        by_cases hpq : p < q
        · simp [hpq]
        · by_cases hqp : q < p
          · simp [hpq, hqp] at h1
          · have : p = q := u8_eq_of_not_lt hpq hqp
            subst this
            simp only [hpq, if_false] at h1 ⊢
            simp only [properPrefix_cons, beq_self_eq_true, Bool.true_and] at h2
            exact ih qs c d h1 h2
  exact key _ _ _ _ hlt hpf

/-- **C27 (range scans)**: the converse for the composite index key — if one entry sorts before another in
    the index (whatever the node ids), its value is smaller or equal: walking the index in key order never
    steps back in value order, so a range scan `[lo, hi)` sees exactly a contiguous run of entries. -/
theorem index_key_order_reflected (i : Nat) (a b : OV) (n m : Nat) (ha : Valid a) (hb : Valid b)
    (hk : kind a = kind b) (h : bytesLt (encIndexKey i a n) (encIndexKey i b m) = true) :
    lt a b ∨ eqv a b := by
  rcases lt_total a b hk with hlt | heq | hgt
  · exact Or.inl hlt
  · exact Or.inr heq
  · have := bytesLt_asymm _ _ (index_key_order i b a m n hb ha hgt); rw [this] at h; cases h

/-- … and among entries with equal values (`-0.0`/`+0.0` included) the node id alone decides the order -/
theorem index_key_equal_values (i : Nat) (a b : OV) (n m : Nat) (ha : Valid a) (hb : Valid b) (h : eqv a b) :
    bytesLt (encIndexKey i a n) (encIndexKey i b m) = bytesLt (beBytes 8 n) (beBytes 8 m) := by
  unfold encIndexKey
  rw [enc_eq_of_eqv a b ha hb h, List.append_assoc, List.append_assoc, bytesLt_append_same, bytesLt_append_same]

/-- … so the index key is strictly monotone in the pair (value, node id), lexicographically: the index is a
    sorted multimap value ↦ node ids, for all values and all 64-bit node ids -/
theorem index_key_lex (i : Nat) (a b : OV) (n m : Nat) (ha : Valid a) (hb : Valid b) (hm : m < 256 ^ 8)
    (h : lt a b ∨ (eqv a b ∧ n < m)) :
    bytesLt (encIndexKey i a n) (encIndexKey i b m) = true := by
  rcases h with h | ⟨he, hn⟩
  · exact index_key_order i a b n m ha hb h
  · rw [index_key_equal_values i a b n m ha hb he]; exact beBytes_lt 8 n m hn hm

/-! ### the Spec's float order IS the IEEE-754 order (link to the dyadic float model `Nervus.F64`) -/

/-- **C27 (float order = IEEE order)**: on non-NaN doubles the Spec's `lt` (sign-magnitude key `fkey`) is exactly
    `<` of the values the bit patterns denote (`F64.ofBits`: exact IEEE-754 field decoding, compared as dyadic
    rationals) — no assumption about "IEEE order = sign-magnitude order" is left. -/
theorem float_lt_is_ieee (a b : Nat) (ha : Valid (.float a)) (hb : Valid (.float b)) :
    lt (.float a) (.float b) ↔ F64.lt (F64.ofBits a) (F64.ofBits b) = true :=
  fkey_lt_iff a b ha.1 hb.1 ha.2 hb.2

/-- **C27 (float equality = IEEE equality)**: the Spec's `eqv` on non-NaN doubles is IEEE `==` (±0.0 equal) -/
theorem float_eqv_is_ieee (a b : Nat) (ha : Valid (.float a)) (hb : Valid (.float b)) :
    eqv (.float a) (.float b) ↔ F64.eqv (F64.ofBits a) (F64.ofBits b) = true :=
  fkey_eq_iff a b ha.1 hb.1 ha.2 hb.2

/-! non-vacuity: concrete values meeting the hypotheses, including the ±0.0 corner -/
example : Valid (.float 0x8000000000000000) ∧ Valid (.float 0) ∧
    eqv (.float 0x8000000000000000) (.float 0) := by decide
example : enc (.float 0x8000000000000000) = enc (.float 0) := by decide
example : Valid (.int (-9223372036854775808)) ∧ Valid (.int 9223372036854775807) ∧
    lt (.int (-9223372036854775808)) (.int 9223372036854775807) := by decide
example : lt (.str [0x61]) (.str [0x61, 0x00]) ∧ lt (.str [0x61, 0x00]) (.str [0x61, 0x00, 0x78]) := by decide
/-- `-inf < -0.0 = +0.0 < 5e-324 < +inf` -/
example : lt (.float 0xFFF0000000000000) (.float 0x8000000000000000) ∧
    lt (.float 0) (.float 1) ∧ lt (.float 1) (.float 0x7FF0000000000000) := by decide

end Nervus.Props.C27
