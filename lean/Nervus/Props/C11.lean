/-
  C11 — Cypher read results match reference semantics.
  Statements only (helper lemmas live in Nervus.Proofs.Cypher*).
  Spec: Nervus.Spec.Denote (`denote`).  Model: Nervus.Model.QCompile (`compile`, pinned by the EXPLAIN text),
  Nervus.Model.QExec (`exec`), Nervus.Model.QRun (`run = exec ∘ compile`).  Everything is parametric in the
  value algebra `A` (comparison operators, ORDER BY order, aggregate folds — C23/C20/C21).

  Status: PARTIAL.  `C11_full` is false on the pinned tree (counterexample theorems below, each replayed on the
  real engine through corpus/query/*.ops; two former counterexamples were repaired by `fix:` commits).  `C11_partial_statement` (the full statement restricted to inputs
  that trigger no known finding) is the target; what is proved so far are the operator lemmas `op*`, stated over
  all graphs / tables / rows / expressions.
-/
import Nervus.Proofs.CypherOps
import Nervus.Proofs.CypherExpand
import Nervus.Model.QRun
import Nervus.Model.QAlgebra
namespace Nervus.Props.C11
open Nervus Nervus.Cy

/-- **C11 at full strength**: for every value algebra, graph and well-scoped F1 query, the modelled engine and
    the reference evaluator return the same bag of rows (or the same error class). -/
def C11_full : Prop :=
  ∀ (A : Algebra) (env : Env) (q : Query), env.g.NodesDistinct → Spec.WellScoped q → InF1 q = true →
    Agrees (Exec.run A env q) (Spec.denote A env q)

/-- the restriction that is claimed: no known finding is triggered (decidable predicate on graph + query) -/
def C11_partial_statement : Prop :=
  ∀ (A : Algebra) (env : Env) (q : Query), env.g.NodesDistinct → Spec.WellScoped q → InF1 q = true →
    NoKnownTrigger A env q = true → Agrees (Exec.run A env q) (Spec.denote A env q)

/-! ### proved obligations: one lemma per plan operator -/

/-- op 1: NodeScan + label filter = the reference binding of a fresh node pattern `(a:L1:L2…)` -/
theorem op1_scan_label (A : Algebra) (env : Env) (hg : env.g.NodesDistinct) (a : String) (labels : List String)
    (used : List RelId) :
    Exec.exec A env (Compile.applyLabelFilters (.nodeScan a labels.head?) a labels) =
      .ok ((Spec.matchPath A env used [] ⟨⟨some a, labels, []⟩, []⟩).map (·.1)) :=
  scan_label_correct A env hg a labels used

/-- op 2 (outgoing hop): on a graph without parallel copies, for a row whose hidden path column holds the
    relationships used so far in this chain, the rows MatchOut yields (hidden column erased) are — as a bag — the
    rows one step `-[ev:rels]->(d:dl)` of the reference pattern matching yields.  (`ev` is a fresh variable or
    absent; `d` may be fresh or already bound; label constraints travel in `dst_labels`.) -/
theorem op2_expand_out (A : Algebra) (g : Graph) (hnp : NoParallel g) (r : Row) (a : Nat) (rels : List String)
    (hrels : rels.Nodup) (ev : Option String) (d pa : String) (dl : List String) (used : List RelId)
    (hpa : PathRel r pa used) (hd : d ≠ pa)
    (hev : ∀ x, ev = some x → x ≠ pa ∧ x ≠ d ∧ r.get x = none) :
    ((Exec.stepOut g r a rels ev d dl (some pa)).map (eraseCol pa)).Perm
      ((Spec.matchSteps A { g } used a (eraseCol pa r) [(⟨ev, rels, .out, []⟩, ⟨some d, dl, []⟩)]).map (·.1)) :=
  expand_out_row A g hnp r a rels hrels ev d pa dl used hpa hd hev

/-- op 2': the engine's "already used" test is membership in the reference's `used` set when no identity has
    parallel copies -/
theorem op2_path_uniqueness (g : Graph) (hnp : NoParallel g) (r : Row) (pa : String) (used : List RelId) (e : RelId)
    (hpa : PathRel r pa used) : Exec.pathContains g r (some pa) e = used.contains e :=
  pathContains_eq g hnp r pa used e hpa

/-- op 3: Filter = reference WHERE -/
theorem op3_where (A : Algebra) (env : Env) (i : Plan) (e : Expr) (T : Table) (h : Exec.exec A env i = .ok T) :
    Exec.exec A env (.filter i e) = .ok (T.filter (evalBool A env · e)) :=
  where_correct A env i e T h

/-- op 3': a conjunction passes a filter exactly when all conjuncts pass (the and-chains built by
    `apply_filters_for_alias` / `apply_label_filters_for_alias`) -/
theorem op3_and_chain (A : Algebra) (env : Env) (r : Row) (es : List Expr) (e : Expr)
    (h : Compile.andChain es = some e) : evalBool A env r e = es.all (evalBool A env r) :=
  evalBool_andChain A env r es e h

/-- op 4: Project = reference projection (non-aggregating items, distinct output names) -/
theorem op4_project (A : Algebra) (env : Env) (i : Plan) (items : List Item) (T : Table)
    (h : Exec.exec A env i = .ok T) (hplain : items.any Spec.isAgg = false)
    (hnd : (items.map (·.alias)).Nodup) :
    Exec.exec A env (.project i (items.map fun it => (it.alias, Compile.itemExprOf it.expr))) =
      .ok ((Spec.projectRows A env ⟨false, items, [], none, none⟩ T).map (·.1)) :=
  project_correct A env i items T h hplain hnd

/-- op 7: Distinct = reference DISTINCT on a projected table -/
theorem op7_distinct (T : List (Row × Row)) (hcols : ∀ x ∈ T, ∀ y ∈ T, x.1.cols = y.1.cols) :
    Exec.distinct (T.map (·.1)) = (Spec.dedupBy (·.1) T).map (·.1) :=
  distinct_correct T hcols

/-- op 9a: OrderBy returns a permutation of its input -/
theorem op9_orderBy_perm (A : Algebra) (env : Env) (items : List (Expr × Bool)) (T : Table) :
    (Exec.orderBy A env items T).Perm T :=
  orderBy_perm A env items T

/-- op 9b: Skip / Limit = drop / take -/
theorem op9_skip_limit (A : Algebra) (env : Env) (i : Plan) (T : Table) (h : Exec.exec A env i = .ok T)
    (s l : Nat) : Exec.exec A env (.limit (.skip i (.int s)) (.int l)) = .ok ((T.drop s).take l) :=
  skip_limit_correct A env i T h s l

/-- op 10: Unwind = reference UNWIND -/
theorem op10_unwind (A : Algebra) (env : Env) (i : Plan) (e : Expr) (x : String) (T : Table)
    (h : Exec.exec A env i = .ok T) :
    Exec.exec A env (.unwind i e x) = .ok (Spec.denoteUnwind A env e x T) :=
  unwind_correct A env i e x T h

/-! ### non-vacuity: a concrete graph and queries that meet the hypotheses and exercise the operators -/

/-- (0:A {k:1}) -[:T]-> (1:A:B {k:2}) -[:T]-> (2), plus a self-loop (2)-[:U]->(2) -/
def g1 : Graph :=
  ⟨[⟨0, ["A"], [("k", .int 1)]⟩, ⟨1, ["A", "B"], [("k", .int 2)]⟩, ⟨2, [], []⟩],
   [⟨⟨0, "T", 1⟩, 1, []⟩, ⟨⟨1, "T", 2⟩, 1, []⟩, ⟨⟨2, "U", 2⟩, 1, []⟩]⟩

example : g1.NodesDistinct := by decide
example : NoParallel g1 := noParallel_of_nodup (by decide)
example : PathRel [("a", .node 0)] "__nervus_internal_path_0" [] := rfl
example : PathRel [("a", .node 0), ("__nervus_internal_path_0", .path [0, 1] [⟨0, "T", 1⟩])]
    "__nervus_internal_path_0" [⟨0, "T", 1⟩] := by
  intro e; simp [Row.get, List.lookup]

/-- `MATCH (n:A) WHERE n.k > 1 RETURN n.k AS k` -/
def q1 : Query :=
  [.match_ false [⟨⟨some "n", ["A"], []⟩, []⟩], .where_ (.cmp .gt (.prop "n" "k") (.lit (.int 1))),
   .return_ ⟨false, [⟨.plain (.prop "n" "k"), "k"⟩], [], none, none⟩]

example : Spec.WellScoped q1 ∧ InF1 q1 = true ∧ NoKnownTrigger small { g := g1 } q1 = true := by decide
example : okRows (Exec.run small { g := g1 } q1) = some [[("k", .int 2)]] := by decide
example : Agrees (Exec.run small { g := g1 } q1) (Spec.denote small { g := g1 } q1) := by decide

/-- `MATCH (a)-[r:T]->(b) OPTIONAL MATCH (b)-[:U]-(c) RETURN a, b, c` (expand, optional, undirected self-loop) -/
def q2 : Query :=
  [.match_ false [⟨⟨some "a", [], []⟩, [(⟨some "r", ["T"], .out, []⟩, ⟨some "b", [], []⟩)]⟩],
   .match_ true [⟨⟨some "b", [], []⟩, [(⟨none, ["U"], .both, []⟩, ⟨some "c", [], []⟩)]⟩],
   .return_ ⟨false, [⟨.plain (.var "a"), "a"⟩, ⟨.plain (.var "b"), "b"⟩, ⟨.plain (.var "c"), "c"⟩], [], none, none⟩]

example : Spec.WellScoped q2 ∧ InF1 q2 = true ∧ NoKnownTrigger small { g := g1 } q2 = true := by decide
example : Agrees (Exec.run small { g := g1 } q2) (Spec.denote small { g := g1 } q2) := by decide

/-! ### counterexamples: `C11_full` is false of the model (and of the engine: corpus/query/*.ops) -/

/-- formerly a counterexample (Distinct planned above Limit), repaired by fix ceade13:
    `UNWIND [1,1,2] AS x RETURN DISTINCT x LIMIT 2` now agrees with the reference (two rows). -/
def qDistinctLimit : Query :=
  [.unwind (.listLit [.int 1, .int 1, .int 2]) "x",
   .return_ ⟨true, [⟨.plain (.var "x"), "x"⟩], [], none, some (.int 2)⟩]

example : Agrees (Exec.run small { g := ⟨[], []⟩ } qDistinctLimit) (Spec.denote small { g := ⟨[], []⟩ } qDistinctLimit) := by
  decide

/-- two parallel copies of one relationship identity: the engine lets a chain re-use the identity
    (`MATCH (a)-[:T]->(b)<-[:T]-(c)` over (0)-[:T]->(1) ×2 yields 4 rows; injective matching on identities: 0). -/
def gParallel : Graph := ⟨[⟨0, [], []⟩, ⟨1, [], []⟩], [⟨⟨0, "T", 1⟩, 2, []⟩]⟩

def qTwoHop : Query :=
  [.match_ false [⟨⟨some "a", [], []⟩,
      [(⟨none, ["T"], .out, []⟩, ⟨some "b", [], []⟩), (⟨none, ["T"], .inn, []⟩, ⟨some "c", [], []⟩)]⟩],
   .return_ ⟨false, [⟨.plain (.var "a"), "a"⟩, ⟨.plain (.var "c"), "c"⟩], [], none, none⟩]

theorem counterexample_parallel_rel_reuse :
    ¬ Agrees (Exec.run small { g := gParallel } qTwoHop) (Spec.denote small { g := gParallel } qTwoHop) := by
  decide

/-- relationship uniqueness is tracked per chain, not per MATCH clause:
    `MATCH (a)-[r1]->(b), (c)-[r2]->(d)` over a single relationship yields a row with r1 = r2. -/
def gOneRel : Graph := ⟨[⟨0, [], []⟩, ⟨1, [], []⟩], [⟨⟨0, "T", 1⟩, 1, []⟩]⟩

def qTwoPatterns : Query :=
  [.match_ false [⟨⟨some "a", [], []⟩, [(⟨some "r1", [], .out, []⟩, ⟨some "b", [], []⟩)]⟩,
                  ⟨⟨some "c", [], []⟩, [(⟨some "r2", [], .out, []⟩, ⟨some "d", [], []⟩)]⟩],
   .return_ ⟨false, [⟨.plain (.var "r1"), "r1"⟩, ⟨.plain (.var "r2"), "r2"⟩], [], none, none⟩]

theorem counterexample_cross_pattern_uniqueness :
    ¬ Agrees (Exec.run small { g := gOneRel } qTwoPatterns) (Spec.denote small { g := gOneRel } qTwoPatterns) := by
  decide

/-- OptionalWhereFixup re-associates matches to outer rows by value: two equal outer rows each receive the
    matches of both (`UNWIND [1,1] AS x OPTIONAL MATCH (n) RETURN x, n` over one node: 4 rows instead of 2). -/
def gOneNode : Graph := ⟨[⟨0, [], []⟩], []⟩

def qOptionalDup : Query :=
  [.unwind (.listLit [.int 1, .int 1]) "x", .match_ true [⟨⟨some "n", [], []⟩, []⟩],
   .return_ ⟨false, [⟨.plain (.var "x"), "x"⟩, ⟨.plain (.var "n"), "n"⟩], [], none, none⟩]

theorem counterexample_optional_duplicate_outer :
    ¬ Agrees (Exec.run small { g := gOneNode } qOptionalDup) (Spec.denote small { g := gOneNode } qOptionalDup) := by
  decide

/-- the property map of an anonymous relationship pattern is dropped by the planner:
    `MATCH (a)-[{w: 5}]->(b)` matches a relationship without `w`. -/
def qAnonRelProps : Query :=
  [.match_ false [⟨⟨some "a", [], []⟩, [(⟨none, [], .out, [("w", .lit (.int 5))]⟩, ⟨some "b", [], []⟩)]⟩],
   .return_ ⟨false, [⟨.plain (.var "a"), "a"⟩], [], none, none⟩]

theorem counterexample_anon_rel_props :
    ¬ Agrees (Exec.run small { g := gOneRel } qAnonRelProps) (Spec.denote small { g := gOneRel } qAnonRelProps) := by
  decide

/-- a bound variable in the middle of a pattern whose end nodes are free: `MATCH (a) MATCH (b)-->(a)-->(c)` -/
def gChain : Graph :=
  ⟨[⟨0, [], []⟩, ⟨1, [], []⟩, ⟨2, [], []⟩], [⟨⟨0, "T", 1⟩, 1, []⟩, ⟨⟨1, "T", 2⟩, 1, []⟩]⟩

def qUnanchored : Query :=
  [.match_ false [⟨⟨some "a", [], []⟩, []⟩],
   .match_ false [⟨⟨some "b", [], []⟩,
      [(⟨none, [], .out, []⟩, ⟨some "a", [], []⟩), (⟨none, [], .out, []⟩, ⟨some "c", [], []⟩)]⟩],
   .return_ ⟨false, [⟨.plain (.var "a"), "a"⟩, ⟨.plain (.var "b"), "b"⟩], [], none, none⟩]

/-- formerly a counterexample (independent CartesianProduct component), repaired by fix 0536246 -/
example : Agrees (Exec.run small { g := gChain } qUnanchored) (Spec.denote small { g := gChain } qUnanchored) := by
  decide

/-- hence the full-strength statement fails (witness: OPTIONAL MATCH after two equal rows) -/
theorem C11_full_false : ¬ C11_full := by
  intro h
  exact counterexample_optional_duplicate_outer
    (h small { g := gOneNode } qOptionalDup (by decide) (by decide) (by decide))

end Nervus.Props.C11
