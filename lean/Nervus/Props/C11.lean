/-
  C11 — Cypher read results match reference semantics.
  Statements only (helper lemmas live in Nervus.Proofs.Cypher*).
  Spec: Nervus.Spec.Denote (`denote`).  Model: Nervus.Model.QCompile (`compile`, pinned by the EXPLAIN text),
  Nervus.Model.QExec (`exec`), Nervus.Model.QRun (`run = exec ∘ compile`).  Everything is parametric in the
  value algebra `A` (comparison operators, ORDER BY order, aggregate folds — C23/C20/C21).

  Status: PARTIAL.  `C11_full` is false on the pinned tree (counterexample theorems below, each replayed on the
  real engine through corpus/query/*.ops; three former counterexamples were repaired by `fix:` commits).
  `C11_partial_statement` (the full statement restricted to inputs that trigger no known finding and whose
  result is determined as a bag) is the target.  Proved:
    * `C11_core` — the clause-list induction, complete, on the MATCH-free relational core (UNWIND, WHERE, WITH,
      RETURN with DISTINCT / SKIP / LIMIT, no aggregates, no ORDER BY): compile succeeds and the plan evaluates to
      *exactly* the reference's list of rows, for every algebra, graph, parameter map and query;
    * the operator lemmas `op*` for the other plan operators, stated over all graphs / tables / rows /
      expressions: scan + labels, the three single-hop expansions (incl. the self-loop rule), join on a bound start
      variable / cartesian product for a fresh one, OptionalWhereFixup as per-row null padding, grouping and the
      empty-input aggregate row, ORDER BY = the reference's merge sort (hence sorted and stable), SKIP / LIMIT,
      DISTINCT, UNWIND.
  Not proved: the induction steps that chain these lemmas through `compile` for MATCH clauses, aggregating
  projections and ORDER BY (see props/C11.json `unproved_part`).
-/
import Nervus.Proofs.CypherOps
import Nervus.Proofs.CypherExpand
import Nervus.Proofs.CypherJoin
import Nervus.Proofs.CypherAgg
import Nervus.Proofs.CypherCore
import Nervus.Proofs.CypherF1a
import Nervus.Proofs.CypherF1aDir
import Nervus.Proofs.CypherF1b
import Nervus.Model.QRun
import Nervus.Model.QAlgebra
namespace Nervus.Props.C11
open Nervus Nervus.Cy

/-- **C11 at full strength**: for every value algebra, graph and well-scoped F1 query, the modelled engine and
    the reference evaluator return the same bag of rows (or the same error class). -/
def C11_full : Prop :=
  ∀ (A : Algebra) (env : Env) (q : Query), env.g.NodesDistinct → Spec.WellScoped q → InF1 q = true →
    Agrees (Exec.run A env q) (Spec.denote A env q)

/-- the restriction that is claimed: no known finding is triggered (decidable predicate on graph + query), the
    result is determined as a bag, and the aggregate folds do not depend on the order of their input -/
def C11_partial_statement : Prop :=
  ∀ (A : Algebra) (env : Env) (q : Query), env.g.NodesDistinct → Spec.WellScoped q → InF1 q = true →
    NoKnownTrigger A env q = true → BagDetermined q = true → AggBagInvariant A →
    Agrees (Exec.run A env q) (Spec.denote A env q)

/-! ### proved: the clause-list induction on the relational core -/

/-- **C11 on the relational core** (`InCore`: UNWIND / WHERE / WITH / RETURN, plain items, DISTINCT, SKIP, LIMIT):
    the modelled engine returns exactly the list of rows the reference denotes, or the same error — for every value
    algebra, graph, parameter map and well-scoped query.  No further hypothesis: no known finding lives here. -/
theorem C11_core (A : Algebra) (env : Env) (q : Query) (hc : InCore q = true) (hs : Spec.WellScoped q) :
    Exec.run A env q = (Spec.denote A env q).map Spec.Result.rows :=
  core_refines A env q hc hs

/-- … in particular `C11_full`'s conclusion holds on the core -/
theorem C11_core_agrees (A : Algebra) (env : Env) (q : Query) (hc : InCore q = true) (hs : Spec.WellScoped q) :
    Agrees (Exec.run A env q) (Spec.denote A env q) :=
  agrees_of_eq _ _ (core_refines A env q hc hs)

/-- **C11 on F1a, node patterns** — `MATCH (a:L1:L2…)` as the first clause, followed by any core clauses (a WHERE
    whose equality conjuncts the planner pushes down into the scan / an IndexSeek, UNWIND, WITH, RETURN with
    DISTINCT / SKIP / LIMIT): compile = anchor scan + pushed-down filters + label filters, and the modelled engine
    returns EXACTLY the reference's list of rows, or the same error.  `EqSymm`: the algebra's `=` is symmetric
    (`extract_predicates` also takes `<literal> = a.k`). -/
theorem C11_F1a_node (A : Algebra) (env : Env) (hsym : EqSymm A) (hg : env.g.NodesDistinct) (a : String)
    (ls : List String) (tail : Query) (hc : coreClauses true tail = true)
    (hs : Spec.WellScoped (.match_ false [⟨⟨some a, ls, []⟩, []⟩] :: tail)) :
    Exec.run A env (.match_ false [⟨⟨some a, ls, []⟩, []⟩] :: tail) =
      (Spec.denote A env (.match_ false [⟨⟨some a, ls, []⟩, []⟩] :: tail)).map Spec.Result.rows :=
  f1a_node_refines A env hsym hg a ls tail hc hs

/-- **C11 on F1a, single outgoing hop** — `MATCH (a:La)-[ev:T1|T2…]->(d:Ld)` as the first clause, followed by core
    clauses without SKIP / LIMIT (`bagClauses`; DISTINCT is allowed: it respects permutations, `dedup_perm`), on graphs without parallel relationship copies
    (`NoParallel`, the trigger of C11-parallel-rel-reuse): the compiled plan (anchor scan + IndexSeek, label filters,
    MatchOut with destination labels and the hidden path column, WHERE equality conjuncts pushed down on all three
    aliases) and the reference return the same bag of rows.  Side conditions: distinct variable names, none of them
    (nor a later alias) the internal path name `pa0`; relationship types listed once. -/
theorem C11_F1a_hop_out (A : Algebra) (env : Env) (hsym : EqSymm A) (hg : env.g.NodesDistinct)
    (hnp : NoParallel env.g) (a d : String) (la dl rels : List String) (ev : Option String) (tail : Query)
    (hrels : rels.Nodup) (had : a ≠ d) (hev : ∀ e, ev = some e → e ≠ a ∧ e ≠ d)
    (hap : a ≠ pa0) (hdp : d ≠ pa0) (hep : ∀ e, ev = some e → e ≠ pa0) (hin : pa0 ∉ introduced tail)
    (hc : bagClauses true tail = true)
    (hs : Spec.WellScoped (.match_ false [hopPat a la ev rels d dl] :: tail)) :
    Agrees (Exec.run A env (.match_ false [hopPat a la ev rels d dl] :: tail))
      (Spec.denote A env (.match_ false [hopPat a la ev rels d dl] :: tail)) :=
  f1a_hop_out_agrees A env hsym hg hnp a d la dl rels ev tail hrels had hev hap hdp hep hin hc hs

/-- **C11 on F1a, one hop in any direction** — `MATCH (a:La)-[ev:T…]->(d:Ld)`, `<-[…]-` or `-[…]-` (undirected, with
    the self-loop rule) as the first clause, then core clauses without SKIP / LIMIT, on graphs without
    parallel copies: the same bag of rows.  For the incoming and the undirected hop the engine binds the
    destination before the relationship variable, so model and reference rows agree up to column order until the
    first projection (`HRelE`). -/
theorem C11_F1a_hop (A : Algebra) (env : Env) (hsym : EqSymm A) (hg : env.g.NodesDistinct)
    (hnp : NoParallel env.g) (dir : Dir) (a d : String) (la dl rels : List String) (ev : Option String)
    (tail : Query) (hrels : rels.Nodup) (had : a ≠ d) (hev : ∀ e, ev = some e → e ≠ a ∧ e ≠ d)
    (hap : a ≠ pa0) (hdp : d ≠ pa0) (hep : ∀ e, ev = some e → e ≠ pa0) (hin : pa0 ∉ introduced tail)
    (hc : bagClauses true tail = true)
    (hs : Spec.WellScoped (.match_ false [hopPatD dir a la ev rels d dl] :: tail)) :
    Agrees (Exec.run A env (.match_ false [hopPatD dir a la ev rels d dl] :: tail))
      (Spec.denote A env (.match_ false [hopPatD dir a la ev rels d dl] :: tail)) :=
  f1a_hop_agrees A env hsym hg hnp dir a d la dl rels ev tail hrels had hev hap hdp hep hin hc hs

/-- **F1b, first half of the OPTIONAL MATCH step** — `MATCH (a:La) OPTIONAL MATCH (a)-[ev:T…]-(d:Ld)` (any
    direction, tail not starting with WHERE) compiles to `OptionalWhereFixup (plan of the first MATCH) (one hop from the
    bound variable over that plan, hidden path column pa1) aliases`, and the tail is compiled from that loop state -/
theorem C11_F1b_compile (dir : Dir) (a d : String) (la dl rels : List String) (ev : Option String) (tail : Query)
    (had : a ≠ d) (hev : ∀ e, ev = some e → e ≠ a) (hnw : ∀ w rest, tail ≠ .where_ w :: rest) :
    ∃ st, Compile.compileClauses
        (.match_ false [⟨⟨some a, la, []⟩, []⟩] :: .match_ true [hopPatD dir a [] ev rels d dl] :: tail) {} =
      Compile.compileClauses tail { plan := some (optPlan dir a la ev rels d dl), st := st, pending := none } :=
  compileClauses_F1b dir a d la dl rels ev tail had hev hnw

/-- … its rows: every node row of the first MATCH keeps exactly its own expansions, or — when it has none — is
    emitted once with the null aliases set to null (op6 instantiated for the compiled plan: the outer rows are
    pairwise distinct because node ids are; an expansion carries its own outer row's binding and no other's); and the
    null aliases are exactly the new variables `d` and `ev` -/
theorem C11_F1b_rows (A : Algebra) (env : Env) (hg : env.g.NodesDistinct) (dir : Dir) (a d : String)
    (la dl rels : List String) (ev : Option String) (had : a ≠ d) (hap : a ≠ pa1)
    (hev : ∀ e, ev = some e → e ≠ a ∧ e ≠ d) :
    Exec.exec A env (optPlan dir a la ev rels d dl) = .ok ((nodeRows0 A env a la).flatMap fun o =>
      if (stepRowD env dir a rels ev d dl pa1 o).isEmpty then
        [(optAliases dir a la ev rels d dl).foldl (fun r x => r.set x .null) o]
      else stepRowD env dir a rels ev d dl pa1 o) ∧
    ∀ x, x ∈ optAliases dir a la ev rels d dl ↔ (x = d ∨ ev = some x) :=
  ⟨exec_optPlan A env hg dir a d la dl rels ev had hap (fun e he => (hev e he).1.symm),
   mem_optAliases dir a d la dl rels ev had hev⟩

/-- the reference's core clauses (no SKIP / LIMIT: `bagClauses`) respect "same bag of rows once the hidden
    path column is erased" — the relation between the rows of a MATCH plan and the reference's rows; with
    `C11_core_induction` this reduces an F1a query to its MATCH step -/
theorem C11_core_bag_congruence (A : Algebra) (env : Env) (pa : String) (q : Query) (b : Bool) (s s' : List String)
    (T' T : Table) (hc : bagClauses b q = true) (hs : Spec.scopeAfter s q = some s') (hpa : pa ∉ s)
    (hin : pa ∉ introduced q) (h : HRel pa T' T) :
    ∃ R' R, Spec.denoteClauses A env q T' = .ok R' ∧ Spec.denoteClauses A env q T = .ok R ∧
      R'.rows.Perm R.rows :=
  denote_bag_congr A env pa q b s s' T' T hc hs hpa hin h

/-- the induction behind it, from any intermediate state: a loop state whose plan evaluates to `T` and whose
    compile-time scope is the reference scope `s`, followed by core clauses -/
theorem C11_core_induction (A : Algebra) (env : Env) (q : Query) (b : Bool) (l : Compile.Loop) (T : Table)
    (s s' : List String) (hc : coreClauses b q = true) (hs : Spec.scopeAfter s q = some s')
    (hp : l.pending = none) (hb : b = true → l.plan.isSome = true)
    (hx : Exec.exec A env (l.plan.getD .returnOne) = .ok T)
    (hk : KOk (Compile.outKinds (l.plan.getD .returnOne)) s) :
    runLoop A env q l = (Spec.denoteClauses A env q T).map Spec.Result.rows :=
  core_induction A env q b l T s s' hc hs hp hb hx hk

/-! ### proved obligations: one lemma per plan operator -/

/-- op 1: NodeScan + label filter = the reference binding of a fresh node pattern `(a:L1:L2…)` -/
theorem op1_scan_label (A : Algebra) (env : Env) (hg : env.g.NodesDistinct) (a : String) (labels : List String)
    (used : List RelId) :
    Exec.exec A env (Compile.applyLabelFilters (.nodeScan a labels.head?) a labels) =
      .ok ((Spec.matchPath A env used [] ⟨⟨some a, labels, []⟩, []⟩).map (·.1)) :=
  scan_label_correct A env hg a labels used

/-- op 2 (outgoing hop): on a graph without parallel copies, for a row whose hidden path column holds the
    relationships used so far in this chain, the rows MatchOut yields (hidden column erased) are — as a bag — the
    rows one step `-[ev:rels]->(d:dl)` of the reference pattern matching yields.  (`ev` is a fresh variable or
    absent; `d` may be fresh or already bound; label constraints travel in `dst_labels`.) -/
theorem op2_expand_out (A : Algebra) (g : Graph) (hnp : NoParallel g) (r : Row) (a : Nat) (rels : List String)
    (hrels : rels.Nodup) (ev : Option String) (d pa : String) (dl : List String) (used : List RelId)
    (hpa : PathRel r pa used) (hd : d ≠ pa)
    (hev : ∀ x, ev = some x → x ≠ pa ∧ x ≠ d ∧ r.get x = none) :
    ((Exec.stepOut g r a rels ev d dl (some pa)).map (eraseCol pa)).Perm
      ((Spec.matchSteps A { g } used a (eraseCol pa r) [(⟨ev, rels, .out, []⟩, ⟨some d, dl, []⟩)]).map (·.1)) :=
  expand_out_row A g hnp r a rels hrels ev d pa dl used hpa hd hev

/-- op 2 (incoming hop): as `op2_expand_out` for MatchIn; the engine binds the destination before the relationship
    variable, so the rows agree up to column order (`TableEquiv`: a permutation, then position-wise equal bindings) -/
theorem op2_expand_in (A : Algebra) (g : Graph) (hnp : NoParallel g) (r : Row) (a : Nat) (rels : List String)
    (hrels : rels.Nodup) (ev : Option String) (d pa : String) (dl : List String) (used : List RelId)
    (hpa : PathRel r pa used) (hd : d ≠ pa)
    (hev : ∀ x, ev = some x → x ≠ pa ∧ x ≠ d ∧ r.get x = none) :
    TableEquiv ((Exec.stepIn g r a rels ev d dl (some pa)).map (eraseCol pa))
      ((Spec.matchSteps A { g } used a (eraseCol pa r) [(⟨ev, rels, .inn, []⟩, ⟨some d, dl, []⟩)]).map (·.1)) :=
  expand_in_row A g hnp r a rels hrels ev d pa dl used hpa hd hev

/-- op 2 (undirected hop): MatchUndirected (outgoing half, then the incoming half without self-loops) against one
    undirected step of the reference — every relationship incident to `a` once per direction it can be walked, a
    self-loop once -/
theorem op2_expand_both (A : Algebra) (g : Graph) (hnp : NoParallel g) (r : Row) (a : Nat) (rels : List String)
    (hrels : rels.Nodup) (ev : Option String) (d pa : String) (dl : List String) (used : List RelId)
    (hpa : PathRel r pa used) (hd : d ≠ pa)
    (hev : ∀ x, ev = some x → x ≠ pa ∧ x ≠ d ∧ r.get x = none) :
    TableEquiv ((Exec.stepBoth g r a rels ev d dl (some pa)).map (eraseCol pa))
      ((Spec.matchSteps A { g } used a (eraseCol pa r) [(⟨ev, rels, .both, []⟩, ⟨some d, dl, []⟩)]).map (·.1)) :=
  expand_both_row A g hnp r a rels hrels ev d pa dl used hpa hd hev

/-- op 2': the engine's "already used" test is membership in the reference's `used` set when no identity has
    parallel copies -/
theorem op2_path_uniqueness (g : Graph) (hnp : NoParallel g) (r : Row) (pa : String) (used : List RelId) (e : RelId)
    (hpa : PathRel r pa used) : Exec.pathContains g r (some pa) e = used.contains e :=
  pathContains_eq g hnp r pa used e hpa

/-- op 3: Filter = reference WHERE -/
theorem op3_where (A : Algebra) (env : Env) (i : Plan) (e : Expr) (T : Table) (h : Exec.exec A env i = .ok T) :
    Exec.exec A env (.filter i e) = .ok (T.filter (evalBool A env · e)) :=
  where_correct A env i e T h

/-- op 3': a conjunction passes a filter exactly when all conjuncts pass (the and-chains built by
    `apply_filters_for_alias` / `apply_label_filters_for_alias`) -/
theorem op3_and_chain (A : Algebra) (env : Env) (r : Row) (es : List Expr) (e : Expr)
    (h : Compile.andChain es = some e) : evalBool A env r e = es.all (evalBool A env r) :=
  evalBool_andChain A env r es e h

/-- op 4: Project = reference projection (non-aggregating items, distinct output names) -/
theorem op4_project (A : Algebra) (env : Env) (i : Plan) (items : List Item) (T : Table)
    (h : Exec.exec A env i = .ok T) (hplain : items.any Spec.isAgg = false)
    (hnd : (items.map (·.alias)).Nodup) :
    Exec.exec A env (.project i (items.map fun it => (it.alias, Compile.itemExprOf it.expr))) =
      .ok ((Spec.projectRows A env ⟨false, items, [], none, none⟩ T).map (·.1)) :=
  project_correct A env i items T h hplain hnd

/-- op 5a (a further MATCH joins on a shared variable): matching a pattern whose start variable is already bound
    to a live node is a label check on the existing row followed by the hops from that node -/
theorem op5_join_bound (A : Algebra) (env : Env) (hg : env.g.NodesDistinct) (used : List RelId) (r : Row)
    (a : String) (nd : NodeRec) (hmem : nd ∈ env.g.nodes) (hr : r.get a = some (.node nd.id)) (ls : List String)
    (steps : List (RelPat × NodePat)) :
    Spec.matchPath A env used r ⟨⟨some a, ls, []⟩, steps⟩ =
      if ls.all (env.g.hasLabel nd.id) then Spec.matchSteps A env used nd.id r steps else [] :=
  matchPath_bound A env hg used r a nd hmem hr ls steps

/-- … and that label check is what the planner's label Filter evaluates on such a row -/
theorem op5_join_label_filter (A : Algebra) (env : Env) (r : Row) (a : String) (n : Nat) (ls : List String)
    (e : Expr) (hr : r.get a = some (.node n))
    (he : Compile.andChain (ls.map fun l => Expr.bool .or (.isNull (.var a)) (.hasLabel (.var a) l)) = some e) :
    evalBool A env r e = ls.all (env.g.hasLabel n) :=
  evalBool_labelFilter_bound A env r a n ls e hr he

/-- op 5b (no shared variable): a fresh start variable ranges over the labelled nodes, appended to the row — the
    rows of `CartesianProduct(existing, NodeScan a)` under the label filter -/
theorem op5_join_fresh (A : Algebra) (env : Env) (used : List RelId) (r : Row) (a : String) (ha : a ∉ r.cols)
    (ls : List String) :
    (Spec.matchPath A env used r ⟨⟨some a, ls, []⟩, []⟩).map (·.1) =
      (env.g.nodes.filter fun n => ls.all (env.g.hasLabel n.id)).map fun n => r ++ [(a, Val.node n.id)] :=
  matchPath_fresh A env used r a ha ls

/-- op 6 (OPTIONAL MATCH): over pairwise distinct outer rows OptionalWhereFixup keeps for every outer row exactly
    its own matches, or pads it with nulls when it has none — the reference's per-row rule.  (`hnd` is what the
    known finding C11-optional-duplicate-outer-rows violates.) -/
theorem op6_optional_fixup (outer : Table) (ext : Row → Table) (nulls : List String) (hnd : outer.Nodup)
    (hself : ∀ o ∈ outer, ∀ r ∈ ext o, Exec.containsAllBindings r o = true)
    (hother : ∀ o ∈ outer, ∀ o' ∈ outer, o' ≠ o → ∀ r ∈ ext o', Exec.containsAllBindings r o = false) :
    Exec.optionalFixup outer (outer.flatMap ext) nulls =
      outer.flatMap fun o => if (ext o).isEmpty then [nulls.foldl (fun r a => r.set a .null) o] else ext o :=
  optionalFixup_correct outer ext nulls hnd hself hother

/-- op 6': the engine's padding (overwrite the new aliases with null) is the reference's (bind the still unbound
    pattern variables to null) when none of them is bound -/
theorem op6_padding (r : Row) (xs : List String) (h : ∀ x ∈ xs, r.get x = none) :
    Spec.padNulls r xs = xs.foldl (fun r a => r.set a .null) r :=
  padNulls_eq_foldl r xs h

/-- **op 6'' (OPTIONAL MATCH never removes outer rows)** — for ANY outer plan and ANY filtered-side plan (in particular
    `Filter p` over the expanded pattern, for every predicate `p`: over outer variables, optional ones, both or
    none), and however often outer rows repeat: projected on the outer columns, the output of OptionalWhereFixup is
    the outer table with every row repeated once per row of the filtered side that carries its bindings — and ONCE
    when there is none.  So no outer row is dropped (`∀ r ∈ outer, r ∈ …`), the output is never shorter than the
    outer table (`count(*)` counts padded rows), and a row without match appears exactly once. -/
theorem op6_optional_preserves_outer (A : Algebra) (env : Env) (o f : Plan) (ns cols : List String)
    (outer filtered : Table) (ho : Exec.exec A env o = .ok outer) (hf : Exec.exec A env f = .ok filtered)
    (hcols : ∀ r ∈ outer, r.cols = cols) (hnd : cols.Nodup) (hdisj : ∀ a ∈ ns, a ∉ cols) :
    ∃ out, Exec.exec A env (.optionalWhereFixup o f ns) = .ok out ∧
      out.map (restrictCols cols) = (outer.flatMap fun r =>
        List.replicate (max 1 (filtered.filter fun x => Exec.containsAllBindings x r).length) r) ∧
      (∀ r ∈ outer, r ∈ out.map (restrictCols cols)) ∧ outer.length ≤ out.length :=
  optionalWhereFixup_preserves_outer A env o f ns cols outer filtered ho hf hcols hnd hdisj

/-- the outer side the planner builds is the incoming plan itself — in the model (`OPTIONAL MATCH … WHERE w`: outer =
    the plan before the clause, filtered = `Filter w` over the expanded pattern) … -/
theorem op6_outer_side_model (pats : List PathPat) (w : Expr) (rest : Query) (l : Compile.Loop) :
    Compile.compileClauses (.match_ true pats :: .where_ w :: rest) l =
      (do
        let (plan, st) ← Compile.compileMatch l.plan pats (Compile.extractPredicates w []) l.st
        let aliases := Compile.optionalAliases pats
          (match l.plan with | some p => Compile.outKinds p | none => []) (Compile.outKinds plan)
        Compile.exprVarsOk (Compile.outKinds plan ++ aliases.map (·, Kind.unknown)) w
        Compile.compileClauses rest
          { plan := some (.optionalWhereFixup (l.plan.getD .returnOne) (.filter plan w) aliases), st := st }) :=
  compile_optional_where_outer pats w rest l

/-- … and in the source: table regenerated from compile_core.rs (both construction sites put `previous_plan`,
    unmodified, on the outer side; the recogniser fails on any other shape) -/
theorem op6_outer_side_tie : Generated.optionalOuterSideIsIncomingPlan = true ∧ Generated.optionalFixupSites = 2 := by
  decide

/-- op 8a (implicit grouping): the executor's groups are the reference's, and those are: one group per distinct
    key, holding exactly the input rows with that key in input order, none empty, every row in one -/
theorem op8_groups (gb : List String) (T : Table) :
    Exec.groupRows gb T = Spec.groupBy (fun r => gb.filterMap r.get) T ∧
    GroupsOf (fun r => gb.filterMap r.get) T (Spec.groupBy (fun r => gb.filterMap r.get) T) :=
  ⟨groupRows_eq gb T, groupBy_groups _ T⟩

/-- op 8b (aggregation without grouping keys): exactly one row aggregating the whole input — also over the empty
    input (the "empty-input row": count = 0, min = null, …) -/
theorem op8_aggregate_global (A : Algebra) (env : Env) (aggs : List (AggFn × String)) (T : Table) :
    Exec.aggregate A env [] aggs T =
      [aggs.foldl (fun (r : Row) (p : AggFn × String) => r.set p.2 (Exec.aggValue A env p.1 T)) []] :=
  aggregate_global A env aggs T

/-- op 8c (aggregation with grouping keys): one row per reference group (so none over the empty input) -/
theorem op8_aggregate_keyed (A : Algebra) (env : Env) (gb : List String) (hgb : gb.isEmpty = false)
    (aggs : List (AggFn × String)) (T : Table) :
    Exec.aggregate A env gb aggs T =
      (Spec.groupBy (fun r => gb.filterMap r.get) T).map fun (p : List Val × Table) =>
        aggs.foldl (fun (r : Row) (q : AggFn × String) => r.set q.2 (Exec.aggValue A env q.1 p.2))
          ((gb.zip p.1).foldl (fun (r : Row) (kv : String × Val) => r.set kv.1 kv.2) []) :=
  aggregate_keyed A env gb hgb aggs T

/-- op 7: Distinct = reference DISTINCT on a projected table -/
theorem op7_distinct (T : List (Row × Row)) (hcols : ∀ x ∈ T, ∀ y ∈ T, x.1.cols = y.1.cols) :
    Exec.distinct (T.map (·.1)) = (Spec.dedupBy (·.1) T).map (·.1) :=
  distinct_correct T hcols

/-- op 9a: OrderBy returns a permutation of its input -/
theorem op9_orderBy_perm (A : Algebra) (env : Env) (items : List (Expr × Bool)) (T : Table) :
    (Exec.orderBy A env items T).Perm T :=
  orderBy_perm A env items T

/-- op 9a': OrderBy is the (stable) merge sort of its input by the reference comparator `rowLe` — the very list the
    reference's ORDER BY denotes (`Spec.keyLe` is `rowLe` on the row the keys are evaluated in) -/
theorem op9_orderBy_mergeSort (A : Algebra) (env : Env) (items : List (Expr × Bool)) (T : Table) :
    Exec.orderBy A env items T = T.mergeSort (rowLe A env items) ∧
    ∀ a b : Row × Row, Spec.keyLe A env items a b = rowLe A env items a.2 b.2 :=
  ⟨orderBy_eq_mergeSort A env items T, keyLe_eq_rowLe A env items⟩

/-- op 9a'' (sortedness): when the value order is a total preorder (`CmpLaws`, C23), the output of OrderBy is
    sorted — no row is followed, anywhere later, by a row that the comparator puts strictly before it — and equal
    rows keep their input order -/
theorem op9_orderBy_sorted (A : Algebra) (env : Env) (h : CmpLaws A.ord) (items : List (Expr × Bool)) (T : Table) :
    ((Exec.orderBy A env items T).Pairwise fun a b => rowLe A env items a b = true) ∧
    ∀ a b, rowLe A env items a b = true → [a, b].Sublist T → [a, b].Sublist (Exec.orderBy A env items T) :=
  ⟨orderBy_sorted A env h items T, fun a b => orderBy_stable A env h items T a b⟩

/-- op 9b: Skip / Limit = drop / take -/
theorem op9_skip_limit (A : Algebra) (env : Env) (i : Plan) (T : Table) (h : Exec.exec A env i = .ok T)
    (s l : Nat) : Exec.exec A env (.limit (.skip i (.int s)) (.int l)) = .ok ((T.drop s).take l) :=
  skip_limit_correct A env i T h s l

/-- op 10: Unwind = reference UNWIND -/
theorem op10_unwind (A : Algebra) (env : Env) (i : Plan) (e : Expr) (x : String) (T : Table)
    (h : Exec.exec A env i = .ok T) :
    Exec.exec A env (.unwind i e x) = .ok (Spec.denoteUnwind A env e x T) :=
  unwind_correct A env i e x T h

/-! ### non-vacuity: a concrete graph and queries that meet the hypotheses and exercise the operators -/

/-- (0:A {k:1}) -[:T]-> (1:A:B {k:2}) -[:T]-> (2), plus a self-loop (2)-[:U]->(2) -/
def g1 : Graph :=
  ⟨[⟨0, ["A"], [("k", .int 1)]⟩, ⟨1, ["A", "B"], [("k", .int 2)]⟩, ⟨2, [], []⟩],
   [⟨⟨0, "T", 1⟩, 1, []⟩, ⟨⟨1, "T", 2⟩, 1, []⟩, ⟨⟨2, "U", 2⟩, 1, []⟩]⟩

example : g1.NodesDistinct := by decide
example : NoParallel g1 := noParallel_of_nodup (by decide)
example : PathRel [("a", .node 0)] "__nervus_internal_path_0" [] := rfl
example : PathRel [("a", .node 0), ("__nervus_internal_path_0", .path [0, 1] [⟨0, "T", 1⟩])]
    "__nervus_internal_path_0" [⟨0, "T", 1⟩] := by
  intro e; simp [Row.get, List.lookup]

/-- `MATCH (n:A) WHERE n.k > 1 RETURN n.k AS k` -/
def q1 : Query :=
  [.match_ false [⟨⟨some "n", ["A"], []⟩, []⟩], .where_ (.cmp .gt (.prop "n" "k") (.lit (.int 1))),
   .return_ ⟨false, [⟨.plain (.prop "n" "k"), "k"⟩], [], none, none⟩]

example : Spec.WellScoped q1 ∧ InF1 q1 = true ∧ NoKnownTrigger small { g := g1 } q1 = true := by decide
example : okRows (Exec.run small { g := g1 } q1) = some [[("k", .int 2)]] := by decide
example : Agrees (Exec.run small { g := g1 } q1) (Spec.denote small { g := g1 } q1) := by decide

/-- `MATCH (a)-[r:T]->(b) OPTIONAL MATCH (b)-[:U]-(c) RETURN a, b, c` (expand, optional, undirected self-loop) -/
def q2 : Query :=
  [.match_ false [⟨⟨some "a", [], []⟩, [(⟨some "r", ["T"], .out, []⟩, ⟨some "b", [], []⟩)]⟩],
   .match_ true [⟨⟨some "b", [], []⟩, [(⟨none, ["U"], .both, []⟩, ⟨some "c", [], []⟩)]⟩],
   .return_ ⟨false, [⟨.plain (.var "a"), "a"⟩, ⟨.plain (.var "b"), "b"⟩, ⟨.plain (.var "c"), "c"⟩], [], none, none⟩]

example : Spec.WellScoped q2 ∧ InF1 q2 = true ∧ NoKnownTrigger small { g := g1 } q2 = true := by decide
example : Agrees (Exec.run small { g := g1 } q2) (Spec.denote small { g := g1 } q2) := by decide

/-- q1 = `MATCH (n:A) WHERE n.k > 1 RETURN n.k AS k` is an F1a node-pattern query; so is the push-down case
    `MATCH (n:A) WHERE n.k = 2 RETURN n` (IndexSeek + pushed filter) -/
example : coreClauses true q1.tail = true := by decide
def q1b : Query :=
  [.match_ false [⟨⟨some "n", ["A"], []⟩, []⟩], .where_ (.cmp .eq (.prop "n" "k") (.lit (.int 2))),
   .return_ ⟨false, [⟨.plain (.var "n"), "n"⟩], [], none, none⟩]
example : coreClauses true q1b.tail = true ∧ Spec.WellScoped q1b := by decide
example : okRows (Exec.run small { g := g1 } q1b) = some [[("n", .node 1)]] := by decide

/-- `MATCH (a:A)-[r:T]->(b) WHERE a.k = 1 RETURN b.k AS k` meets every hypothesis of `C11_F1a_hop_out` -/
def q5tail : Query :=
  [.where_ (.cmp .eq (.prop "a" "k") (.lit (.int 1))), .return_ ⟨false, [⟨.plain (.prop "b" "k"), "k"⟩], [], none, none⟩]
example : bagClauses true q5tail = true ∧ pa0 ∉ introduced q5tail ∧ "a" ≠ pa0 ∧ "b" ≠ pa0 ∧ "r" ≠ pa0 ∧
    Spec.WellScoped (.match_ false [hopPat "a" ["A"] (some "r") ["T"] "b" []] :: q5tail) := by decide
example : okRows (Exec.run small { g := g1 } (.match_ false [hopPat "a" ["A"] (some "r") ["T"] "b" []] :: q5tail)) =
    some [[("k", .int 2)]] := by decide

/-- the undirected instance `MATCH (a:A)-[r:T]-(b) WHERE a.k = 1 RETURN b.k AS k` (hypotheses as for q5tail) -/
example : Spec.WellScoped (.match_ false [hopPatD .both "a" ["A"] (some "r") ["T"] "b" []] :: q5tail) := by decide
example : okRows (Exec.run small { g := g1 } (.match_ false [hopPatD .both "a" ["A"] (some "r") ["T"] "b" []] :: q5tail)) =
    some [[("k", .int 2)]] := by decide

/-- `UNWIND [3,1,1] AS x WITH DISTINCT x AS y SKIP 1 WHERE y < 5 RETURN y AS z LIMIT 3` is a core query -/
def q3 : Query :=
  [.unwind (.listLit [.int 3, .int 1, .int 1]) "x",
   .with_ ⟨true, [⟨.plain (.var "x"), "y"⟩], [], some (.int 1), none⟩ none,
   .where_ (.cmp .lt (.var "y") (.lit (.int 5))),
   .return_ ⟨false, [⟨.plain (.var "y"), "z"⟩], [], none, some (.int 3)⟩]

example : InCore q3 = true ∧ Spec.WellScoped q3 := by decide
example : okRows (Exec.run small { g := g1 } q3) = some [[("z", .int 1)]] := by decide
/-- a core query on which both sides fail alike (negative LIMIT) -/
example : okRows (Exec.run small { g := g1 }
    [.return_ ⟨false, [⟨.plain (.lit (.int 1)), "a"⟩], [], none, some (.int (-1))⟩]) = none := by decide

/-- `MATCH (a:A) OPTIONAL MATCH (a)-[:T]->(b) WHERE a.k > 1 RETURN a.k AS k, b`: the outer-only predicate is false on
    node 0 (k = 1) and true on node 1 (k = 2); node 0 stays, padded -/
def q4 : Query :=
  [.match_ false [⟨⟨some "a", ["A"], []⟩, []⟩],
   .match_ true [⟨⟨some "a", [], []⟩, [(⟨none, ["T"], .out, []⟩, ⟨some "b", [], []⟩)]⟩],
   .where_ (.cmp .gt (.prop "a" "k") (.lit (.int 1))),
   .return_ ⟨false, [⟨.plain (.prop "a" "k"), "k"⟩, ⟨.plain (.var "b"), "b"⟩], [], none, none⟩]

example : Spec.WellScoped q4 ∧ InF1 q4 = true ∧ NoKnownTrigger small { g := g1 } q4 = true := by decide
example : okRows (Exec.run small { g := g1 } q4) =
    some [[("k", .int 1), ("b", .null)], [("k", .int 2), ("b", .node 2)]] := by decide
example : Agrees (Exec.run small { g := g1 } q4) (Spec.denote small { g := g1 } q4) := by decide

/-! ### counterexamples: `C11_full` is false of the model (and of the engine: corpus/query/*.ops) -/

/-- formerly a counterexample (Distinct planned above Limit), repaired by fix ceade13:
    `UNWIND [1,1,2] AS x RETURN DISTINCT x LIMIT 2` now agrees with the reference (two rows). -/
def qDistinctLimit : Query :=
  [.unwind (.listLit [.int 1, .int 1, .int 2]) "x",
   .return_ ⟨true, [⟨.plain (.var "x"), "x"⟩], [], none, some (.int 2)⟩]

example : Agrees (Exec.run small { g := ⟨[], []⟩ } qDistinctLimit) (Spec.denote small { g := ⟨[], []⟩ } qDistinctLimit) := by
  decide
example : InCore qDistinctLimit = true ∧ Spec.WellScoped qDistinctLimit := by decide

/-- two parallel copies of one relationship identity: the engine lets a chain re-use the identity
    (`MATCH (a)-[:T]->(b)<-[:T]-(c)` over (0)-[:T]->(1) ×2 yields 4 rows; injective matching on identities: 0). -/
def gParallel : Graph := ⟨[⟨0, [], []⟩, ⟨1, [], []⟩], [⟨⟨0, "T", 1⟩, 2, []⟩]⟩

def qTwoHop : Query :=
  [.match_ false [⟨⟨some "a", [], []⟩,
      [(⟨none, ["T"], .out, []⟩, ⟨some "b", [], []⟩), (⟨none, ["T"], .inn, []⟩, ⟨some "c", [], []⟩)]⟩],
   .return_ ⟨false, [⟨.plain (.var "a"), "a"⟩, ⟨.plain (.var "c"), "c"⟩], [], none, none⟩]

theorem counterexample_parallel_rel_reuse :
    ¬ Agrees (Exec.run small { g := gParallel } qTwoHop) (Spec.denote small { g := gParallel } qTwoHop) := by
  decide

/-- relationship uniqueness is tracked per chain, not per MATCH clause:
    `MATCH (a)-[r1]->(b), (c)-[r2]->(d)` over a single relationship yields a row with r1 = r2. -/
def gOneRel : Graph := ⟨[⟨0, [], []⟩, ⟨1, [], []⟩], [⟨⟨0, "T", 1⟩, 1, []⟩]⟩

def qTwoPatterns : Query :=
  [.match_ false [⟨⟨some "a", [], []⟩, [(⟨some "r1", [], .out, []⟩, ⟨some "b", [], []⟩)]⟩,
                  ⟨⟨some "c", [], []⟩, [(⟨some "r2", [], .out, []⟩, ⟨some "d", [], []⟩)]⟩],
   .return_ ⟨false, [⟨.plain (.var "r1"), "r1"⟩, ⟨.plain (.var "r2"), "r2"⟩], [], none, none⟩]

theorem counterexample_cross_pattern_uniqueness :
    ¬ Agrees (Exec.run small { g := gOneRel } qTwoPatterns) (Spec.denote small { g := gOneRel } qTwoPatterns) := by
  decide

/-- OptionalWhereFixup re-associates matches to outer rows by value: two equal outer rows each receive the
    matches of both (`UNWIND [1,1] AS x OPTIONAL MATCH (n) RETURN x, n` over one node: 4 rows instead of 2). -/
def gOneNode : Graph := ⟨[⟨0, [], []⟩], []⟩

def qOptionalDup : Query :=
  [.unwind (.listLit [.int 1, .int 1]) "x", .match_ true [⟨⟨some "n", [], []⟩, []⟩],
   .return_ ⟨false, [⟨.plain (.var "x"), "x"⟩, ⟨.plain (.var "n"), "n"⟩], [], none, none⟩]

theorem counterexample_optional_duplicate_outer :
    ¬ Agrees (Exec.run small { g := gOneNode } qOptionalDup) (Spec.denote small { g := gOneNode } qOptionalDup) := by
  decide

/-- a MATCH on a variable that an OPTIONAL MATCH left null keeps the row:
    `MATCH (n1) OPTIONAL MATCH (n1)-[:X]->(n2) MATCH (n2) RETURN n1` over one node returns one row, the reference none -/
def qNullBoundMatch : Query :=
  [.match_ false [⟨⟨some "n1", [], []⟩, []⟩],
   .match_ true [⟨⟨some "n1", [], []⟩, [(⟨none, ["X"], .out, []⟩, ⟨some "n2", [], []⟩)]⟩],
   .match_ false [⟨⟨some "n2", [], []⟩, []⟩],
   .return_ ⟨false, [⟨.plain (.var "n1"), "n1"⟩], [], none, none⟩]

theorem counterexample_match_null_bound_variable :
    ¬ Agrees (Exec.run small { g := gOneNode } qNullBoundMatch) (Spec.denote small { g := gOneNode } qNullBoundMatch) := by
  decide

example : (Findings.triggers small { g := gOneNode } qNullBoundMatch) = ["C11-match-null-bound-variable"] := by decide

/-- formerly a counterexample (the planner dropped the property map of an anonymous relationship pattern),
    repaired by fix 0a34a68: `MATCH (a)-[{w: 5}]->(b)` no longer matches a relationship without `w`. -/
def qAnonRelProps : Query :=
  [.match_ false [⟨⟨some "a", [], []⟩, [(⟨none, [], .out, [("w", .lit (.int 5))]⟩, ⟨some "b", [], []⟩)]⟩],
   .return_ ⟨false, [⟨.plain (.var "a"), "a"⟩], [], none, none⟩]

example : Agrees (Exec.run small { g := gOneRel } qAnonRelProps) (Spec.denote small { g := gOneRel } qAnonRelProps) := by
  decide

/-- a bound variable in the middle of a pattern whose end nodes are free: `MATCH (a) MATCH (b)-->(a)-->(c)` -/
def gChain : Graph :=
  ⟨[⟨0, [], []⟩, ⟨1, [], []⟩, ⟨2, [], []⟩], [⟨⟨0, "T", 1⟩, 1, []⟩, ⟨⟨1, "T", 2⟩, 1, []⟩]⟩

def qUnanchored : Query :=
  [.match_ false [⟨⟨some "a", [], []⟩, []⟩],
   .match_ false [⟨⟨some "b", [], []⟩,
      [(⟨none, [], .out, []⟩, ⟨some "a", [], []⟩), (⟨none, [], .out, []⟩, ⟨some "c", [], []⟩)]⟩],
   .return_ ⟨false, [⟨.plain (.var "a"), "a"⟩, ⟨.plain (.var "b"), "b"⟩], [], none, none⟩]

/-- formerly a counterexample (independent CartesianProduct component), repaired by fix 0536246 -/
example : Agrees (Exec.run small { g := gChain } qUnanchored) (Spec.denote small { g := gChain } qUnanchored) := by
  decide

/-- hence the full-strength statement fails (witness: OPTIONAL MATCH after two equal rows) -/
theorem C11_full_false : ¬ C11_full := by
  intro h
  exact counterexample_optional_duplicate_outer
    (h small { g := gOneNode } qOptionalDup (by decide) (by decide) (by decide))

end Nervus.Props.C11
