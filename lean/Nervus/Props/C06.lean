/-
  C06 — Storage reads agree with a graph model.
  Statements only (helper lemmas: Nervus.Proofs.Engine*).
  Model: Nervus.Model.{MemTable,Run,Csr,IdMap,Engine,EngineRun} (mirrors memtable.rs, snapshot.rs,
  read_path_*.rs, idmap.rs, engine.rs, api.rs).  Spec: Nervus.Spec.Graph (a plain property graph),
  Nervus.Spec.History (well-formedness and trigger predicates).
-/
import Nervus.Proofs.EngineReadsAgree
import Nervus.Proofs.ReadsAgreeEqv
namespace Nervus.Props.C06
open Nervus Nervus.Storage
open Nervus.GraphSpec (Graph TxOp Op Rel wellFormed txOnly noC06Trigger)

/-- **C06 at full strength**: after every compaction-free, well-formed history every read interface
    answers what the plain property graph built from the committed writes answers — including
    external-id lookup of any id.  NOT provable on this tree (see the counterexamples below). -/
def C06_full : Prop :=
  ∀ (c : Cfg) (h : List Op), txOnly h = true → wellFormed h = true → histSize h ≤ labelMax →
    ∃ s, Storage.run c h = .ok s ∧ ReadsAgree c s (GraphSpec.run h) ∧
      ∀ x, s.lookupInternal x = (GraphSpec.run h).extLookup x

/-- **C06 (proved part)**: for every compaction-free, well-formed history that triggers none of the
    known findings, every read interface — node enumeration (both), external id, labels, single
    property and whole property map of nodes and relationships, outgoing and incoming neighbours with
    multiplicity and optional type filter — agrees with the Spec graph; external-id lookup agrees for
    every id that did not belong to a deleted node.  By induction over ALL histories (`run_sim`). -/
theorem C06_partial (c : Cfg) (h : List Op) (htx : txOnly h = true) (hwf : wellFormed h = true)
    (hk : noC06Trigger h = true) (hsz : histSize h ≤ labelMax) :
    ∃ s, Storage.run c h = .ok s ∧ ReadsAgree c s (GraphSpec.run h) := by
  simp only [noC06Trigger, Bool.and_eq_true, Bool.not_eq_true'] at hk
  obtain ⟨⟨⟨k1, k2⟩, k3⟩, k4⟩ := hk
  obtain ⟨s, hrun, hsim⟩ := run_sim c h {} {} Sim.empty htx hwf (by simpa using hsz) k1 k2 k3 k4
  exact ⟨s, hrun, hsim.reads c⟩

/-- the invariant behind `C06_partial` (`abs (M.run h) = S.run h`, pointwise), reused by C04/C05/C07 -/
theorem refinement (c : Cfg) (h : List Op) (htx : txOnly h = true) (hwf : wellFormed h = true)
    (hk : noC06Trigger h = true) (hsz : histSize h ≤ labelMax) :
    ∃ s, Storage.run c h = .ok s ∧ Sim s (GraphSpec.run h) := by
  simp only [noC06Trigger, Bool.and_eq_true, Bool.not_eq_true'] at hk
  obtain ⟨⟨⟨k1, k2⟩, k3⟩, k4⟩ := hk
  exact run_sim c h {} {} Sim.empty htx hwf (by simpa using hsz) k1 k2 k3 k4

/-- **C06 with compactions**: for every well-formed history of transactions (committed or dropped,
    label operations included) and compactions — any number, anywhere — that triggers no C06 finding and
    is `compactHistSafe` (the C05 side conditions: every compaction starts from a `compactSafe` state, no
    removal over a store value), every read interface of the engine — with segments and property store
    behind the runs — agrees with the Spec graph of the history.  Composition of `C05_partial_hist`
    (compacting engine ≈ never-compacting engine) with `C06_partial` (never-compacting engine refines the
    Spec): `run_sim_compact`, `ReadsAgree.of_eqv`. -/
theorem C06_partial_compact (h : List Op) (hwf : wellFormed h = true) (hk : noC06Trigger h = true)
    (hsz : histSize h ≤ labelMax) (hs : compactHistSafe Cfg.current {} h = true) :
    ∃ s, Storage.run Cfg.current h = .ok s ∧ ReadsAgree Cfg.current s (GraphSpec.run h) := by
  simp only [noC06Trigger, Bool.and_eq_true, Bool.not_eq_true'] at hk
  obtain ⟨⟨⟨k1, k2⟩, k3⟩, k4⟩ := hk
  obtain ⟨s, u, hrun, hE, hsim, _⟩ := run_sim_compact Cfg.current (by decide) (by decide) (by decide) h hs hwf hsz
    k1 k2 k3 k4
  exact ⟨s, hrun, ReadsAgree.of_eqv hE (hsim.reads _)⟩

/-- **C06 with compactions, closes and reopens**: the same for histories that also close
    (`checkpoint_on_close` + open) and reopen the database, under `ckptHistSafe` (the side conditions of
    `C04_partial_ckpt`): after every such history all reads agree with the Spec graph. -/
theorem C06_partial_ckpt (h : List Op) (hwf : wellFormed h = true) (hk : noC06Trigger h = true)
    (hsz : histSize h ≤ labelMax) (hs : ckptHistSafe Cfg.current {} h = true) :
    ∃ s, Storage.run Cfg.current h = .ok s ∧ ReadsAgree Cfg.current s (GraphSpec.run h) := by
  simp only [noC06Trigger, Bool.and_eq_true, Bool.not_eq_true'] at hk
  obtain ⟨⟨⟨k1, k2⟩, k3⟩, k4⟩ := hk
  obtain ⟨s, u, hrun, _, hP⟩ := hist_pair h {} {} {} Pair.empty hs hwf (by simpa using hsz) k1 k2 k3 k4
  exact ⟨s, hrun, ReadsAgree.of_eqv hP.eqv (hP.sim.reads _)⟩

/-- the whole-map property read and the single-key read agree on every key, for ANY run list
    (no hypothesis at all): node and relationship versions -/
theorem whole_map_eq_single (n : Nat) (runs : List Run) (k : Nat) :
    (mergeNProps n runs [] []).lookup k = npropRuns n k runs := mergeNProps_eq_npropRuns n runs k

theorem whole_map_eq_single_edge (e : Edge) (runs : List Run) (k : Nat) :
    (mergeEProps e runs [] []).lookup k = epropRuns e k runs := mergeEProps_eq_epropRuns e runs k

/-! ### non-vacuity: a history with delete-and-recreate, parallel edges, a self loop, overwrites,
    removals, label changes, an abandoned transaction — it meets every hypothesis -/

def A : Nat := 321
def B : Nat := 322
def R : Nat := 338
def K : Nat := 363

def hGood : List Op :=
  [ .tx [.node 10 (some A), .node 11 none, .edge 0 R 1, .edge 0 R 1, .edge 1 R 1, .nprop 0 K 7,
         .eprop 0 R 1 K 5] true,
    .tx [.node 12 (some B), .edge 2 R 0] false,
    .tx [.epropDel 0 R 1 K, .tombEdge 0 R 1, .edge 0 R 1, .labelAdd 1 B, .labelDel 0 A, .nprop 0 K 8,
         .npropDel 0 K] true,
    .tx [.tombEdge 1 R 1, .tombNode 1, .node 13 (some A)] true ]

example : txOnly hGood = true ∧ wellFormed hGood = true ∧ noC06Trigger hGood = true ∧
    histSize hGood ≤ labelMax := by decide

/-! ### counterexamples (the faithful model reproduces the defects; witnesses in corpus/engine/) -/

/-- non-vacuity of `C06_partial_compact`: label operations, delete + re-create, parallel relationships and
    overwrites around two compactions -/
def hGoodCompact : List Op :=
  [ .tx [.node 10 (some A), .node 11 none, .edge 0 R 1, .edge 0 R 1, .labelAdd 1 B, .nprop 0 K 7] true,
    .compact,
    .tx [.edge 1 R 1, .eprop 0 R 1 K 5, .labelDel 1 B, .labelAdd 0 B, .nprop 0 K 8] true,
    .tx [.node 12 (some B)] false,
    .tx [.tombEdge 1 R 1, .edge 1 R 1, .node 12 (some B), .edge 2 R 0] true,
    .compact,
    .tx [.nprop 2 K 1, .edge 2 R 2] true ]

example : compactHistSafe Cfg.current {} hGoodCompact = true ∧ wellFormed hGoodCompact = true ∧
    noC06Trigger hGoodCompact = true ∧ histSize hGoodCompact ≤ labelMax := by decide

/-- properties of a deleted relationship reappear on a re-created one
    (identity = triple, `tombstone_edge` never tombstones the properties) -/
def hEdgeProps : List Op :=
  [ .tx [.node 10 (some A), .node 11 (some A), .edge 0 R 1, .eprop 0 R 1 K 5] true,
    .tx [.tombEdge 0 R 1] true,
    .tx [.edge 0 R 1] true ]

theorem C06_counterexample_edge_props :
    txOnly hEdgeProps = true ∧ wellFormed hEdgeProps = true ∧
    (∃ s, Storage.run Cfg.pinned hEdgeProps = .ok s ∧ s.edgeProp ⟨0, 1, 1⟩ K = some 5 ∧ s.interner[1]? = some R) ∧
    (GraphSpec.run hEdgeProps).eprop ⟨0, R, 1⟩ K = none ∧
    GraphSpec.trigRelPropsSurvive hEdgeProps = true := by
  refine ⟨by decide, by decide, ⟨_, rfl, by decide, by decide⟩, by decide, by decide⟩

/-- external-id lookup keeps answering for a deleted node -/
def hExtId : List Op :=
  [ .tx [.node 10 (some A)] true, .tx [.tombNode 0] true ]

theorem C06_counterexample_extid :
    txOnly hExtId = true ∧ wellFormed hExtId = true ∧ noC06Trigger hExtId = true ∧
    (∃ s, Storage.run Cfg.pinned hExtId = .ok s ∧ s.lookupInternal 10 = some 0) ∧
    (GraphSpec.run hExtId).extLookup 10 = none ∧ GraphSpec.extOfDeleted (GraphSpec.run hExtId) 10 = true := by
  refine ⟨by decide, by decide, by decide, ⟨_, rfl, by decide⟩, by decide, by decide⟩

/-- `REMOVE n:A SET n:A` in one transaction ends without the label
    (commit applies all additions before all removals) -/
def hLabelReAdd : List Op :=
  [ .tx [.node 10 (some A)] true, .tx [.labelDel 0 A, .labelAdd 0 A] true ]

theorem C06_counterexample_label_readd :
    txOnly hLabelReAdd = true ∧ wellFormed hLabelReAdd = true ∧
    (∃ s, Storage.run Cfg.pinned hLabelReAdd = .ok s ∧ s.nodeLabelNames 0 = []) ∧
    (GraphSpec.run hLabelReAdd).hasLabel 0 A = true ∧ GraphSpec.trigLabelReAdd hLabelReAdd = true := by
  refine ⟨by decide, by decide, ⟨_, rfl, by decide⟩, by decide, by decide⟩

/-- a relationship created in the transaction that deletes its end node stays visible from the other
    end (and only in that direction) -/
def hEdgeEndpoint : List Op :=
  [ .tx [.node 10 (some A), .node 11 (some A)] true, .tx [.edge 0 R 1, .tombNode 1] true ]

theorem C06_counterexample_edge_to_deleted_node :
    txOnly hEdgeEndpoint = true ∧ wellFormed hEdgeEndpoint = true ∧
    (∃ s, Storage.run Cfg.pinned hEdgeEndpoint = .ok s ∧ s.neighbors 0 none = some [⟨0, 1, 1⟩] ∧
      s.nodes = [0]) ∧
    (GraphSpec.run hEdgeEndpoint).out 0 none = [] ∧
    GraphSpec.trigEdgeAndEndpointDelete hEdgeEndpoint = true := by
  refine ⟨by decide, by decide, ⟨_, rfl, by decide, by decide⟩, by decide, by decide⟩

/-- external id 0 reads back as "no external id" -/
def hExtZero : List Op := [ .tx [.node 0 (some A)] true ]

theorem C06_counterexample_ext_zero :
    txOnly hExtZero = true ∧ wellFormed hExtZero = true ∧
    (∃ s, Storage.run Cfg.pinned hExtZero = .ok s ∧ s.resolveExternal 0 = none) ∧
    (GraphSpec.run hExtZero).extOf 0 = some 0 ∧ GraphSpec.trigExtZero hExtZero = true := by
  refine ⟨by decide, by decide, ⟨_, rfl, by decide⟩, by decide, by decide⟩

end Nervus.Props.C06
