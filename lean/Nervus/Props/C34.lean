/-
  C34 — C API results match the Rust API.
  Statements only (helper lemmas: Nervus.Proofs.CApi, Nervus.Proofs.CApiJson).
  Models: Nervus.Model.CApi (capi `clause_contains_write` / query `plan_contains_write`, both evaluated from the
  regenerated arm tables, and the clause → plan-constructor part of `compile_m3_plan`) and Nervus.Model.CApiJson
  (`value_to_json`).  Rows / values / error categories of generated statements are compared by the `capix` stream
  (C API functions against the Rust prepare/execute path on identical databases) — that part is testing.
-/
import Nervus.Proofs.CApi
import Nervus.Proofs.CApiJson
import Nervus.Proofs.Txn
namespace Nervus.Props.C34
open Nervus.CApi Nervus.CApiJson

/-! ### read / write entry points accept and refuse the same statements -/

/-- **write_classification_agrees**: for every statement that compiles — any nesting of FOREACH bodies, `CALL { }`
    subqueries and UNION arms, any of the plan shapes MATCH / WITH / RETURN / SET / REMOVE can produce — the C API's
    AST walk and the query crate's walk over the compiled plan give the same answer.  So `ndb_query` never runs a
    plan that contains a write node, and `ndb_execute_write` never sends a read plan down the write path. -/
theorem write_classification_agrees (q : Query) (p : Plan) (h : compileQuery q none = some p) :
    planContainsWrite p = queryContainsWrite q := by
  rw [compileQuery_pcw q none p h, queryContainsWrite_eq]; rfl

/-- the AST classifier is the documented notion: a statement is a write statement iff it has an updating clause
    (CREATE, MERGE, SET, REMOVE, DELETE, FOREACH) at any depth -/
theorem classifier_is_updating_clause (q : Query) : queryContainsWrite q = queryUpdates q :=
  queryContainsWrite_eq q

/-- the two entry points partition the statements: `ndb_query` takes exactly those `ndb_execute_write` refuses -/
theorem entry_points_partition (q : Query) :
    (!queryContainsWrite q) = true ↔ ¬ (queryContainsWrite q = true) := by
  cases queryContainsWrite q <;> simp

/-- sub-plans seeded with an existing plan (FOREACH bodies, WITH-led subqueries): same statement with a seed -/
theorem write_classification_agrees_seeded (q : Query) (seed p : Plan) (h : compileQuery q (some seed) = some p) :
    planContainsWrite p = (planContainsWrite seed || queryContainsWrite q) := by
  rw [compileQuery_pcw q (some seed) p h, queryContainsWrite_eq]; rfl

/-! ### value_to_json -/

/-- **json_faithful**: on values with finite floats, without blobs and without user maps that use the key `"type"`,
    the conversion is injective — a decoder reads every such value back. -/
theorem json_faithful (v w : Value) (hv : Faithful v = true) (hw : Faithful w = true) (h : toJson v = toJson w) :
    v = w := by
  have h1 := decode_toJson v hv
  have h2 := decode_toJson w hw
  rw [h] at h1
  exact Option.some.inj (h1.symm.trans h2)

theorem json_decodable (v : Value) (hv : Faithful v = true) : decode (toJson v) = some v := decode_toJson v hv

/-- **C34 at full strength** (value part): the JSON determines the value, for every value the API can return -/
def C34_full : Prop := ∀ v w : Value, toJson v = toJson w → v = w

/-! ### non-vacuity -/

/-- `MATCH … WHERE … CALL { MATCH … RETURN } FOREACH (… | CREATE … FOREACH (… | SET …)) RETURN … UNION MATCH … DELETE … RETURN` -/
def demoQuery : Query :=
  .cons (.match_ false 3) (.cons .where_ (.cons (.callSub (.cons (.match_ true 1) (.cons (.return_ 1) .nil)))
    (.cons (.foreach (.cons .create (.cons (.foreach (.cons (.set .all) .nil)) .nil)))
      (.cons (.return_ 2) (.cons (.union (.cons (.match_ false 2) (.cons .delete (.cons (.return_ 0) .nil)))) .nil)))))

example : (compileQuery demoQuery none).isSome = true := by decide
example : queryContainsWrite demoQuery = true := by decide
/-- a read statement with a subquery and a UNION: classified read on both sides -/
def demoRead : Query :=
  .cons (.callSub (.cons (.match_ false 0) (.cons (.return_ 0) .nil)))
    (.cons (.return_ 1) (.cons (.union (.cons .unwind (.cons (.return_ 3) .nil))) .nil))
example : (compileQuery demoRead none).map planContainsWrite = some false ∧ queryContainsWrite demoRead = false := by
  decide
/-- a write hidden in a subquery inside a UNION arm is found by both -/
def demoHidden : Query :=
  .cons (.return_ 0) (.cons (.union (.cons (.callSub (.cons .merge (.cons (.return_ 0) .nil)))
    (.cons (.return_ 0) .nil))) .nil)
example : (compileQuery demoHidden none).map planContainsWrite = some true ∧ queryContainsWrite demoHidden = true := by
  decide
example : Faithful (.list (.cons (.float 0x3FF8000000000000) (.cons (.map (.cons "a" (.node 3 ["A"] (.cons "k" (.int 1) .nil)) .nil))
    (.cons (.datetime 5) .nil)))) = true := by decide

/-! ### the lossy arms (known findings), replayed by corpus/capix/*.ops -/

/-- NaN and ±∞ become `null`: indistinguishable from a missing value and from each other
    (`RETURN 0.0/0.0`, `RETURN 1.0/0.0` through ndb_query). -/
theorem counterexample_nonfinite_is_null :
    toJson (.float 0x7FF8000000000000) = toJson .null ∧ toJson (.float 0x7FF0000000000000) = toJson .null ∧
      toJson (.float 0xFFF0000000000000) = toJson (.float 0x7FF8000000000000) := by
  have h1 : isFinite 0x7FF8000000000000 = false := by decide
  have h2 : isFinite 0x7FF0000000000000 = false := by decide
  have h3 : isFinite 0xFFF0000000000000 = false := by decide
  simp [toJson, h1, h2, h3]

/-- a blob is reported by its length only -/
theorem counterexample_blob_length_only : toJson (.blob [1, 2, 3]) = toJson (.blob [9, 9, 9]) ∧
    (Value.blob [1, 2, 3] ≠ .blob [9, 9, 9]) := by
  refine ⟨by simp [toJson], fun h => ?_⟩
  injection h with h
  simp at h

/-- the tagged encodings collide with user maps that use the same keys: a stored datetime and the map
    `{type: 'datetime', value: 5}` give the same JSON -/
theorem counterexample_tag_collision :
    toJson (.datetime 5) = toJson (.map (.cons "type" (.str "datetime") (.cons "value" (.int 5) .nil))) := by
  simp [toJson, toJsonKVs]

theorem C34_full_false : ¬ C34_full := fun h => by
  have := h (.float 0x7FF8000000000000) .null counterexample_nonfinite_is_null.1
  cases this


/-! ### rows are converted independently of each other -/

/-- what the source does today: `execute_read_rows` reifies every value of every row (regenerated; the recogniser
    rejects a conversion that looks at other rows first) -/
theorem reifies_per_row : Generated.capiReifiesPerRow = true := by decide

/-- **rows_converted_independently**: the JSON of a result is the JSON of its first row followed by the JSON of
    the rest — for every result, whatever the other rows hold (null, scalars, empty lists in some rows and nodes,
    also nested, in others).  In particular the same row gives the same JSON in every result set it occurs in. -/
theorem rows_converted_independently (look : Nat → Value) (r : Row) (rs : List Row) :
    rowsJson look (r :: rs) = rowJson look r :: rowsJson look rs := by
  simp [rowsJson, reifies_per_row]

theorem row_json_context_free (look : Nat → Value) (r : Row) (before after before' after' : List Row) :
    (rowsJson look (before ++ r :: after))[before.length]? = (rowsJson look (before' ++ r :: after'))[before'.length]? := by
  simp [rowsJson, reifies_per_row]

/-- a heterogeneous column: the first row holds null, the second a node reference -/
def hetRows : List Row := [[("v", .null)], [("v", .nodeId 7)]]
def hetLook : Nat → Value := fun id => .node id ["A"] (.cons "k" (.int 2) .nil)

/-- non-vacuity: the node of the second row comes out materialised -/
example : rowsJson hetLook hetRows = [rowJson hetLook [("v", .null)], rowJson hetLook [("v", .nodeId 7)]] := by
  simp [rowsJson, reifies_per_row, hetRows]

/-- **counterexample for a first-row policy** (the shape of seeded fault C34-seed1): deciding from the first row
    which columns hold graph references leaves the node of a later row as a bare `{type: node_id, value: 7}`. -/
theorem counterexample_first_row_policy :
    rowsJsonFirstRowPolicy hetLook hetRows ≠ hetRows.map (rowJson hetLook) ∧
      rowsJsonFirstRowPolicy hetLook hetRows.reverse = hetRows.reverse.map (rowJson hetLook) := by
  constructor
  · intro h
    simp [rowsJsonFirstRowPolicy, hetRows, rowJson, holdsRef, reify, hetLook, toJson, toJsonKVs] at h
  · simp [rowsJsonFirstRowPolicy, hetRows, rowJson, holdsRef, reify, hetLook, toJson, toJsonKVs]


/-! ### the auto-commit write entry point commits whatever the reported count (Nervus.Model.Txn) -/

section AutoCommit
open Nervus.Txn

/-- what the source does today: nothing stands between `execute_mixed`'s success and `txn.commit()` in
    `execute_write_count` (regenerated; an early return in between is rejected by the recogniser) -/
theorem commit_is_unconditional : Generated.capiAutoCommitUnconditional = true := by decide

/-- **autocommit_persists_staged**: after a successful `ndb_execute_write` the committed graph is committed ⊕ the
    writes the statement staged — for every state, every statement, whatever write count the executor reports
    (the Rust path prepare → execute_mixed → commit does exactly this, so the two databases stay equal). -/
theorem autocommit_persists_staged (σ : State) (s : Stmt) (hopen : σ.staged = none)
    (hok : (exec σ.committed σ.allocated s).failed = false) :
    (codeStep σ (.auto s)).1.committed = applyAll σ.committed (exec σ.committed σ.allocated s).prims ∧
      (codeStep σ (.auto s)).2 = .ok := by
  rw [codeStep_def]
  simp [step, hopen, hok, autoCommits, autocommit_unconditional]

/-- the executor's count is not "nothing staged": `MERGE (n:A {k: 1}) ON MATCH SET n.q = false` on a database
    that holds the node stages a property write and reports 0 -/
def mergeState : State := ⟨[⟨0, 0, 1, some .t, none⟩], 1, none⟩
theorem merge_on_match_counts_zero :
    reportedCount (.mergeset 0 1 .f) (exec mergeState.committed mergeState.allocated (.mergeset 0 1 .f)) = 0 ∧
      (exec mergeState.committed mergeState.allocated (.mergeset 0 1 .f)).prims = [.setQ 0 0 .f] := by decide

/-- **counterexample for "skip the commit when the count is 0"** (the shape of seeded fault C34-seed4): the call
    reports success, the update is discarded; with the unconditional commit it is persisted. -/
theorem counterexample_skip_commit_on_zero_count :
    autoCommits false (reportedCount (.mergeset 0 1 .f)
      (exec mergeState.committed mergeState.allocated (.mergeset 0 1 .f))) = false ∧
      (codeStep mergeState (.auto (.mergeset 0 1 .f))).1.committed.map (·.q) = [some .f] := by decide

end AutoCommit

end Nervus.Props.C34
