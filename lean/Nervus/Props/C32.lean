/-
  C32 — Node identities are unique and allocation never fails.
  Statements only (helper lemmas: Nervus.Proofs.ExtId).  Model: Nervus.Model.ExtId, which mirrors
  WriteTxn::{create_node, fresh_external_id, commit}, IdMap::{load, apply_create_node} and the hint expression of
  the three node-creating executors as they are after fix 39e1c0b; the pinned tree's allocation is kept as
  `…Legacy` for the counterexample theorems.

  A history is a list of operations from the empty database: auto-commit statements, explicit transactions
  (begin / statements / commit | rollback), caller-chosen ids through the low-level API, DETACH DELETE,
  compaction, close + reopen.  A statement carries the clock-derived hints of the nodes it creates — arbitrary
  numbers, so "for all histories" is also "whatever the clock does".
-/
import Nervus.Proofs.ExtId
namespace Nervus.Props.C32
open Nervus.ExtId

/-! ### what the property demands of one history -/

/-- identities never change and are never given away again: whatever the I2E table said at some point of the
    history (internal id ↦ external id) it still says at the end — across commit, abort, compaction, reopen -/
def IdentitiesStable (ops : List Op) : Prop :=
  ∀ pre post, ops = pre ++ post → (run State.init pre).eng.i2e <+: (run State.init ops).eng.i2e

/-- no two nodes share an external id -/
def IdentitiesUnique (ops : List Op) : Prop :=
  ((run State.init ops).eng.i2e.filter (· ≠ 0)).Nodup

/-- every node has an external identity (0 is the table's "none" marker), unless the caller asked for 0 -/
def IdentitiesNamed (ops : List Op) : Prop :=
  (∀ op ∈ ops, op ≠ .raw 0) → 0 ∉ (run State.init ops).eng.i2e

/-- a node-creating statement never fails because of how identities are allocated; the only errors of a history
    are refusals of caller-chosen ids -/
def AllocationNeverFails (ops : List Op) : Prop :=
  ∀ p ∈ trace State.init ops,
    (∀ hs, p.1 = .stmt hs ∨ p.1 = .tstmt hs → p.2 = .ok ∨ p.2 = .bad) ∧ (∀ e, p.2 = .err e → ∃ x, p.1 = .raw x)

structure Good (ops : List Op) : Prop where
  stable : IdentitiesStable ops
  unique : IdentitiesUnique ops
  named : IdentitiesNamed ops
  never_fails : AllocationNeverFails ops

/-- **C32 at full strength**: every history, every clock, any volume. -/
def C32_full : Prop := ∀ ops : List Op, Good ops

/-- The id spaces are finite by format: internal ids are `u32`, external ids `u64`.  A history stays inside them
    when it attempts fewer than 2³² node creations and the largest id it can reach (`peak`: every allocation may
    push the high-water mark one past the larger of its hint and the previous mark) is below 2⁶⁴.
    Decidable on the operation sequence. -/
def InIdSpace (ops : List Op) : Prop := volume ops ≤ two32 ∧ peak 0 ops < two64

instance (ops : List Op) : Decidable (InIdSpace ops) := by unfold InIdSpace; exact inferInstance

/-- **C32** (after fix 39e1c0b): for all histories inside the id spaces and all clocks. -/
theorem C32 (ops : List Op) (h : InIdSpace ops) : Good ops := by
  obtain ⟨hv, hK⟩ := h
  have hn0 : nodesOf State.init = 0 := by simp [nodesOf, State.init, Engine.init]
  obtain ⟨r1, _, _, _, r5, r6⟩ := run_ok ops State.init 0 Inv.init Bnd.init hK (by omega)
  refine ⟨?_, r1.nodup, fun hno => (r5 hno NZ.init).i2e, fun p hp => ⟨(r6 p hp).2, (r6 p hp).1⟩⟩
  intro pre post hsplit
  subst hsplit
  rw [volume_append] at hv
  rw [peak_append] at hK
  have hKpre : peak 0 pre < two64 := Nat.lt_of_le_of_lt (peak_ge post _) hK
  obtain ⟨p1, p2, p3, _, _, _⟩ := run_ok pre State.init 0 Inv.init Bnd.init hKpre (by omega)
  obtain ⟨_, _, _, q4, _, _⟩ := run_ok post (run State.init pre) (peak 0 pre) p1 p2 hK (by omega)
  rw [run_append]
  exact q4

/-- **internal ids are fresh**: the internal id `create_node` hands out is the dense counter
    `i2e_len + |created in this transaction|`: not the id of any node of the database, not the id of any node
    created earlier in the transaction. -/
theorem internal_ids_fresh (s : State) (t t' : Txn) (ext iid : Nat) (hi : Inv s) (ht : s.txn = some t)
    (h : createNode s.eng t ext = .ok (t', iid)) :
    iid = s.eng.i2e.length + t.created.length ∧ s.eng.i2e[iid]? = none ∧ iid ∉ t.iids := by
  obtain ⟨_, _, c3, _, _⟩ := createNode_ok h
  refine ⟨c3, by rw [List.getElem?_eq_none_iff]; omega, ?_⟩
  rw [(hi.txn_ok t ht).dense, List.mem_range'_1]
  omega

/-- **the id handed out is the final identity**: committing never trips the density / duplicate checks of
    `apply_create_node`, appends exactly the transaction's nodes to the I2E table, and the `k`-th created node
    sits at the internal id it was given. -/
theorem commit_places_nodes (s : State) (t : Txn) (hi : Inv s) (ht : s.txn = some t) :
    (step s .commit).2 = .ok ∧ (step s .commit).1.eng.i2e = s.eng.i2e ++ t.exts ∧
      ∀ p ∈ t.created, (step s .commit).1.eng.i2e[p.2]? = some p.1 := by
  obtain ⟨e, tx⟩ := s
  cases ht
  have hok := hi.txn_ok t rfl
  have hcm := commitNodes_ok t.created e (by have := hok.dense; simpa [Txn.iids] using this)
    (by have := hok.nodup; simpa [Txn.exts] using this) (by have := hok.disj; simpa [Txn.exts] using this)
  have hstep : step ⟨e, some t⟩ .commit =
      (⟨{ e with i2e := e.i2e ++ t.exts, e2i := t.exts.reverse ++ e.e2i }, none⟩, .ok) := by
    simp only [step, hcm, finish, Txn.exts]
  rw [hstep]
  refine ⟨rfl, rfl, ?_⟩
  intro p hp
  obtain ⟨k, hk, rfl⟩ := List.getElem_of_mem hp
  have hd : t.iids[k]? = some (e.i2e.length + k) := by
    rw [hok.dense, List.getElem?_range'] <;> simp [hk]
  have hsnd : (t.created[k]).2 = e.i2e.length + k := by
    have : t.iids[k]? = some (t.created[k]).2 := by simp [Txn.iids, hk]
    rw [this] at hd; exact Option.some.inj hd
  simp only [hsnd]
  rw [List.getElem?_append_right (by omega)]
  simp [Txn.exts, hk]

/-- **an identity stays the same for the node's lifetime**: one more operation of any kind leaves every
    existing (internal id ↦ external id) entry in place. -/
theorem identity_survives_step (s : State) (K : Nat) (op : Op) (hi : Inv s) (hb : Bnd s K)
    (hK : bump K op < two64) (hv : nodesOf s + volume [op] ≤ two32) (k : Nat) (hk : k < s.eng.i2e.length) :
    (step s op).1.eng.i2e[k]? = s.eng.i2e[k]? :=
  getElem?_of_prefix (step_ok s K op hi hb hK hv).pre hk

/-- the hint is always a `u64` -/
theorem hint_is_u64 (count : Nat) (reading : Option Int) : hintOf count reading < two64 := by
  unfold hintOf; split <;> exact Nat.mod_lt _ (by decide)

/-! ### non-vacuity: concrete histories that meet the hypotheses and exercise every clause -/

/-- stalled clock over two statements, a backwards step inside a statement, two CREATE clauses at one reading,
    an explicit transaction that is rolled back, one that is committed, compaction, reopen, a caller-chosen id -/
def demo : List Op :=
  [.stmt [hintOf 0 (some 1000), hintOf 1 (some 1000), hintOf 2 (some 1000)],
   .stmt [hintOf 0 (some 1000), hintOf 1 (some 1000)],
   .stmt [hintOf 0 (some 1005), hintOf 1 (some 1004)],
   .stmt [hintOf 0 (some 3000), hintOf 0 (some 3000)],
   .begin, .tstmt [hintOf 0 (some 500)], .rollback,
   .begin, .tstmt [hintOf 0 (some 500), hintOf 1 (some 500)], .tstmt [hintOf 0 (some 500)], .commit,
   .compact, .reopen, .raw 700, .stmt [hintOf 0 none], .del, .stmt [hintOf 0 (some (-1))]]

example : InIdSpace (demo.dropLast) := by decide
example : (run State.init demo.dropLast).eng.i2e =
    [1000, 1001, 1002, 1003, 1004, 1005, 1006, 3000, 3001, 3003, 3004, 3005, 700, 1] := by decide
example : (trace State.init demo.dropLast).map Prod.snd = List.replicate 16 Out.ok := by decide
/-- a clock before 1970 (`-1 ns`) gives a hint at the very top of the u64 range: outside `InIdSpace`, the
    theorem is silent there, the code wraps round to 1 (the stream exercises it) -/
example : ¬ InIdSpace demo := by decide
example : (run State.init demo).eng.i2e.getLast? = some 18446744073709551615 := by decide

/-! ### the pinned tree (before the fix): counterexamples, replayed by corpus/extid/*.ops -/

/-- **stalled clock**: two statements that read the same clock value collide — the second one fails with
    "external id already exists". -/
theorem counterexample_stalled_clock :
    let s1 := (stepLegacyStmt State.init [1000, 1001, 1002]).1
    (stepLegacyStmt State.init [1000, 1001, 1002]).2 = .ok ∧
      (stepLegacyStmt s1 [hintOf 0 (some 1000)]).2 = .err .dupEngine := by decide

/-- **backwards step** inside one statement: counter + clock repeats ⇒ "duplicate external id in same tx". -/
theorem counterexample_backwards_step :
    (stepLegacyStmt State.init [hintOf 0 (some 1005), hintOf 1 (some 1004)]).2 = .err .dupTx := by decide

/-- **two CREATE clauses** of one statement restart the counter: one clock tick ⇒ the statement fails. -/
theorem counterexample_two_clauses :
    (stepLegacyStmt State.init [hintOf 0 (some 3000), hintOf 0 (some 3000)]).2 = .err .dupTx := by decide

/-- **clock outside chrono's range** (`timestamp_nanos_opt() = None`): the first node gets external id 0, the
    table's "none" marker; after a reopen 0 is no longer in the `e2i` map and a second node gets 0 as well. -/
theorem counterexample_clock_out_of_range :
    hintLegacy 0 none = .ok 0 ∧
      let s1 := (stepLegacyStmt State.init [0]).1
      let s2 := (step s1 .reopen).1
      (stepLegacyStmt s2 [0]).2 = .ok ∧ (stepLegacyStmt s2 [0]).1.eng.i2e = [0, 0] := by decide

/-- **clock before 1970**: `count as u64 + now as u64` overflows (panic in debug builds, wrap in release). -/
theorem counterexample_pre1970_overflow : hintLegacy 1 (some (-1)) = .overflowPanic := by decide

/-- the same witnesses after the fix -/
example : (trace State.init [.stmt [1000, 1001, 1002], .stmt [hintOf 0 (some 1000)]]).map Prod.snd = [.ok, .ok] := by
  decide
example : (step State.init (.stmt [hintOf 0 (some 1005), hintOf 1 (some 1004)])).2 = .ok := by decide
example : (run State.init [.stmt [hintOf 0 none], .reopen, .stmt [hintOf 0 none]]).eng.i2e = [1, 2] := by decide

end Nervus.Props.C32
