/-
  C23 — Expression evaluation obeys Cypher laws.   Statements only (lemmas live in Nervus.Proofs.*).

  Model: `Nervus.Model.Eval` (mirrors evaluator.rs + evaluator_{equality,compare,numeric,arithmetic,
  membership}.rs after the `fix:` commits; the pinned comparison through `as f64` is kept as `Eval.Pinned`).
  Spec:  `Nervus.Spec.CypherValue` (Kleene logic, numbers as exact rationals, THE overflow rule),
         `Nervus.Spec.Findings` (trigger predicates).
  Every theorem quantifies over ALL environments `E` (float arithmetic, temporal parser, duration
  arithmetic) and over all values of the stated domain.
-/
import Nervus.Proofs.Logic
import Nervus.Proofs.ListEq
set_option exponentiation.threshold 4096
namespace Nervus.Props.C23
open Nervus Nervus.Eval Nervus.Spec Value

/-- **C23 at full strength** (NOT provable, see the counterexamples): `<=` is `<` or `=` for all
    well-formed null/NaN-free values, in every environment.  (All the other laws below ARE proved for all
    values.) -/
def C23_full : Prop := ∀ (E : Env) (a b : Value), a.wf = true → b.wf = true → clean a = true → clean b = true →
  compareValues E .le a b = orEq (compareValues E .lt a b) (cypherEquals a b)

/-! ### three-valued logic, including non-boolean operands -/

/-- AND / OR / XOR / NOT are Kleene's connectives; an operand that is not a boolean acts as `null`. -/
theorem and_table (a b : Value) : Eval.and3 a b = triValue (Spec.and3 (tri a) (tri b)) := and3_spec a b
theorem or_table (a b : Value) : Eval.or3 a b = triValue (Spec.or3 (tri a) (tri b)) := or3_spec a b
theorem xor_table (a b : Value) : Eval.xor3 a b = triValue (Spec.xor3 (tri a) (tri b)) := xor3_spec a b
theorem not_table (a : Value) : Eval.not3 a = triValue (Spec.not3 (tri a)) := not3_spec a

/-- the 3×3 cores are the published truth tables (T, F, null) -/
theorem kleene_tables :
    [Spec.and3 (some true) (some true), Spec.and3 (some true) (some false), Spec.and3 (some true) none,
     Spec.and3 (some false) (some true), Spec.and3 (some false) (some false), Spec.and3 (some false) none,
     Spec.and3 none (some true), Spec.and3 none (some false), Spec.and3 none none]
      = [some true, some false, none, some false, some false, some false, none, some false, none] ∧
    [Spec.or3 (some true) (some true), Spec.or3 (some true) (some false), Spec.or3 (some true) none,
     Spec.or3 (some false) (some true), Spec.or3 (some false) (some false), Spec.or3 (some false) none,
     Spec.or3 none (some true), Spec.or3 none (some false), Spec.or3 none none]
      = [some true, some true, some true, some true, some false, none, some true, none, none] ∧
    [Spec.xor3 (some true) (some true), Spec.xor3 (some true) (some false), Spec.xor3 (some true) none,
     Spec.xor3 none (some false), Spec.xor3 none none]
      = [some false, some true, none, none, none] ∧
    [Spec.not3 (some true), Spec.not3 (some false), Spec.not3 none] = [some false, some true, none] := by decide

theorem de_morgan_and (a b : Value) : Eval.not3 (Eval.and3 a b) = Eval.or3 (Eval.not3 a) (Eval.not3 b) :=
  deMorgan_and a b
theorem de_morgan_or (a b : Value) : Eval.not3 (Eval.or3 a b) = Eval.and3 (Eval.not3 a) (Eval.not3 b) :=
  deMorgan_or a b

/-! ### null propagation -/

/-- `= <> < <= > >= + - * / % ^ STARTS WITH, ENDS WITH, CONTAINS` yield `null` when either operand is `null` -/
theorem null_propagation (E : Env) (op : BinOp) (hop : op ∈ nullPropagating) (v : Value) :
    evalBin E op .null v = .null ∧ evalBin E op v .null = .null :=
  ⟨null_left E op hop v, null_right E op hop v⟩
theorem in_null_list (E : Env) (v : Value) : evalBin E .inList v .null = .null := inList_null_right E v
theorem unary_null : Eval.negate .null = .null ∧ Eval.not3 .null = .null := ⟨rfl, rfl⟩
/-- IS NULL / IS NOT NULL never yield `null` -/
theorem is_null_total (E : Env) (a b : Value) :
    evalBin E .isNull a b = .bool a.isNull ∧ evalBin E .isNotNull a b = .bool (!a.isNull) := ⟨rfl, rfl⟩

/-! ### `=` is an equivalence -/

/-- symmetric on ALL well-formed values (nulls, NaNs, maps, lists, graph ids included) -/
theorem eq_symm (a b : Value) (wa : a.wf = true) (wb : b.wf = true) : cypherEquals a b = cypherEquals b a :=
  ce_symm a b wa wb
/-- transitive on ALL well-formed values, across integers and floats of any size -/
theorem eq_trans (a b c : Value) (wa : a.wf = true) (wb : b.wf = true) (wc : c.wf = true)
    (h1 : cypherEquals a b = .bool true) (h2 : cypherEquals b c = .bool true) : cypherEquals a c = .bool true :=
  ce_trans a b c wa wb wc h1 h2
/-- reflexive on all well-formed values without `null` and NaN inside -/
theorem eq_refl (a : Value) (wa : a.wf = true) (ca : clean a = true) : cypherEquals a a = .bool true :=
  ce_refl a wa ca
/-- the result is always `true`, `false` or `null` -/
theorem eq_three_valued (a b : Value) : isTri (cypherEquals a b) = true := cypherEquals_tri a b

/-! ### `=` on lists and maps: the Kleene AND of the element equalities, independent of position -/

/-- `[x₁,…,xₙ] = [y₁,…,yₙ]` is `(x₁ = y₁) AND … AND (xₙ = yₙ)` in three-valued logic (a `false` anywhere wins over
    a `null` anywhere); lists of different lengths are unequal — ALL values -/
theorem list_eq_is_kleene_and (xs ys : List Value) :
    cypherEquals (.list xs) (.list ys) =
      if xs.length = ys.length then triValue (Spec.kleeneAll (pairTris (xs.zip ys))) else .bool false := by
  by_cases h : xs.length = ys.length
  · have e : (xs.length != ys.length) = false := by simpa using h
    rw [if_pos h]
    simp only [cypherEquals, e, Bool.false_eq_true, if_false]
    exact seq_is_kleene xs ys h
  · have e : (xs.length != ys.length) = true := by simpa using h
    simp [cypherEquals, e, h]
/-- the same for maps with the same keys (well-formed, i.e. key-sorted maps); different key sets are unequal -/
theorem map_eq_is_kleene_and (l r : List (Str × Value)) (hl : keysSorted l = true) (hr : keysSorted r = true) :
    cypherEquals (.map l) (.map r) =
      if l.length = r.length ∧ keysOf l = keysOf r then
        triValue (Spec.kleeneAll (pairTris ((valsOf l).zip (valsOf r)))) else .bool false := by
  rw [cypherEquals_map l r hl hr]
  by_cases h : l.length = r.length ∧ keysOf l = keysOf r
  · rw [if_pos h, if_pos h]; exact seq_is_kleene _ _ (by simpa [valsOf] using h.1)
  · rw [if_neg h, if_neg h]
/-- **position independence**: permuting the (left, right) element pairs does not change the result -/
theorem list_eq_permutation_invariant (ps qs : List (Value × Value)) (h : ps.Perm qs) :
    cypherEquals (.list (ps.map Prod.fst)) (.list (ps.map Prod.snd)) =
      cypherEquals (.list (qs.map Prod.fst)) (.list (qs.map Prod.snd)) := by
  rw [ce_list_of_pairs, ce_list_of_pairs]
  unfold pairTris
  rw [kleeneAll_perm (h.map _)]
/-- e.g. `[null,1] = [null,2]` is `false`, exactly like `[1,null] = [2,null]` -/
example : cypherEquals (.list [.null, .int 1]) (.list [.null, .int 2]) = .bool false ∧
    cypherEquals (.list [.int 1, .null]) (.list [.int 2, .null]) = .bool false ∧
    cypherEquals (.list [.null, .int 1]) (.list [.null, .int 1]) = .null := by decide

/-! ### numbers: Int/Int, Int/Float, Float/Float compared as the exact rationals they denote -/

theorem eq_numbers_exact (a b : Value) (ha : isNum a = true) (hb : isNum b = true) (wa : a.wf = true)
    (wb : b.wf = true) : cypherEquals a b = .bool (Spec.numCmp a b == some .eq) :=
  cypherEquals_num a b ha hb wa wb
theorem compare_numbers_exact (E : Env) (op : CmpOp) (a b : Value) (ha : isNum a = true) (hb : isNum b = true)
    (wa : a.wf = true) (wb : b.wf = true) :
    compareValues E op a b = match Spec.numCmp a b with
      | some o => .bool (op.test o)
      | none => .bool false :=
  cv_num E op a b ha hb wa wb

/-! ### `<`, `<=`, `>`, `>=` agree with each other and with `=` -/

/-- converse, for ALL values: `a < b` is `b > a`, `a <= b` is `b >= a` (null results included) -/
theorem lt_gt_converse (E : Env) (a b : Value) :
    compareValues E .lt a b = compareValues E .gt b a ∧ compareValues E .le a b = compareValues E .ge b a :=
  ⟨cv_conv E .lt a b, cv_conv E .le a b⟩

/-- **C23_partial**: on every set of well-formed null/NaN-free values outside the two known triggers
    (`lawDomain`: plain values — C23-list-nonplain-order; on the strings present "ordered equal" is text equality
    and the comparison is transitive — C23-temporal-string-compare; strings that are temporal values of one kind with
    different keys are INSIDE the domain and ordered chronologically): `<=` is `<` or `=`, `>=` is `>` or `=` … -/
theorem C23_partial_le_iff (E : Env) (vs : List Value) (h : lawDomain E vs = true) (a b : Value)
    (ha : a ∈ vs) (hb : b ∈ vs) :
    compareValues E .le a b = orEq (compareValues E .lt a b) (cypherEquals a b) ∧
    compareValues E .ge a b = orEq (compareValues E .gt a b) (cypherEquals a b) :=
  law_le_iff E h ha hb
/-- … exactly one of `<`, `=`, `>` holds for comparable operands … -/
theorem C23_partial_trichotomy (E : Env) (vs : List Value) (h : lawDomain E vs = true) (a b : Value)
    (ha : a ∈ vs) (hb : b ∈ vs) (hc : compareValues E .lt a b ≠ .null) :
    ∃ l e g, compareValues E .lt a b = .bool l ∧ cypherEquals a b = .bool e ∧ compareValues E .gt a b = .bool g ∧
      ((l && !e && !g) || (!l && e && !g) || (!l && !e && g)) = true :=
  law_trichotomy E h ha hb hc
/-- … and `<`, `<=` are transitive. -/
theorem C23_partial_lt_trans (E : Env) (vs : List Value) (h : lawDomain E vs = true) (a b c : Value)
    (ha : a ∈ vs) (hb : b ∈ vs) (hc : c ∈ vs) (h1 : compareValues E .lt a b = .bool true)
    (h2 : compareValues E .lt b c = .bool true) : compareValues E .lt a c = .bool true :=
  law_lt_trans E h ha hb hc h1 h2
theorem C23_partial_le_trans (E : Env) (vs : List Value) (h : lawDomain E vs = true) (a b c : Value)
    (ha : a ∈ vs) (hb : b ∈ vs) (hc : c ∈ vs) (h1 : compareValues E .le a b = .bool true)
    (h2 : compareValues E .le b c = .bool true) : compareValues E .le a c = .bool true :=
  law_le_trans E h ha hb hc h1 h2
/-- values that are in scope but not plain (maps, graph ids, blobs, paths at top level) are not ordered:
    every comparison is `null`, so the laws hold vacuously there -/
theorem nonplain_incomparable (E : Env) (op : CmpOp) (a b : Value) (ha : inScope a = true) (hb : inScope b = true)
    (hp : plain a = false ∨ plain b = false) : compareValues E op a b = .null :=
  cv_nonplain E op a b ha hb hp

/-! ### one integer-overflow rule: exact in ℤ; fits i64 ⇒ Int, otherwise Float of the float operation -/

theorem overflow_add (E : Env) (l r : Int) :
    evalBin E .add (.int l) (.int r) = Spec.intRule (l + r) (E.F.add (castF l) (castF r)) := add_int E l r
theorem overflow_sub (E : Env) (l r : Int) :
    evalBin E .sub (.int l) (.int r) = Spec.intRule (l - r) (E.F.sub (castF l) (castF r)) := sub_int E l r
theorem overflow_mul (E : Env) (l r : Int) :
    evalBin E .mul (.int l) (.int r) = Spec.intRule (l * r) (E.F.mul (castF l) (castF r)) := mul_int E l r
theorem overflow_div (E : Env) (l r : Int) (hr : r ≠ 0) :
    evalBin E .div (.int l) (.int r) = Spec.intRule (Int.tdiv l r) (E.F.div (castF l) (castF r)) :=
  div_int E l r hr
theorem overflow_neg (i : Int) : Eval.negate (.int i) = Spec.intRule (-i) (F64.negBits (castF i)) := neg_int i

/-! ### non-vacuity -/

def F0 : FArith := ⟨fun a _ => a, fun a _ => a, fun a _ => a, fun a _ => a, fun a _ => a, fun a _ => a⟩
def E0 : Env := ⟨F0, fun _ => none, fun _ => false, fun _ _ => .null, fun _ _ => .null, fun _ _ _ => .null⟩

/-- integers beyond 2^53 next to floats, ±0.0, ∞, strings, nested lists: inside the law domain -/
def sample : List Value :=
  [.int 9007199254740993, .float 0x4340000000000000, .int 9007199254740992, .int 9223372036854775807,
   .float 0x43E0000000000000, .float 0x8000000000000000, .float 0, .float 0x7FF0000000000000,
   .str [0x61], .str [], .bool true, .list [.int 1, .list [.float 0x3FF0000000000000]], .list []]
example : lawDomain E0 sample = true := by decide
/-- the former witnesses now behave: 2^53+1 > 2^53, not `<=`; 2^53+1 ≠ 2^53.0 = 2^53 -/
example : compareValues E0 .le (.int 9007199254740993) (.int 9007199254740992) = .bool false ∧
    cypherEquals (.int 9007199254740993) (.float 0x4340000000000000) = .bool false ∧
    cypherEquals (.float 0x4340000000000000) (.int 9007199254740992) = .bool true ∧
    compareValues E0 .gt (.int 9007199254740993) (.float 0x4340000000000000) = .bool true := by decide
example : evalBin E0 .add (.int 9223372036854775807) (.int 1) = .float 0x43E0000000000000 ∧
    evalBin E0 .add (.int 9223372036854775806) (.int 1) = .int 9223372036854775807 := by decide
example : cypherEquals (.map [([0x61], .int 1), ([0x62], .null)]) (.map [([0x61], .float 0x3FF0000000000000), ([0x62], .null)])
    = .null := by decide

/-! ### counterexamples -/

/-- **fixed finding (pinned tree)**: before the `fix:` commits numbers were compared through `as f64`:
    `9007199254740993 <= 9007199254740992` is true while `<` and `=` are false … -/
theorem counterexample_pinned_le_not_lt_or_eq :
    Pinned.compareNumbers .le (.int 9007199254740993) (.int 9007199254740992) = .bool true ∧
    Pinned.compareNumbers .lt (.int 9007199254740993) (.int 9007199254740992) = .bool false ∧
    Pinned.numEquals (.int 9007199254740993) (.int 9007199254740992) = false := by decide
/-- … and `=` was not transitive: 2^53+1 = 2^53.0 and 2^53.0 = 2^53 but 2^53+1 ≠ 2^53. -/
theorem counterexample_pinned_eq_not_transitive :
    Pinned.numEquals (.int 9007199254740993) (.float 0x4340000000000000) = true ∧
    Pinned.numEquals (.float 0x4340000000000000) (.int 9007199254740992) = true ∧
    Pinned.numEquals (.int 9007199254740993) (.int 9007199254740992) = false := by decide

/-- the temporal reading of two strings as the real parser gives it (validated on every run by the `value`
    stream: oracle tokens of corpus/value/temporal-le-not-eq.ops): both are the date 2019-12-30 -/
def sW01 : Str := [0x32,0x30,0x32,0x30,0x2d,0x57,0x30,0x31,0x2d,0x31]      -- '2020-W01-1'
def s1230 : Str := [0x32,0x30,0x31,0x39,0x2d,0x31,0x32,0x2d,0x33,0x30]     -- '2019-12-30'
def tkW (s : Str) : Option (Nat × TKey) :=
  if s = sW01 then some (0, TKey.mk 737423 0 0) else if s = s1230 then some (0, TKey.mk 737423 0 0) else none
def EW : Env := ⟨F0, tkW, fun _ => false, fun _ _ => .null, fun _ _ => .null, fun _ _ _ => .null⟩

/-- **known finding C23-temporal-string-compare**: strings that parse as temporal values of one kind are
    ordered as such but compared for equality as text: `'2020-W01-1' <= '2019-12-30'` is true while `<` and `=`
    are false. -/
theorem counterexample_temporal_strings :
    compareValues EW .le (.str sW01) (.str s1230) = .bool true ∧
    compareValues EW .lt (.str sW01) (.str s1230) = .bool false ∧
    cypherEquals (.str sW01) (.str s1230) = .bool false := by decide +kernel

/-- **known finding C23-list-nonplain-order**: inside lists `<` uses the ORDER BY comparator, which orders
    maps structurally (Int before Float), while `=` compares numbers by value: both `[{a:1}] < [{a:1.0}]` and
    `[{a:1}] = [{a:1.0}]` are true. -/
theorem counterexample_list_of_maps :
    compareValues E0 .lt (.list [.map [([0x61], .int 1)]]) (.list [.map [([0x61], .float 0x3FF0000000000000)]]) = .bool true ∧
    cypherEquals (.list [.map [([0x61], .int 1)]]) (.list [.map [([0x61], .float 0x3FF0000000000000)]]) = .bool true := by
  decide

theorem not_C23_full : ¬ C23_full := by
  intro h
  have := h EW (.str sW01) (.str s1230) rfl rfl rfl rfl
  revert this; decide +kernel

end Nervus.Props.C23
