/-
  C17 — Any log tail is tolerated on open.
  Statements only (helper lemmas: Nervus.Proofs.{WalFrame,WalLog,WalTails}).
  Model: Nervus.Model.WalFrame (WalReader::next_record, Wal::{open,valid_end,append}, replay_committed, the WAL
  part of GraphEngine::open) over Nervus.Model.{WalRec,PropVal,Crc32}; `Cfg.current` is regenerated from the
  source, `Cfg.pinned` is the tree before the `fix:` commit.  Spec: Nervus.Spec.TxLog.

  Reading of the property: the log file is `file ++ t` where `file` was produced by acknowledged appends of the
  records `rs` and `t` is ANY byte string.  The records completely written in `t` (`complete t`: length within
  the cap, all body bytes present, checksum matches, body decodes) count as written — a tail that happens to be a
  checksum-valid frame IS a completely written record by definition; no collision hypothesis is used anywhere.
-/
import Nervus.Proofs.WalTails
namespace Nervus.Props.C17
open Nervus Nervus.PropVal Nervus.WalRec Nervus.WalFrame

/-- the complete valid records at the head of `t`, and the tail behind them (Spec.TxLog) -/
abbrev complete (t : Bytes) : List Rec × Bytes := completeFrames WalRec.Cfg.current WalFrame.Cfg.current.maxLen t

/-- `file` is a log written from scratch by acknowledged appends of the well-formed records `rs` -/
def Written (rs : List Rec) (file : Bytes) : Prop :=
  (∀ r ∈ rs, r.wf = true) ∧ ∃ h, appendAll WalFrame.Cfg.current (walOpen []) rs = .ok h ∧ h.file = file

/-- one transaction as the engine writes it -/
def txBlock (x : Nat) (ops : List Rec) : List Rec := .beginTx x :: (ops ++ [.commitTx x])

/-- **C17 at full strength**: for every written log, EVERY tail `t`, every further transaction and EVERY second
    tail `t'`: opening succeeds and recovers exactly the committed transactions of the completely written
    records; a transaction committed after reopening is recovered by the next open. -/
def C17_full : Prop :=
  ∀ (rs : List Rec) (file t : Bytes), Written rs file → ProtoOk rs = true →
    (∃ txs, recover WalFrame.Cfg.current (file ++ t) = .ok txs ∧ txs = specTxs (rs ++ (complete t).1)) ∧
    ∀ (x : Nat) (ops : List Rec) (h' : Handle) (t' : Bytes),
      (∀ r ∈ ops, r.wf = true ∧ Rec.isOp r = true) →
      appendAll WalFrame.Cfg.current (walOpen (file ++ t)) (txBlock x ops) = .ok h' →
      ∃ txs', recover WalFrame.Cfg.current (h'.file ++ t') = .ok txs' ∧
        ⟨x, ops⟩ ∈ txs' ∧ specTxs rs <+: txs'

/-! ### the repair is present in the source (regenerated table entries) -/

theorem fix_present : Fixed WalFrame.Cfg.current :=
  ⟨by decide, by decide, by decide, by decide, by decide, by decide, ⟨Or.inr (by decide), by decide⟩⟩

theorem current_is_ideal :
    WalFrame.Cfg.current = WalFrame.Cfg.ideal WalRec.Cfg.current WalFrame.Cfg.current.maxLen := by decide

/-! ### reading -/

/-- the reader never fails, never runs out of budget, and `complete` is what it returns -/
theorem read_total (t : Bytes) :
    readAll WalFrame.Cfg.current t = ((complete t).1, .eof (complete t).2) := by
  obtain ⟨tail, h⟩ := readAll_tolerant fix_present.over fix_present.undec t.length t (Nat.le_refl _)
  unfold complete completeFrames
  rw [← current_is_ideal]
  generalize hr : readAll WalFrame.Cfg.current t = res at h ⊢
  obtain ⟨recs, stop⟩ := res
  simp only at h; subst h; rfl

/-- a written log is exactly the frames of its records -/
theorem written_is_frames (rs : List Rec) (file : Bytes) (hw : Written rs file) :
    IsFrames WalFrame.Cfg.current file rs := by
  obtain ⟨hwf, h, ha, rfl⟩ := hw
  exact appendAll_fresh fix_present rs hwf h ha

/-- **any tail, reader level** (unconditional): whatever bytes follow a written log, reading returns all its
    records, in order, then the completely written records of the tail, and stops without error. -/
theorem any_tail_read (rs : List Rec) (file t : Bytes) (hw : Written rs file) :
    readAll WalFrame.Cfg.current (file ++ t) = (rs ++ (complete t).1, .eof (complete t).2) := by
  rw [readAll_frames_append fix_present.cap (written_is_frames rs file hw) t, read_total t]

/-- **any tail, open level** (unconditional): `replay_committed` on `file ++ t` is the transaction grouping of
    the completely written records — the tail bytes have no other influence, and no reader error exists. -/
theorem any_tail_recover (rs : List Rec) (file t : Bytes) (hw : Written rs file) :
    recover WalFrame.Cfg.current (file ++ t) =
      match committed (rs ++ (complete t).1) with
      | .ok txs => .ok txs
      | .error e => .error (.proto e) := by
  unfold recover
  rw [any_tail_read rs file t hw, committedCfg_eq fix_present.resets]
  cases committed (rs ++ (complete t).1) <;> rfl

/-- **any tail** (the trigger hypothesis `ProtoOk` is exactly "no known finding": the completely written
    records obey the transaction protocol): open succeeds, recovers exactly the committed transactions of the
    completely written records, and all committed transactions of the written log are among them, in order. -/
theorem any_tail_partial (rs : List Rec) (file t : Bytes) (hw : Written rs file)
    (hp : ProtoOk (rs ++ (complete t).1) = true) :
    recover WalFrame.Cfg.current (file ++ t) = .ok (specTxs (rs ++ (complete t).1)) ∧
    specTxs rs <+: specTxs (rs ++ (complete t).1) ∧
    ∃ h, engineOpen WalFrame.Cfg.current (file ++ t) = .ok (h, specTxs (rs ++ (complete t).1)) := by
  have h1 : recover WalFrame.Cfg.current (file ++ t) = .ok (specTxs (rs ++ (complete t).1)) := by
    rw [any_tail_recover rs file t hw, committed_of_proto _ hp]
  refine ⟨h1, ?_, ⟨_, by unfold engineOpen; rw [h1]⟩⟩
  have hp' : ProtoOk rs = true := protoGo_append_left rs _ none hp
  exact commitGo_prefix rs _ none [] [] _ _ (committed_of_proto rs hp') (committed_of_proto _ hp)

/-- **any tail without a complete record at its head** (a torn record, zero fill, a bad checksum, an oversized
    length field, any garbage the reader does not accept as a frame): open recovers exactly the written log's
    committed transactions.  No hypothesis on the tail beyond that. -/
theorem any_tail (rs : List Rec) (file t : Bytes) (hw : Written rs file) (hp : ProtoOk rs = true)
    (ht : nextRecord WalFrame.Cfg.current t = .eof) :
    recover WalFrame.Cfg.current (file ++ t) = .ok (specTxs rs) := by
  have hc : (complete t).1 = [] := by
    have := read_total t
    rw [readAll_of_eof ht] at this
    exact (Prod.mk.inj this).1.symm
  have := (any_tail_partial rs file t hw (by rw [hc]; simpa using hp)).1
  simpa [hc] using this

/-- the tails named by the property have no complete record at their head -/
theorem torn_record_is_tail (body : Bytes) (hb : body.length < two32) (k : Nat) (hk : k < 8 + body.length) :
    nextRecord WalFrame.Cfg.current ((frame body).take k) = .eof :=
  nextRecord_torn fix_present.over body hb k hk

theorem zero_fill_is_tail (n : Nat) : nextRecord WalFrame.Cfg.current (List.replicate n 0) = .eof :=
  nextRecord_zeros fix_present.over fix_present.undec n

theorem bad_checksum_is_tail (body rest : Bytes) (c : Nat) (hb : body.length < two32) (hc : c < two32)
    (hne : c ≠ crc32 body) :
    nextRecord WalFrame.Cfg.current (le4 body.length ++ (le4 c ++ (body ++ rest))) = .eof :=
  nextRecord_bad_crc fix_present.over body rest c hb hc hne

theorem oversized_length_is_tail (t : Bytes) (h : leVal (t.take 4) > 1048576) :
    nextRecord WalFrame.Cfg.current t = .eof :=
  nextRecord_oversize fix_present.over h

theorem short_garbage_is_tail (t : Bytes) (h : t.length < 8) : nextRecord WalFrame.Cfg.current t = .eof :=
  nextRecord_short fix_present.over h

/-! ### writing after a tail -/

/-- an acknowledged append wrote a complete valid frame carrying exactly the record; in particular nothing
    above the cap is ever acknowledged (the 2 MB property that used to brick the database is refused) -/
theorem acknowledged_is_readable (h h' : Handle) (r : Rec) (hw : r.wf = true)
    (ha : append WalFrame.Cfg.current h r = .ok h') :
    ∃ base body, h'.file = base ++ frame body ∧ body.length ≤ 1048576 ∧
      decodeBody WalRec.Cfg.current body = .ok r :=
  let ⟨base, body, h1, h2, h3, _, _⟩ := append_inv fix_present h h' r hw ha
  ⟨base, body, h1, h2, h3⟩

/-- **append after any tail, reader level** (unconditional): open a handle on `file ++ t`, append at least one
    record; then, whatever second tail `t'` a later crash leaves, reading returns the written log's records,
    the completely written records of `t`, every acknowledged new record, and the complete records of `t'`. -/
theorem append_after_tail_read (rs : List Rec) (file t : Bytes) (hw : Written rs file) (r : Rec) (ns : List Rec)
    (hn : ∀ q ∈ r :: ns, q.wf = true) (h' : Handle)
    (ha : appendAll WalFrame.Cfg.current (walOpen (file ++ t)) (r :: ns) = .ok h') (t' : Bytes) :
    readAll WalFrame.Cfg.current (h'.file ++ t') =
      (rs ++ (complete t).1 ++ (r :: ns) ++ (complete t').1, .eof (complete t').2) := by
  have hfr := appendAll_after_tail fix_present (written_is_frames rs file hw) t r ns hn h' ha
  rw [readAll_frames_append fix_present.cap hfr t', read_total t', read_total t]

/-- **no stale bytes**: open a handle on ANY file `f` — damage anywhere, also in a non-final record with intact
    frames of discarded transactions behind it.  The first acknowledged append leaves exactly the valid prefix of
    `f` followed by the new frame: nothing of the old tail survives behind it. -/
theorem first_append_exact (f : Bytes) (r : Rec) (hw : r.wf = true) (h' : Handle)
    (ha : append WalFrame.Cfg.current (walOpen f) r = .ok h') :
    ∃ base body, validPrefix WalFrame.Cfg.current f = .ok base ∧ h'.file = base ++ frame body ∧
      decodeBody WalRec.Cfg.current body = .ok r ∧ h'.tailChecked = true := by
  obtain ⟨base, body, h1, _, h3, h4, h5⟩ := append_inv fix_present (walOpen f) h' r hw ha
  simp only [walOpen, Bool.false_eq_true, if_false] at h5
  exact ⟨base, body, h5, h1, h3, h4⟩

/-- **nothing is resurrected**: after reopening on ANY file `f` and at least one acknowledged append, the file
    is exactly the frames of the records the reader accepted from `f` followed by the frames of the new records;
    so the next open — whatever second tail `t'` follows — reads those records, the new ones, the complete records
    of `t'`, and nothing else.  Stale checksum-valid frames of discarded transactions cannot come back. -/
theorem no_resurrection (f : Bytes) (r : Rec) (ns : List Rec) (hn : ∀ q ∈ r :: ns, q.wf = true) (h' : Handle)
    (ha : appendAll WalFrame.Cfg.current (walOpen f) (r :: ns) = .ok h') (t' : Bytes) :
    IsFrames WalFrame.Cfg.current h'.file ((readAll WalFrame.Cfg.current f).1 ++ (r :: ns)) ∧
    readAll WalFrame.Cfg.current (h'.file ++ t') =
      ((readAll WalFrame.Cfg.current f).1 ++ (r :: ns) ++ (complete t').1, .eof (complete t').2) := by
  have hfr := appendAll_any_file fix_present f r ns hn h' ha
  exact ⟨hfr, by rw [readAll_frames_append fix_present.cap hfr t', read_total t']⟩

/-- **replay is positional** (the replay-level counterpart of `no_resurrection`, over ALL record lists, txids may
    repeat): if a record list replays, every complete block `BeginTx x, ops…, CommitTx x` in it is handed out with
    exactly `ops` — unfinished fragments before it, under the same txid `x` or any other, contribute nothing —
    and the transactions before it are those of the records before it. -/
theorem replay_positional (pre post : List Rec) (x : Nat) (ops : List Rec) (hops : ∀ r ∈ ops, Rec.isOp r = true)
    (txs : List Tx) (h : committedCfg WalFrame.Cfg.current (pre ++ txBlock x ops ++ post) = .ok txs) :
    ∃ a b, committed pre = .ok a ∧ txs = a ++ ⟨x, ops⟩ :: b := by
  rw [committedCfg_eq fix_present.resets] at h
  exact commitGo_block x ops hops post pre none [] [] txs h

/-- in particular a torn transaction `BeginTx y, ops₀…` (no commit) followed — after recovery handed the id out
    again — by a committed transaction with the SAME or another txid: replay yields the old transactions and the
    new one with ONLY its own operations.  Nothing of the torn transaction surfaces. -/
theorem torn_then_commit_is_clean (rs ops₀ ops : List Rec) (y x : Nat) (txs₀ : List Tx)
    (h0 : committed rs = .ok txs₀) (hops₀ : ∀ r ∈ ops₀, Rec.isOp r = true)
    (hops : ∀ r ∈ ops, Rec.isOp r = true) :
    committedCfg WalFrame.Cfg.current ((rs ++ (.beginTx y :: ops₀)) ++ txBlock x ops) = .ok (txs₀ ++ [⟨x, ops⟩]) := by
  rw [committedCfg_eq fix_present.resets]
  have h1 := commitGo_fragment y ops₀ hops₀ rs none [] [] txs₀ h0
  exact commitGo_durable x ops hops (rs ++ (.beginTx y :: ops₀)) none [] [] txs₀ h1

/-- **append after any tail**: a transaction committed after reopening on `file ++ t` is recovered by the next
    open — with its exact operations, right after everything recovered before — whatever second tail `t'`
    (without a complete record at its head) a later crash leaves.  Trigger hypothesis as in `any_tail_partial`. -/
theorem append_after_tail_partial (rs : List Rec) (file t : Bytes) (hw : Written rs file)
    (hp : ProtoOk (rs ++ (complete t).1) = true) (x : Nat) (hx : x < two64) (ops : List Rec)
    (hops : ∀ r ∈ ops, r.wf = true ∧ Rec.isOp r = true) (h' : Handle)
    (ha : appendAll WalFrame.Cfg.current (walOpen (file ++ t)) (txBlock x ops) = .ok h')
    (t' : Bytes) (ht' : nextRecord WalFrame.Cfg.current t' = .eof) :
    recover WalFrame.Cfg.current (h'.file ++ t') = .ok (specTxs (rs ++ (complete t).1) ++ [⟨x, ops⟩]) := by
  have hwf : ∀ q ∈ Rec.beginTx x :: (ops ++ [.commitTx x]), q.wf = true := by
    intro q hq
    simp only [List.mem_cons, List.mem_append, List.mem_nil_iff, or_false] at hq
    rcases hq with rfl | hq | rfl
    · simpa [Rec.wf, u64] using hx
    · exact (hops q hq).1
    · simpa [Rec.wf, u64] using hx
  have hc' : (complete t').1 = [] := by
    have := read_total t'
    rw [readAll_of_eof ht'] at this
    exact (Prod.mk.inj this).1.symm
  have ha' : appendAll WalFrame.Cfg.current (walOpen (file ++ t)) (Rec.beginTx x :: (ops ++ [.commitTx x])) = .ok h' := ha
  have hread := append_after_tail_read rs file t hw (.beginTx x) (ops ++ [.commitTx x]) hwf h' ha' t'
  unfold recover
  rw [hread, hc', List.append_nil, committedCfg_eq fix_present.resets]
  have hd := commitGo_durable x ops (fun r hr => (hops r hr).2) (rs ++ (complete t).1) none [] [] _
    (committed_of_proto _ hp)
  unfold committed
  rw [hd]

/-- **C17, proved part**: `C17_full` with the trigger hypothesis (the completely written records obey the
    transaction protocol) and second tails without a complete record at their head. -/
theorem C17_partial (rs : List Rec) (file t : Bytes) (hw : Written rs file)
    (hp : ProtoOk (rs ++ (complete t).1) = true) :
    (∃ txs, recover WalFrame.Cfg.current (file ++ t) = .ok txs ∧ txs = specTxs (rs ++ (complete t).1)) ∧
    ∀ (x : Nat) (ops : List Rec) (h' : Handle) (t' : Bytes), x < two64 →
      (∀ r ∈ ops, r.wf = true ∧ Rec.isOp r = true) →
      appendAll WalFrame.Cfg.current (walOpen (file ++ t)) (txBlock x ops) = .ok h' →
      nextRecord WalFrame.Cfg.current t' = .eof →
      ∃ txs', recover WalFrame.Cfg.current (h'.file ++ t') = .ok txs' ∧
        ⟨x, ops⟩ ∈ txs' ∧ specTxs rs <+: txs' := by
  have h1 := any_tail_partial rs file t hw hp
  refine ⟨⟨_, h1.1, rfl⟩, ?_⟩
  intro x ops h' t' hx hops ha ht'
  refine ⟨_, append_after_tail_partial rs file t hw hp x hx ops hops h' ha t' ht', by simp, ?_⟩
  exact List.IsPrefix.trans h1.2.1 (List.prefix_append _ _)

/-! ### non-vacuity -/

/-- a written log with two transactions (one with a nested property value) and an unfinished third -/
example : ∃ file, Written witnessLog file ∧ ProtoOk witnessLog = true := by
  have hok : (appendAll WalFrame.Cfg.current (walOpen []) witnessLog).toBool = true := by decide +kernel
  rcases hh : appendAll WalFrame.Cfg.current (walOpen []) witnessLog with e | h
  · rw [hh] at hok; cases hok
  · exact ⟨h.file, ⟨by decide, h, hh, rfl⟩, by decide⟩

/-- every proper prefix of a frame, zero fill and an oversized length are tails in the sense of `any_tail` -/
example : nextRecord WalFrame.Cfg.current (List.replicate 13 0) = .eof := zero_fill_is_tail 13
example : nextRecord WalFrame.Cfg.current [0xff, 0xff, 0xff, 0x7f, 1, 2] = .eof :=
  oversized_length_is_tail _ (by decide)
/-- a tail that is a complete valid frame is read as a record (it IS completely written) -/
example : (complete (frame [7, 5, 0, 0, 0])).1 = [.tombstoneNode 5] := by decide +kernel

/-! ### the limit of the guarantee, and the tree as pinned -/

/-- `C17_full` is false of the repaired tree in one corner: bytes after the log that form a complete,
    checksum-valid, decodable record which violates the transaction protocol (here `CommitTx 7` with no
    `BeginTx`) make `replay_committed` fail.  Known finding `C17-crc-valid-protocol-violating-frames`. -/
theorem C17_counterexample_protocol_violating_frames : ¬ C17_full := by
  intro h
  obtain ⟨⟨txs, hr, -⟩, -⟩ := h [] [] (frame [2, 7, 0, 0, 0, 0, 0, 0, 0]) ⟨by simp, _, rfl, rfl⟩ rfl
  have : recover WalFrame.Cfg.current ([] ++ frame [2, 7, 0, 0, 0, 0, 0, 0, 0]) = .error (.proto .commitWithoutBegin) := by
    decide +kernel
  rw [this] at hr; cases hr

/-- a replay that does not reset its buffer at `BeginTx` (the shape the `TxAssembler` seed has for a reused txid)
    hands the torn transaction's operation out with the new transaction: why the reset is part of the tie -/
theorem replay_without_reset_leaks :
    commitGoKeep none [] [] [.beginTx 2, .tombstoneNode 7, .beginTx 2, .createEdge 1 1 1, .commitTx 2]
      = .ok [⟨2, [.tombstoneNode 7, .createEdge 1 1 1]⟩] ∧
    committed [.beginTx 2, .tombstoneNode 7, .beginTx 2, .createEdge 1 1 1, .commitTx 2]
      = .ok [⟨2, [.createEdge 1 1 1]⟩] := by decide

/-- pinned tree, zero tail: `len = 0, crc = 0` parses as a frame whose empty body is a decode ERROR -/
theorem C17_counterexample_zero_tail :
    recover WalFrame.Cfg.pinned (logOf WalFrame.Cfg.pinned witnessTx ++ List.replicate 8 0)
      = .error (.read (.decode (.proto "empty record body"))) := by decide +kernel

/-- pinned tree, garbage length field above 1 MiB: an ERROR instead of end of log -/
theorem C17_counterexample_garbage_length :
    recover WalFrame.Cfg.pinned (logOf WalFrame.Cfg.pinned witnessTx ++ [0xff, 0xff, 0xff, 0x7f])
      = .error (.read (.tooLarge 2147483647)) := by decide +kernel

/-- pinned tree, torn tail then commit: `append` writes behind the two garbage bytes; the acknowledged
    transaction 2 is not recovered (here the next open even fails) -/
theorem C17_counterexample_append_behind_tail :
    ∃ h, appendAll WalFrame.Cfg.pinned (walOpen (logOf WalFrame.Cfg.pinned witnessTx ++ [1, 2]))
        (txBlock 2 [.tombstoneNode 0]) = .ok h ∧
      recover WalFrame.Cfg.pinned h.file ≠ .ok (specTxs (witnessTx ++ txBlock 2 [.tombstoneNode 0])) ∧
      recover WalFrame.Cfg.current (match appendAll WalFrame.Cfg.current
          (walOpen (logOf WalFrame.Cfg.pinned witnessTx ++ [1, 2])) (txBlock 2 [.tombstoneNode 0]) with
        | .ok h => h.file
        | .error _ => []) = .ok (specTxs (witnessTx ++ txBlock 2 [.tombstoneNode 0])) := by
  refine ⟨_, rfl, by decide +kernel, by decide +kernel⟩

/-- pinned tree, one record above the cap: `append` acknowledges it and every later read is an ERROR —
    for every such record and whatever follows it -/
theorem C17_counterexample_oversize (r : Rec) (body : Bytes) (file rest : Bytes)
    (he : encodeBody WalRec.Cfg.pinned r = .ok body) (hbig : 1048576 < body.length) (hb : body.length < two32) :
    append WalFrame.Cfg.pinned (walOpen file) r = .ok ⟨file ++ frame body, false⟩ ∧
    nextRecord WalFrame.Cfg.pinned (frame body ++ rest) = .err (.tooLarge body.length) :=
  ⟨append_pinned_oversize r body file he hb, nextRecord_pinned_oversize body rest hbig hb⟩

end Nervus.Props.C17
