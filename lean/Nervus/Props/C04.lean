/-
  C04 — Reopen preserves logical content.
  Statements only (helper lemmas: Nervus.Proofs.{EngineReplay,EngineReplay2,WalBlocks,ReplayIdmap,ReopenRec*,
  ReopenMain,ReopenHist,IdEq,RunsEqReads,CheckpointRec,CheckpointHist}).
  Model: Nervus.Model.Engine (`commit` record order from the regenerated WalOrder table,
  `checkpoint_on_close`, `open` = replay_committed + scan_recovery_state + replay_label_transactions
  + IdMap::load + replay_graph_transactions with the `txid ≤ checkpoint_txid` skip).
-/
import Nervus.Proofs.CheckpointHist
import Nervus.Proofs.CheckpointTail
import Nervus.Model.Triggers
namespace Nervus.Props.C04
open Nervus Nervus.Storage
open Nervus.GraphSpec (TxOp Op)

/-- the C04 fix is present in the source: commit logs edge tombstones before CreateEdge records
    (regenerated table entry) -/
theorem tombstones_logged_first : StorageTriggers.tombBeforeCreate Cfg.current = true := by decide

/-- every read of the engine that C04 speaks about, as one record (labels by id and by name) -/
def SameContent (s s' : Engine) : Prop :=
  s'.nodes = s.nodes ∧ (∀ n, s'.nodeLabelNames n = s.nodeLabelNames n) ∧
  (∀ n, s'.resolveExternal n = s.resolveExternal n) ∧ (∀ x, s'.lookupInternal x = s.lookupInternal x) ∧
  (∀ n k, s'.nodeProp n k = s.nodeProp n k) ∧ (∀ e k, s'.edgeProp e k = s.edgeProp e k) ∧
  (∀ n rel, PermOpt (s'.neighbors n rel) (s.neighbors n rel)) ∧
  (∀ n rel, PermOpt (s'.incoming Cfg.current n rel) (s.incoming Cfg.current n rel))

/-- **C04 at full strength**: after ANY history, dropping (or closing) the engine and opening it
    again succeeds and changes no read.  NOT provable on this tree (see the counterexamples). -/
def C04_full : Prop :=
  ∀ (h : List Op) (s : Engine), Storage.run Cfg.current h = .ok s →
    (∃ s', s.reopen = .ok s' ∧ SameContent s s') ∧
    (∃ s', s.checkpointOnClose.reopen = .ok s' ∧ SameContent s s')

/-- **C04 (proved part, history level): `reopen_preserves` for compaction-free histories.**
    For EVERY well-formed history of committed and abandoned transactions and ANY number of reopens
    (drop without close, then open) in between, that triggers no known finding (external id 0 is the
    only one that concerns reopen), every `open` succeeds, and the reads after the last reopen AND the
    reads before it both agree with the Spec graph — hence with each other: the same nodes keep their
    ids, labels (all of them) and properties, the same relationships their types, end nodes,
    multiplicity and properties.  By induction over histories with the recovery invariant `Rec`
    (what `open` computes from the log) next to the refinement invariant `Sim`. -/
theorem C04_partial (h : List Op) (hops : txOrReopen h = true) (hwf : GraphSpec.wellFormed h = true)
    (hk : GraphSpec.noC06Trigger h = true) (hsz : histSize h ≤ labelMax) :
    ∃ s s', Storage.run Cfg.current h = .ok s ∧ s.reopen = .ok s' ∧
      ReadsAgree Cfg.current s (GraphSpec.run h) ∧ ReadsAgree Cfg.current s' (GraphSpec.run h) := by
  simp only [GraphSpec.noC06Trigger, Bool.and_eq_true, Bool.not_eq_true'] at hk
  obtain ⟨⟨⟨k1, k2⟩, k3⟩, k4⟩ := hk
  obtain ⟨s, hrun, hsim, hrec⟩ := run_sim2 h {} {} Sim.empty Rec.empty hops hwf (by simpa using hsz) k1 k2 k3 k4
  obtain ⟨s', hopen, hsim', _⟩ := reopen_sim hsim hrec
  exact ⟨s, s', hrun, hopen, hsim.reads _, hsim'.reads _⟩

/-- **C04 (proved part, histories WITH compaction / checkpoint / close)**.
    For EVERY well-formed history of transactions (committed or dropped), compactions
    (= `Db::compact` = `Db::checkpoint`), closes (`checkpoint_on_close` + open: the log is REPLACED by
    label table + manifest + checkpoint when nothing is unflushed) and reopens (drop + open), in any
    order and number, that triggers no C06 finding and is `ckptHistSafe` (decidable: no label operation
    after node creation — the finding `C04-label-change-lost-after-checkpoint` —, compactions only from
    `compactSafe` states with fresh node keys, no removal over a store value — the C05 findings):
    the history runs without error; a further reopen AND a further close both succeed and change no
    read (`SameContent`); and the engine answers every read like the shadow engine `u` that ran only
    the transactions, which agrees with the Spec graph of the history.
    Before and after every reopen / close the page the engine takes for the root of the property tree
    (recovered from the ManifestSwitch / Checkpoint records) IS the root of the tree (`RootOK`).
    Covers the checkpoint skip of `replay_graph_transactions` (`txid ≤ checkpoint_txid`), the manifest
    / checkpoint scan, the segment lookup by id, and the close-time log rewrite. -/
theorem C04_partial_ckpt (h : List Op) (hwf : GraphSpec.wellFormed h = true)
    (hk : GraphSpec.noC06Trigger h = true) (hsz : histSize h ≤ labelMax)
    (hs : ckptHistSafe Cfg.current {} h = true) :
    ∃ s s' s'' u, Storage.run Cfg.current h = .ok s ∧ s.reopen = .ok s' ∧ s.checkpointOnClose.reopen = .ok s'' ∧
      SameContent s s' ∧ SameContent s s'' ∧
      Storage.run Cfg.current (txPart h) = .ok u ∧ ReadsAgree Cfg.current u (GraphSpec.run h) ∧
      SameContent u s ∧ RootOK s ∧ RootOK s' ∧ RootOK s'' := by
  simp only [GraphSpec.noC06Trigger, Bool.and_eq_true, Bool.not_eq_true'] at hk
  obtain ⟨⟨⟨k1, k2⟩, k3⟩, k4⟩ := hk
  obtain ⟨s, u, hrun, hrunu, hP⟩ := hist_pair h {} {} {} Pair.empty hs hwf (by simpa using hsz) k1 k2 k3 k4
  obtain ⟨s', hopen, hP'⟩ := hP.reopen
  obtain ⟨s'', hclose, hP''⟩ := hP.close
  have sc : ∀ {a b : Engine}, Eqv Cfg.current a b → SameContent b a := by
    intro a b hE
    obtain ⟨r1, _, _, r4, r5, r6, r7, _, _, _, r10, r11, r12, _, _⟩ := hE.reads
    exact ⟨r1, fun n => congrFun r10 n, fun n => congrFun r11 n, fun x => congrFun r12 x, r6, r7, r4, r5⟩
  exact ⟨s, s', s'', u, hrun, hopen, hclose, sc (hP'.eqv.trans hP.eqv.symm), sc (hP''.eqv.trans hP.eqv.symm),
    hrunu, hP.sim.reads _, sc hP.eqv, hP.root, hP'.root, hP''.root⟩

/-- **C04 (proved part, label operations behind the last checkpoint)**.  For every history `h₁ ++ h₂`
    where `h₁` is as in `C04_partial_ckpt` (compactions, log-rewriting closes, no label operations) and the
    tail `h₂` holds transactions WITH label operations (add / remove, any number), reopens, closes that
    find unflushed runs (then `checkpoint_on_close` only flushes, the log stays) and compactions with
    nothing to compact (`tailSafe`) — i.e. no checkpoint FOLLOWS a label operation, which is exactly what the
    finding `C04-label-change-lost-after-checkpoint` needs —: the history runs, a further reopen succeeds and
    changes no read, and all reads before and after it agree with the Spec graph (all labels included). -/
theorem C04_partial_ckpt_labels (h₁ h₂ : List Op) (hwf : GraphSpec.wellFormed (h₁ ++ h₂) = true)
    (hk : GraphSpec.noC06Trigger (h₁ ++ h₂) = true) (hsz : histSize (h₁ ++ h₂) ≤ labelMax)
    (hs : ckptTailSafe h₁ h₂ = true) :
    ∃ s s', Storage.run Cfg.current (h₁ ++ h₂) = .ok s ∧ s.reopen = .ok s' ∧ SameContent s s' ∧
      ReadsAgree Cfg.current s (GraphSpec.run (h₁ ++ h₂)) ∧ ReadsAgree Cfg.current s' (GraphSpec.run (h₁ ++ h₂)) := by
  simp only [GraphSpec.noC06Trigger, Bool.and_eq_true, Bool.not_eq_true'] at hk
  obtain ⟨⟨⟨k1, k2⟩, k3⟩, k4⟩ := hk
  obtain ⟨s, u, hrun, _, hP⟩ := hist_ckpt_tail h₁ h₂ hs hwf hsz k1 k2 k3 k4
  obtain ⟨s', hopen, hP'⟩ := hP.reopen
  have sc : ∀ {a b : Engine}, Eqv Cfg.current a b → SameContent b a := by
    intro a b hE
    obtain ⟨r1, _, _, r4, r5, r6, r7, _, _, _, r10, r11, r12, _, _⟩ := hE.reads
    exact ⟨r1, fun n => congrFun r10 n, fun n => congrFun r11 n, fun x => congrFun r12 x, r6, r7, r4, r5⟩
  exact ⟨s, s', hrun, hopen, sc (hP'.eqv.trans hP.eqv.symm), ReadsAgree.of_eqv hP.eqv (hP.sim.reads _),
    ReadsAgree.of_eqv hP'.eqv (hP'.sim.reads _)⟩

/-- non-vacuity: compaction and a log-rewriting close first, then label additions and removals, a reopen, a
    close over unflushed runs, more label operations -/
def hLabelsTail₁ : List Op :=
  [ .tx [.node 10 (some 321), .node 11 none, .edge 0 338 1, .nprop 0 363 7] true, .compact, .close ]
def hLabelsTail₂ : List Op :=
  [ .tx [.labelAdd 0 322, .labelAdd 1 321, .nprop 1 363 2] true, .reopen,
    .tx [.labelDel 0 321, .node 12 (some 323), .labelAdd 2 322] true, .close,
    .tx [.labelDel 1 321] true, .reopen ]

example : ckptTailSafe hLabelsTail₁ hLabelsTail₂ = true ∧ GraphSpec.wellFormed (hLabelsTail₁ ++ hLabelsTail₂) = true ∧
    GraphSpec.noC06Trigger (hLabelsTail₁ ++ hLabelsTail₂) = true ∧ histSize (hLabelsTail₁ ++ hLabelsTail₂) ≤ labelMax := by
  decide

/-! ### the node table reloads exactly what was written, for every size (seed C04-seed2) -/

/-- `IdMap::load` reads the node table record by record — record `k` from page `k / R`, slot `k % R`
    (regenerated table entries; seed C04-seed2 turns it into a page-wise loop with `count % R` slots of
    the last page) -/
theorem idmap_load_reads_per_record : Generated.idmapLoadPerRecord = true := by decide

/-- **load_reads_all**: for EVERY record list (every node count `n`: 511, 512, 513, 1024, …) and every
    page capacity `R ≥ 1`, the record-by-record load returns exactly the written records, in order -/
theorem load_reads_all (R : Nat) (hR : 1 ≤ R) (recs : List I2e) :
    IdMap.readPerRecord R (IdMap.tablePages R recs) recs.length = recs := IdMap.load_reads_all R hR recs

/-- the load of the current source (what `GraphEngine::open` builds the idmap from; `Engine.open` in the
    model goes through it, so `C04_partial`, `C04_partial_ckpt` and `reopen_rec` depend on it) -/
theorem node_table_reloads (recs : List I2e) : IdMap.readNodeTable recs = recs := IdMap.readNodeTable_eq recs

/-- the page-wise formulation with `n % R` slots of the last page is wrong exactly on the page
    boundaries: with the real capacity, a table of exactly 512 records loads as EMPTY, whatever it holds;
    with `R = 2`: 4 records load as 2, 3 records load as 3; reading `n - page_index * R` slots is right -/
theorem C04_counterexample_page_wise_modulo (recs : List I2e) :
    IdMap.readPerPage true 512 (IdMap.tablePages 512 recs) 512 = [] ∧
    IdMap.readPerPage true 2 (IdMap.tablePages 2 [⟨10, 1⟩, ⟨11, 1⟩, ⟨12, 2⟩, ⟨13, 2⟩]) 4 = [⟨10, 1⟩, ⟨11, 1⟩] ∧
    IdMap.readPerPage true 2 (IdMap.tablePages 2 [⟨10, 1⟩, ⟨11, 1⟩, ⟨12, 2⟩]) 3 = [⟨10, 1⟩, ⟨11, 1⟩, ⟨12, 2⟩] ∧
    IdMap.readPerPage false 2 (IdMap.tablePages 2 [⟨10, 1⟩, ⟨11, 1⟩, ⟨12, 2⟩, ⟨13, 2⟩]) 4 =
      [⟨10, 1⟩, ⟨11, 1⟩, ⟨12, 2⟩, ⟨13, 2⟩] :=
  ⟨rfl, by decide, by decide, by decide⟩

/-- one reopen step, state level: from any engine state that satisfies the two invariants -/
theorem reopen_preserves_invariants {s : Engine} {g : GraphSpec.Graph} (hS : Sim s g) (hR : Rec s) :
    ∃ s', s.reopen = .ok s' ∧ Sim s' g ∧ Rec s' := reopen_sim hS hR

/-- **C04 (proved part): recover ∘ log = id for one transaction.**  For EVERY write transaction
    (any staged writes, from any engine state) the records `commit` appends to the log, replayed by
    `replay_graph_transactions` through a fresh memtable, give a run that no read can tell from the run
    `commit` published: same edges (multiset), same node / edge tombstones, same property values and
    removals.  Depends on the record order of the current source (`tombstones_logged_first`). -/
theorem C04_partial_tx (c : Cfg) (s : Engine) (ops : List TxOp) (i i' : IdMap) (mt' : MemTable) :
    let t := (ops.foldl (stepTx c) s.beginWrite).2
    (graphRecords t (t.mt.freeze t.txid)).foldlM replayOp (i, {}) = .ok (i', mt') →
    RunEq (mt'.freeze t.txid) (t.mt.freeze t.txid) := by
  intro t h
  exact replay_commit_roundtrip t (fold_mtWF c ops s.beginWrite MemTable.WF.empty) t.txid i i' mt' h

/-- read-equivalent run lists give the same answers on the run phase of every read -/
theorem runs_read_congruence {rs rs' : List Run} (h : RunsEq rs rs') :
    (∀ e, visE e rs = visE e rs') ∧ (∀ n, isTombNode rs n = isTombNode rs' n) ∧
    (∀ n k, npropRuns n k rs = npropRuns n k rs') ∧ (∀ e k, epropRuns e k rs = epropRuns e k rs') :=
  ⟨fun e => RunEq.visE h e, fun n => RunEq.isTombNode h n, fun n k => RunEq.npropRuns h n k,
   fun e k => RunEq.epropRuns h e k⟩

/-! ### non-vacuity: delete + re-create of a parallel relationship with properties in one transaction -/

def hReopens : List Op :=
  [ .tx [.node 10 (some 321), .node 11 none, .edge 0 338 1, .edge 0 338 1, .labelAdd 0 322, .nprop 0 363 7] true,
    .reopen,
    .tx [.tombEdge 0 338 1, .edge 0 338 1, .eprop 0 338 1 363 5, .labelDel 0 321, .labelAdd 1 321] true,
    .tx [.node 12 (some 322)] false,
    .reopen, .reopen,
    .tx [.epropDel 0 338 1 363, .tombEdge 0 338 1, .tombNode 1, .npropDel 0 363] true ]

example : txOrReopen hReopens = true ∧ GraphSpec.wellFormed hReopens = true ∧
    GraphSpec.noC06Trigger hReopens = true ∧ histSize hReopens ≤ labelMax := by decide

/-- non-vacuity of `C04_partial_ckpt`: compactions, a reopen between them, a node-only transaction above
    the checkpoint, a close that rewrites the log, writes after it, a dropped transaction, reopen, close -/
def hCkpt : List Op :=
  [ .tx [.node 10 (some 321), .node 11 none, .edge 0 338 1, .edge 0 338 1, .nprop 0 363 7] true,
    .compact,
    .tx [.node 12 (some 322), .edge 2 338 0, .eprop 2 338 0 363 5] true,
    .reopen,
    .tx [.node 13 none] true,
    .compact, .close,
    .tx [.nprop 1 363 9] true, .tx [.node 14 none] false,
    .reopen, .close ]

example : ckptHistSafe Cfg.current {} hCkpt = true ∧ GraphSpec.wellFormed hCkpt = true ∧
    GraphSpec.noC06Trigger hCkpt = true ∧ histSize hCkpt ≤ labelMax := by decide

def A : Nat := 321
def B : Nat := 322
def R : Nat := 338
def K : Nat := 363

def hRecreate : List Op :=
  [ .tx [.node 10 (some A), .node 11 (some A), .edge 0 R 1, .edge 0 R 1] true,
    .tx [.tombEdge 0 R 1, .edge 0 R 1, .eprop 0 R 1 K 5, .nprop 0 K 1, .npropDel 1 K] true ]

/-- on the current tree the re-created relationship survives the reopen … -/
example : ∃ s s', Storage.run Cfg.current hRecreate = .ok s ∧ s.reopen = .ok s' ∧
    s.neighbors 0 none = some [⟨0, 1, 1⟩] ∧ s'.neighbors 0 none = some [⟨0, 1, 1⟩] ∧
    s'.edgeProp ⟨0, 1, 1⟩ K = some 5 ∧ s'.nodeProp 0 K = some 1 :=
  ⟨_, _, rfl, rfl, by decide, by decide, by decide, by decide⟩

/-- … on the pinned tree it was lost (CreateEdge logged before TombstoneEdge; fixed by 1483a58) -/
theorem C04_counterexample_recreate :
    ∃ s s', Storage.run Cfg.pinned hRecreate = .ok s ∧ s.reopen = .ok s' ∧
      s.neighbors 0 none = some [⟨0, 1, 1⟩] ∧ s'.neighbors 0 none = some [] ∧
      StorageTriggers.trigRecreate Cfg.pinned hRecreate = true ∧
      StorageTriggers.trigRecreate Cfg.current hRecreate = false :=
  ⟨_, _, rfl, rfl, by decide, by decide, by decide, by decide⟩

/-! ### counterexamples on the CURRENT tree (known findings; witnesses in corpus/engine_reopen/) -/

/-- only the first label is persisted in the node table and AddNodeLabel records at or below the
    checkpoint are skipped: `:B` of `(:A:B)` is gone after compact + reopen -/
def hSecondLabel : List Op :=
  [ .tx [.node 10 (some A), .labelAdd 0 B, .nprop 0 K 1] true, .compact ]

theorem C04_counterexample_second_label :
    ∃ s s', Storage.run Cfg.current hSecondLabel = .ok s ∧ s.reopen = .ok s' ∧
      s.nodeLabelNames 0 = [A, B] ∧ s'.nodeLabelNames 0 = [A] ∧
      StorageTriggers.labelChangeThenCheckpoint hSecondLabel = true :=
  ⟨_, _, rfl, rfl, by decide, by decide, by decide⟩

/-- a removed first label is back after compact + reopen -/
def hLabelRemoval : List Op :=
  [ .tx [.node 10 (some A), .nprop 0 K 1] true, .tx [.labelDel 0 A, .nprop 0 K 2] true, .compact ]

theorem C04_counterexample_label_removal :
    ∃ s s', Storage.run Cfg.current hLabelRemoval = .ok s ∧ s.reopen = .ok s' ∧
      s.nodeLabelNames 0 = [] ∧ s'.nodeLabelNames 0 = [A] ∧
      StorageTriggers.labelChangeThenCheckpoint hLabelRemoval = true :=
  ⟨_, _, rfl, rfl, by decide, by decide, by decide⟩

/-- the same loss through Db::close (checkpoint-on-close rewrites the log without the label records) -/
theorem C04_counterexample_second_label_close :
    ∃ s s', Storage.run Cfg.current [ .tx [.node 10 (some A), .labelAdd 0 B] true ] = .ok s ∧
      s.checkpointOnClose.reopen = .ok s' ∧ s.nodeLabelNames 0 = [A, B] ∧ s'.nodeLabelNames 0 = [A] :=
  ⟨_, _, rfl, rfl, by decide, by decide⟩

/-- external id 0: `IdMap::load` does not index it, replay re-creates the node and fails with
    "non-dense internal id" — the database cannot be opened again -/
theorem C04_counterexample_external_id_zero :
    ∃ s, Storage.run Cfg.current [ .tx [.node 0 (some A)] true ] = .ok s ∧
      s.reopen = .error (.idmap .nonDense) ∧
      GraphSpec.trigExtZero [ .tx [.node 0 (some A)] true ] = true :=
  ⟨_, rfl, by rfl, by decide⟩

end Nervus.Props.C04
