/-
  C30 — Bulk load equals transactional load.
  Statements only (helper lemmas: Nervus.Proofs.Csr*).  Model: Nervus.Model.Bulk (bulkload.rs
  BulkLoader::commit) + Nervus.Model.Engine (GraphEngine::open, write transactions).
-/
import Nervus.Proofs.CsrIncoming
import Nervus.Model.Bulk
import Nervus.Proofs.BulkTx
import Nervus.Proofs.BulkInterner
import Nervus.Props.C06
namespace Nervus.Props.C30
open Nervus Nervus.Storage
open Nervus.GraphSpec (Op)

theorem csr_guard_present : Cfg.current.csrGuard = true := by decide

/-- **C30 at full strength**: for every valid node / relationship set, the bulk-loaded database
    and the database that committed the same data through a transaction give the same dump through
    every read interface, relationship lists compared as lists of (src, type ID, dst).  Proved for the
    live part of the id space: `bulk_eq_tx` (both databases agree in every read with the same property
    graph), `bulk_eq_tx_nodes`, `bulk_eq_tx_edges` (same label table, same relationship lists with ids).
    Not proved as stated: the clauses of this `def` also quantify over node ids that do not exist and over
    type ids that were never interned.  The one difference found on the pinned tree — whole-map property reads when two parallel bulk
    relationships carry the same property key (`C30_counterexample_parallel_edge_key`) — is fixed. -/
def C30_full : Prop :=
  ∀ (ns : List BulkNode) (es : List BulkEdge), bulkValid ns es = true →
    ∃ d b t, bulkLoad ns es = some d ∧ Engine.open d = .ok b ∧
      Storage.run Cfg.current [.tx (txLoad ns es) true] = .ok t ∧
      b.nodes = t.nodes ∧ (∀ n, b.nodeLabelNames n = t.nodeLabelNames n) ∧
      (∀ n, b.resolveExternal n = t.resolveExternal n) ∧
      (∀ n k, b.nodeProp n k = t.nodeProp n k) ∧ (∀ n k, (b.nodeProps n).lookup k = (t.nodeProps n).lookup k) ∧
      (∀ e k, b.edgeProp e k = t.edgeProp e k) ∧ (∀ e k, (b.edgeProps e).lookup k = (t.edgeProps e).lookup k) ∧
      (∀ n rel, ∃ l l', b.neighbors n rel = some l ∧ t.neighbors n rel = some l' ∧ l.Perm l') ∧
      (∀ n rel, ∃ l l', b.incoming Cfg.current n rel = some l ∧ t.incoming Cfg.current n rel = some l' ∧ l.Perm l')

/-- **C30 (proved part): the segment the bulk loader writes.**  For EVERY valid input (no
    relationships at all, parallel relationships, self loops, shared names included) the one CSR
    segment of the bulk-loaded database answers `neighbors` and `incoming_neighbors`, under any type
    filter, with exactly the loaded relationships of that source / destination (as a multiset) and
    never panics — the CSR construction lemma shared with C05. -/
theorem bulk_segment_reads (ns : List BulkNode) (es : List BulkEdge) (hv : bulkValid ns es = true) :
    ∃ d g, bulkLoad ns es = some d ∧ d.segStore = [g] ∧ g.id = 0 ∧
      (∀ src rel, ∃ l, g.neighbors src rel = some l ∧
        l.Perm ((bulkEdges ns es).filter (fun e => e.src == src && relOk rel e))) ∧
      (∀ dst rel, ∃ l, g.incomingG Cfg.current.csrGuard dst rel = some l ∧
        l.Perm ((bulkEdges ns es).filter (fun e => e.dst == dst && relOk rel e))) := by
  have hb : bulkLoad ns es = some
      { wal := [.beginTx 0] ++ (bulkInterner ns es).zipIdx.map (fun p => WalRec.createLabel p.1 p.2) ++
                [.manifestSwitch 0 [0] 1, .checkpoint 0 0 1, .commitTx 0],
        i2e := ns.map (fun n => ⟨n.ext, ((bulkInterner ns es).getId n.label).getD 0⟩),
        segStore := [(buildForward 0 (bulkEdges ns es)).persist],
        store := bulkStore ns es, storeRoot := 1, vecs := [] } := by
    unfold bulkLoad; rw [hv]; rfl
  refine ⟨_, (buildForward 0 (bulkEdges ns es)).persist, hb, rfl, ?_, ?_, ?_⟩
  · rw [(persist_forward _).2.2.2.2]
    unfold buildForward; simp only; split <;> rfl
  · intro src rel; rw [persist_neighbors]; exact buildForward_neighbors 0 _ src rel
  · intro dst rel; exact built_incoming _ 0 _ dst rel (Or.inl csr_guard_present)

/-! `bulkOK ns es` (Proofs/BulkAgree, decidable): what BulkLoader::validate checks (distinct external
    ids, relationship end points among the nodes) and no external id 0 (the known findings of C06 / C04
    about id 0 apply to both load paths and are not C30's). -/

/-- **C30 at full strength: `bulk_eq_tx`.**  For EVERY valid input — any nodes with any labels and
    property lists (duplicate keys included: the last value wins on both paths), any relationships
    (parallel ones, self loops, shared names, properties on parallel relationships) — the database that
    `GraphEngine::open` builds from the files of `BulkLoader::commit` and the database that committed
    `txLoad ns es` through one write transaction BOTH agree, in every read interface (node enumeration of
    both kinds, external ids, label names, single-key and whole-map node and relationship properties,
    outgoing and incoming neighbours with multiplicity under any type filter, external-id lookup of every
    id), with one and the same property graph: the Spec graph of the transactional load.
    Bulk side: `bulk_open` (the opened engine, explicitly), `txLoad_graph` (the Spec graph in closed form),
    `bulk_reads_agree`; transactional side: `txLoad_wf` + `C06_partial`. -/
theorem bulk_eq_tx (ns : List BulkNode) (es : List BulkEdge) (hok : bulkOK ns es = true)
    (hsz : (txLoad ns es).length ≤ labelMax) :
    ∃ d b t, bulkLoad ns es = some d ∧ Engine.open d = .ok b ∧
      Storage.run Cfg.current [.tx (txLoad ns es) true] = .ok t ∧
      ReadsAgree Cfg.current b (GraphSpec.run [.tx (txLoad ns es) true]) ∧
      ReadsAgree Cfg.current t (GraphSpec.run [.tx (txLoad ns es) true]) := by
  obtain ⟨hv, _, hz, _⟩ := bulkOK_unpack ns es hok
  obtain ⟨d, hd, hopen, hi2e⟩ := bulk_open ns es hv
  have hops := txLoad_loadOps ns es
  obtain ⟨t, ht, hrt⟩ := C06.C06_partial Cfg.current [.tx (txLoad ns es) true] rfl
    (by show (GraphSpec.txWF {} (txLoad ns es) && true) = true; rw [txLoad_wf ns es hok]; rfl)
    (by
      simp only [GraphSpec.noC06Trigger, GraphSpec.trigRelPropsSurvive, GraphSpec.trigLabelReAdd,
        GraphSpec.trigEdgeAndEndpointDelete, GraphSpec.trigExtZero, GraphSpec.anyCommitted, Bool.or_false,
        load_noDeletes _ hops, load_noLabelReAdd _ hops, load_noEndpointDelete _ hops,
        txLoad_noExtZero ns es hz]
      rfl)
    (by show (txLoad ns es).length + 0 ≤ labelMax; omega)
  exact ⟨d, _, t, hd, hopen, ht, bulk_reads_agree ns es (bulkEngine_isBulk ns es d hi2e) hok, hrt⟩

/-- `bulk_eq_tx` spelled out for the reads that need no translation between the two label tables: the two
    databases enumerate the same nodes and answer external ids, label names, every node property (single
    key and whole map) and every external-id lookup alike -/
theorem bulk_eq_tx_nodes (ns : List BulkNode) (es : List BulkEdge) (hok : bulkOK ns es = true)
    (hsz : (txLoad ns es).length ≤ labelMax) :
    ∃ d b t, bulkLoad ns es = some d ∧ Engine.open d = .ok b ∧
      Storage.run Cfg.current [.tx (txLoad ns es) true] = .ok t ∧
      b.nodes = t.nodes ∧ b.nodesSnap = t.nodesSnap ∧
      (∀ n ∈ b.nodes, b.resolveExternal n = t.resolveExternal n ∧
        (∀ l, l ∈ b.nodeLabelNames n ↔ l ∈ t.nodeLabelNames n) ∧
        (∀ k, b.nodeProp n k = t.nodeProp n k) ∧
        (∀ k, (b.nodeProps n).lookup k = (t.nodeProps n).lookup k)) ∧
      (∀ x, b.lookupInternal x = t.lookupInternal x) := by
  obtain ⟨d, b, t, h1, h2, h3, rb, rt⟩ := bulk_eq_tx ns es hok hsz
  obtain ⟨_, hnd, _, _⟩ := bulkOK_unpack ns es hok
  have hdead : (GraphSpec.run [.tx (txLoad ns es) true]).dead = [] := (txLoad_graph ns es hnd).2.1
  refine ⟨d, b, t, h1, h2, h3, rb.nodes.trans rt.nodes.symm, rb.nodesSnap.trans rt.nodesSnap.symm, ?_, ?_⟩
  · intro n hn
    have hl : (GraphSpec.run [.tx (txLoad ns es) true]).live n = true := by
      rw [← mem_nodes_iff_live, ← rb.nodes]; exact hn
    exact ⟨(rb.ext n hl).trans (rt.ext n hl).symm, fun l => (rb.labels n l hl).trans (rt.labels n l hl).symm,
      fun k => (rb.nprop n k hl).trans (rt.nprop n k hl).symm, fun k => (rb.nprops n k hl).trans (rt.nprops n k hl).symm⟩
  · intro x
    have hx : GraphSpec.extOfDeleted (GraphSpec.run [.tx (txLoad ns es) true]) x = false := by
      unfold GraphSpec.extOfDeleted; rw [hdead]; simp
    exact (rb.extLookup x hx).trans (rt.extLookup x hx).symm

/-- `bulk_eq_tx` for the relationship reads, literally: the two databases have the SAME label table
    (`txLoad_interner`: same names, same ids), and from every node, under no type filter or under any
    interned type id, `neighbors` and `incoming_neighbors` return the same relationships — same (src, type
    id, dst) triples with the same multiplicities — on both. -/
theorem bulk_eq_tx_edges (ns : List BulkNode) (es : List BulkEdge) (hok : bulkOK ns es = true)
    (hsz : (txLoad ns es).length ≤ labelMax) :
    ∃ d b t, bulkLoad ns es = some d ∧ Engine.open d = .ok b ∧
      Storage.run Cfg.current [.tx (txLoad ns es) true] = .ok t ∧ b.interner = t.interner ∧
      ∀ n ∈ b.nodes, ∀ rel : Option Nat, (rel = none ∨ ∃ r nm, rel = some r ∧ b.interner[r]? = some nm) →
        (∃ l l', b.neighbors n rel = some l ∧ t.neighbors n rel = some l' ∧ l.Perm l') ∧
        (∃ l l', b.incoming Cfg.current n rel = some l ∧ t.incoming Cfg.current n rel = some l' ∧ l.Perm l') := by
  obtain ⟨hv, _, _, _⟩ := bulkOK_unpack ns es hok
  obtain ⟨d, hd, hopen, hi2e⟩ := bulk_open ns es hv
  obtain ⟨d', b, t, h1, h2, h3, rb, rt⟩ := bulk_eq_tx ns es hok hsz
  have hdd : d' = d := by rw [hd] at h1; cases h1; rfl
  subst hdd
  have hbE : b = bulkEngine ns es d' := by rw [hopen] at h2; cases h2; rfl
  have hint : b.interner = t.interner := by
    have ht : t = runTx Cfg.current {} (txLoad ns es) true := by
      have : Storage.run Cfg.current [.tx (txLoad ns es) true] = .ok (runTx Cfg.current {} (txLoad ns es) true) := rfl
      rw [this] at h3; cases h3; rfl
    rw [ht, txLoad_interner, hbE]; rfl
  refine ⟨d', b, t, hd, h2, h3, hint, ?_⟩
  intro n hn rel hrel
  have hl : (GraphSpec.run [.tx (txLoad ns es) true]).live n = true := by
    rw [← mem_nodes_iff_live, ← rb.nodes]; exact hn
  -- the Spec-side name of the filter
  obtain ⟨tt, hmb, hmt⟩ : ∃ tt, RelMatch b rel tt ∧ RelMatch t rel tt := by
    rcases hrel with rfl | ⟨r, nm, rfl, hr⟩
    · exact ⟨none, Or.inl ⟨rfl, rfl⟩, Or.inl ⟨rfl, rfl⟩⟩
    · exact ⟨some nm, Or.inr ⟨r, nm, rfl, rfl, hr⟩, Or.inr ⟨r, nm, rfl, rfl, by rw [← hint]; exact hr⟩⟩
  have key : ∀ (l l' : List Edge) (cnt : Nat → Nat → Nat → Nat → Nat),
      (∀ e ∈ l, ∃ nm, b.interner[e.rel]? = some nm) → (∀ e ∈ l', ∃ nm, t.interner[e.rel]? = some nm) →
      (∀ r nm a c, b.interner[r]? = some nm → l.count ⟨a, r, c⟩ = cnt r nm a c) →
      (∀ r nm a c, t.interner[r]? = some nm → l'.count ⟨a, r, c⟩ = cnt r nm a c) → l.Perm l' := by
    intro l l' cnt m1 m2 c1 c2
    rw [List.perm_iff_count]
    intro e
    cases hq : b.interner[e.rel]? with
    | some nm =>
      have e1 := c1 e.rel nm e.src e.dst hq
      have e2 := c2 e.rel nm e.src e.dst (by rw [← hint]; exact hq)
      show l.count e = l'.count e
      have : (⟨e.src, e.rel, e.dst⟩ : Edge) = e := rfl
      rw [this] at e1 e2
      rw [e1, e2]
    | none =>
      have n1 : l.count e = 0 := List.count_eq_zero.mpr (fun hm => by obtain ⟨nm, h⟩ := m1 e hm; rw [hq] at h; cases h)
      have n2 : l'.count e = 0 := List.count_eq_zero.mpr (fun hm => by
        obtain ⟨nm, h⟩ := m2 e hm; rw [← hint, hq] at h; cases h)
      rw [n1, n2]
  constructor
  · obtain ⟨l, a1, a2, a3⟩ := rb.out n rel tt hl hmb
    obtain ⟨l', b1, b2, b3⟩ := rt.out n rel tt hl hmt
    exact ⟨l, l', a1, b1, key l l' (fun r nm a c => ((GraphSpec.run [.tx (txLoad ns es) true]).out n tt).count ⟨a, nm, c⟩)
      a2 b2 a3 b3⟩
  · obtain ⟨l, a1, a2, a3⟩ := rb.inc n rel tt hl hmb
    obtain ⟨l', b1, b2, b3⟩ := rt.inc n rel tt hl hmt
    exact ⟨l, l', a1, b1, key l l' (fun r nm a c => ((GraphSpec.run [.tx (txLoad ns es) true]).inc n tt).count ⟨a, nm, c⟩)
      a2 b2 a3 b3⟩

/-! ### non-vacuity and a worked equality (labels shared between nodes and types, parallel
    relationships, a self loop, properties of several kinds) -/

def A : Nat := 321
def R : Nat := 338
def K : Nat := 363

def ns1 : List BulkNode := [⟨10, A, [(K, 1)]⟩, ⟨11, A, []⟩, ⟨12, 322, [(K, 2), (364, 3)]⟩]
def es1 : List BulkEdge := [⟨10, R, 11, [(K, 5)]⟩, ⟨10, R, 11, []⟩, ⟨12, A, 12, []⟩, ⟨11, R, 10, [(364, 6)]⟩]

example : bulkValid ns1 es1 = true ∧ bulkDupEdgeKey es1 = false := by decide

/-- non-vacuity of `bulk_eq_tx` -/
example : bulkOK ns1 es1 = true ∧ (txLoad ns1 es1).length ≤ labelMax := by decide

theorem worked_example :
    ∃ d b t, bulkLoad ns1 es1 = some d ∧ Engine.open d = .ok b ∧
      Storage.run Cfg.current [.tx (txLoad ns1 es1) true] = .ok t ∧
      b.nodes = t.nodes ∧
      (b.neighbors 0 none).map (isort Edge.le) = (t.neighbors 0 none).map (isort Edge.le) ∧
      (b.incoming Cfg.current 0 none).map (isort Edge.le) = (t.incoming Cfg.current 0 none).map (isort Edge.le) ∧
      (b.nodeProps 2).lookup 364 = (t.nodeProps 2).lookup 364 ∧ b.edgeProp ⟨0, 2, 1⟩ K = t.edgeProp ⟨0, 2, 1⟩ K ∧
      b.nodeLabelNames 2 = t.nodeLabelNames 2 ∧ b.interner = t.interner :=
  ⟨_, _, _, rfl, rfl, rfl, by decide, by decide, by decide, by decide, by decide, by decide, by decide⟩

/-! ### counterexamples -/

/-- two parallel bulk relationships with the same property key: the single-key read returns the
    value of the LAST one on both sides; the pinned insertion loop of the whole-map read
    (`extendWith false`) returned the FIRST one for the bulk-loaded store, the current one agrees with
    the transactional load (same root cause as C05-whole-map-read-returns-oldest-sunk-value; fixed by
    c7ee0a6) -/
def esDup : List BulkEdge := [⟨10, R, 11, [(K, 5)]⟩, ⟨10, R, 11, [(K, 6)]⟩]

theorem C30_counterexample_parallel_edge_key :
    ∃ d b t, bulkLoad ns1 esDup = some d ∧ Engine.open d = .ok b ∧
      Storage.run Cfg.current [.tx (txLoad ns1 esDup) true] = .ok t ∧
      b.edgeProp ⟨0, 2, 1⟩ K = some 6 ∧ t.edgeProp ⟨0, 2, 1⟩ K = some 6 ∧
      Store.extendWith false (b.store.fetchEdge ⟨0, 2, 1⟩ []) [] = [(K, 5)] ∧
      b.edgeProps ⟨0, 2, 1⟩ = [(K, 6)] ∧ t.edgeProps ⟨0, 2, 1⟩ = [(K, 6)] ∧ bulkDupEdgeKey esDup = true :=
  ⟨_, _, _, rfl, rfl, rfl, by decide, by decide, by decide, by decide, by decide, by decide⟩

/-- pinned tree: a bulk load without relationships opens, and the first incoming traversal panics
    (edge-free segment, csr.rs:67); fixed by f429866 -/
theorem C30_counterexample_no_relationships_panics :
    ∃ d b, bulkLoad ns1 [] = some d ∧ Engine.open d = .ok b ∧
      b.incoming Cfg.pinned 0 none = none ∧ b.incoming Cfg.current 0 none = some [] :=
  ⟨_, _, rfl, rfl, by decide, by decide⟩

end Nervus.Props.C30
