/-
  C33 — Execution limits fail cleanly.
  Statements only (helper lemmas live in Nervus.Proofs.{Streams,Trans,Limits,PlanInst}).
  Model: Nervus.Model.PlanOps (guard iterator around every node, the `check_collection_size` /
  `check_apply_rows_per_outer` / `check_timeout` sites inside the operators) and Nervus.Model.Limits
  (`Opts`, effective limits with the defaults regenerated from query_api.rs).
  The row budget (one global counter) and the clock are ORACLES of the limit environment: every
  theorem holds for every firing pattern, hence for the real counter and the real clock.
  Not in the model (partial): wall-clock time itself — "stops within a bounded amount of extra
  work" is proved as a bound on PULLS (`bounded_extra_work` over the whole plan, `stops_at_error_*`
  per operator), not on seconds.
-/
import Nervus.Proofs.Limits
import Nervus.Proofs.PlanInst
import Nervus.Proofs.Bounded
import Nervus.Proofs.WriteOps
namespace Nervus.Props.C33
open Nervus Nervus.PlanOps Nervus.PlanInst

theorem quirks_repaired : Quirks.current.forwardsErr := by decide

/-- the limit defaults the model uses are those of the source (regenerated table) -/
theorem defaults : Opts.default = ⟨500000, 200000, 5000, 200000⟩ := by decide

section
variable {χ ρ ν ε κ α : Type} [DecidableEq κ]

/-- **complete_or_error**: under ANY limit environment whose verdicts are limit errors (any
    `ExecuteOptions`, any behaviour of the row counter and of the clock), for every plan: the
    limited run answers exactly what the unlimited run answers, or a limit error — never a proper
    sub-bag, never an altered result.  (Induction over the plan: every operator forwards `Err`
    items — C22 — and a limit check only ever ADDS an `Err`.) -/
theorem complete_or_error (isLimit : ε → Bool) (S : Sem χ ρ ν ε κ α) (Q : Quirks) (hq : Q.forwardsErr)
    (L : LimEnv ε) (hL : L.Lawful isLimit) (hS : S.LimitLawful L.coll isLimit)
    (params : ρ) (p : Plan χ ρ ε α) : CompleteOrError S Q L isLimit params p :=
  (runL_limRel isLimit S Q hq L hL hS p .root params).collect isLimit

/-- in particular: if the limited run answers `Ok rows`, these are the rows of the unlimited run -/
theorem limited_ok_is_complete (isLimit : ε → Bool) (S : Sem χ ρ ν ε κ α) (Q : Quirks) (hq : Q.forwardsErr)
    (L : LimEnv ε) (hL : L.Lawful isLimit) (hS : S.LimitLawful L.coll isLimit)
    (params : ρ) (p : Plan χ ρ ε α) (rows : List ρ) (h : execute S Q L params p = .ok rows) :
    execute S Q .unlimited params p = .ok rows := by
  rcases complete_or_error isLimit S Q hq L hL hS params p with heq | ⟨e, he, _⟩
  · rw [← heq]; exact h
  · rw [he] at h; cases h

/-! ### bounded extra work, per operator on the path of the error: once an operator has pulled an
    `Err` item (the limit error of a failing check below it) it pulls no further input item when
    its consumer stops at the first `Err` it receives -/

theorem stops_at_error_guard (L : LimEnv ε) (site : Site) : StopsAtError (guardT (ρ := ρ) L site) :=
  Trans.stopsAtError _ (guardT_errFwd L site)

omit [DecidableEq κ] in
theorem stops_at_error_filter (S : Sem χ ρ ν ε κ α) (Q : Quirks) (L : LimEnv ε) (env : ρ) (pred : χ) :
    StopsAtError (filterT S Q L env pred) :=
  Trans.stopsAtError _ (mapT_errFwd _)

omit [DecidableEq κ] in
theorem stops_at_error_project (S : Sem χ ρ ν ε κ α) (L : LimEnv ε) (env : ρ) (projs : List (String × χ)) :
    StopsAtError (projectT S L env projs) :=
  Trans.stopsAtError _ (mapT_errFwd _)

theorem stops_at_error_distinct (S : Sem χ ρ ν ε κ α) : StopsAtError (distinctT (ρ := ρ) S false) :=
  Trans.stopsAtError _ (distinctT_errFwd S)

theorem stops_at_error_skip : StopsAtError (skipT (ε := ε) (ρ := ρ) false) :=
  Trans.stopsAtError _ skipT_errFwd

theorem stops_at_error_limit : StopsAtError (limitT (ε := ε) (ρ := ρ)) :=
  Trans.stopsAtError _ limitT_errFwd

theorem stops_at_error_expansion (g : Nat → ρ → PlanOps.Stream ε ρ) : StopsAtError (flatMapT g) :=
  Trans.stopsAtError _ (flatMapT_errFwd g)

omit [DecidableEq κ] in
theorem stops_at_error_orderBy (S : Sem χ ρ ν ε κ α) (Q : Quirks) (hq : Q.orderByKeepsErr = false)
    (L : LimEnv ε) (site : Site) (env : ρ) (keys : List (χ × Bool)) :
    StopsAtError (orderByT S Q L site env keys) :=
  Trans.stopsAtError _ (orderByT_errFwd S Q hq L site env keys)

theorem stops_at_error_aggregate (S : Sem χ ρ ν ε κ α) (L : LimEnv ε) (site : Site) (env : ρ)
    (groupBy : List String) (aggs : List (α × String)) :
    StopsAtError (aggregateT S L site env groupBy aggs) :=
  Trans.stopsAtError _ (aggregateT_errFwd S L site env groupBy aggs)

/-- **bounded extra work, over the plan** (full strength in pulls): a consumer of ANY node of ANY
    plan that does not call again after an `Err` (as the driver's `collect` does) makes every
    operator below behave the same way towards its own inputs — no iterator anywhere in the tree
    is pulled again after it has returned an `Err` (`late = false` for every hand-over) — and the
    pulls that return an `Err` number at most the length of the operator path below the node
    (`Plan.depth`; nested executions count as children).  After the first failing check every pull
    there still is returns that error: it travels up one `next()` per level and nothing else runs. -/
theorem bounded_extra_work_node (S : Sem χ ρ ν ε κ α) (Q : Quirks) (hq : Q.forwardsErr) (L : LimEnv ε)
    (p : Plan χ ρ ε α) (site : Site) (env : ρ) (d : Nat) (hc : Calls (runL S Q L site env p) d) :
    (∀ h ∈ trace false S Q L site env p d, h.late = false) ∧
    errPulls (trace false S Q L site env p d) ≤ p.depth :=
  trace_good S Q hq L p site env d hc

/-- **complete_or_error for write statements** (`execute_write_with_rows`: staged read clauses,
    write clauses, FOREACH): under any lawful limit environment the statement does exactly what the
    unlimited run does — same modification count, rows handed on and graph state — or fails with a
    limit error.  The list expressions of FOREACH clauses are assumed not to park failures. -/
theorem write_complete_or_error {ω τ : Type} (isLimit : ε → Bool) (S : Sem χ ρ ν ε κ α) (Q : Quirks)
    (hq : Q.forwardsErr) (L : LimEnv ε) (hL : L.Lawful isLimit) (hS : S.LimitLawful L.coll isLimit)
    (W : WSem ω ρ ε τ) (wp : WPlan χ ρ ε α ω)
    (hnp : ∀ e ∈ wp.lists, ∀ env r, S.park L.coll e env r = none) (site : Site) (env : ρ) (t : τ) :
    execW S Q L W site env wp t = execW S Q LimEnv.unlimited W site env wp t ∨
    ∃ e, execW S Q L W site env wp t = .error e ∧ isLimit e = true :=
  execW_lim isLimit S Q hq L hL hS W wp hnp site env t

/-- the same at the driver: while the query's result is collected -/
theorem bounded_extra_work (S : Sem χ ρ ν ε κ α) (Q : Quirks) (hq : Q.forwardsErr) (L : LimEnv ε)
    (params : ρ) (p : Plan χ ρ ε α) : BoundedExtraWork S Q L params p :=
  boundedExtraWork S Q hq L params p

end

/-- **C33, bounded extra work (full strength in pulls)** on the working tree, for every
    instantiation, every limit environment (lawful or not: ANY error counts), every plan -/
theorem C33_bounded_work_full {χ ρ ν ε κ α : Type} [DecidableEq κ] (S : Sem χ ρ ν ε κ α) (L : LimEnv ε)
    (params : ρ) (p : Plan χ ρ ε α) : BoundedExtraWork S Quirks.current L params p :=
  bounded_extra_work S _ quirks_repaired L params p

/-- **C33 (full strength, as far as the model reaches)** on the working tree: complete-or-error
    for every lawful limit environment, every instantiation, every plan.  PARTIAL with respect to
    the property text: wall-clock time is outside the model (see the header). -/
theorem C33_full {χ ρ ν ε κ α : Type} [DecidableEq κ] (isLimit : ε → Bool) (S : Sem χ ρ ν ε κ α)
    (L : LimEnv ε) (hL : L.Lawful isLimit) (hS : S.LimitLawful L.coll isLimit)
    (params : ρ) (p : Plan χ ρ ε α) : CompleteOrError S Quirks.current L isLimit params p :=
  complete_or_error isLimit S _ quirks_repaired L hL hS params p

/-- the theorem applies to the instance the `planlim` stream runs, for every `ExecuteOptions`, every
    behaviour of the row counter and the clock, and every lawful way the EXISTS subqueries that sit
    inside expressions answer (as without limits, or failing with a limit error) -/
theorem C33_instance (X : (String → Nat → Option DErr) → ExFn) (o : Opts)
    (rowFires timeFires : Site → Nat → Bool)
    (hX : ExLawful X (LimEnv.ofOpts DErr.limit o rowFires timeFires).coll) (params : DRow)
    (p : Plan DE DRow DErr DAgg) :
    CompleteOrError (dsemX X) Quirks.current (LimEnv.ofOpts DErr.limit o rowFires timeFires) DErr.isLimit params p :=
  C33_full DErr.isLimit (dsemX X) _ (ofOpts_lawful o rowFires timeFires)
    (dsemX_limitLawful X _ (ofOpts_collLawful o rowFires timeFires) hX) params p

/-- the evaluator's list builtins build the whole list: no construction is cut short by a limit
    (regenerated from evaluator/evaluator_collections.rs and evaluator_comprehension.rs: the loops of
    `evaluate_range` run to `end`, nothing there reads a limit) -/
theorem list_builtins_unbounded : Generated.boundedListBuiltins = [] := by decide

/-- every list-producing expression of the instance, under a collection limit: the FULL value of
    the unlimited evaluation, or the limit error — never a shortened list -/
theorem list_builtins_full_or_error (X : (String → Nat → Option DErr) → ExFn)
    (coll : String → Nat → Option DErr) (hc : CollLawful coll) (hX : ExLawful X coll) (e : DE) (env r : DRow)
    (hp : (dsemX X).park coll e env r = none) :
    (dsemX X).eval coll e env r = (dsemX X).eval (fun _ _ => none) e env r ∨
    ∃ er, (dsemX X).eval coll e env r = .error er ∧ DErr.isLimit er = true :=
  (dsemX_limitLawful X coll hc hX).eval e env r hp

/-! ### witnesses on the concrete instance (replayed on the engine: corpus/plan/c33-*.ops) -/

/-- `UNWIND [1, 2, 3] AS x RETURN DISTINCT x` -/
def qDistinct3 : Plan DE DRow DErr DAgg :=
  .distinct (.project [("x", .var "x")] (.unwind (.lit (.list [.int 1, .int 2, .int 3])) "x" (.scan [[]])))

def never : Site → Nat → Bool := fun _ _ => false

/-- `max_collection_items = 2`, everything else unlimited -/
def coll2 : LimEnv DErr := LimEnv.ofOpts DErr.limit ⟨10 ^ 9, 2, 0, 10 ^ 9⟩ never never

/-- the row budget runs out at the second row of the Project node (an oracle pattern the real
    counter produces for `max_intermediate_rows = 5`) -/
def rows5 : LimEnv DErr :=
  LimEnv.ofOpts DErr.limit ⟨5, 10 ^ 9, 0, 10 ^ 9⟩ (fun site i => site == .left .root && i ≥ 1) never

def rowX (i : Int) : DRow := [("x", dint i)]

/-- non-vacuity: without DISTINCT the limited runs fail with the limit error, on both trees -/
example : execute dsem Quirks.pinned coll2 []
    (.project [("x", .var "x")] (.unwind (.lit (.list [.int 1, .int 2, .int 3])) "x" (.scan [[]])))
    = .error (.limit .coll) := by decide

/-- pinned tree: the `Unwind.list` check fails (3 > 2), DISTINCT drops the limit error and the
    query answers `Ok []` — an altered result, not a limit error -/
theorem C33_counterexample_distinct_collection :
    execute dsem Quirks.pinned .unlimited [] qDistinct3 = .ok [rowX 1, rowX 2, rowX 3] ∧
    execute dsem Quirks.pinned coll2 [] qDistinct3 = .ok [] ∧
    ¬ CompleteOrError dsem Quirks.pinned coll2 DErr.isLimit [] qDistinct3 := by
  have h1 : execute dsem Quirks.pinned .unlimited [] qDistinct3 = .ok [rowX 1, rowX 2, rowX 3] := by decide
  have h2 : execute dsem Quirks.pinned coll2 [] qDistinct3 = .ok [] := by decide
  refine ⟨h1, h2, fun h => ?_⟩
  rcases h with h | ⟨e, he, _⟩
  · rw [h1, h2] at h; cases h
  · rw [h2] at he; cases he

/-- pinned tree: the row budget fails below DISTINCT and the query answers a truncated result -/
theorem C33_counterexample_distinct_rows :
    execute dsem Quirks.pinned rows5 [] qDistinct3 = .ok [rowX 1] ∧
    ¬ CompleteOrError dsem Quirks.pinned rows5 DErr.isLimit [] qDistinct3 := by
  have h1 : execute dsem Quirks.pinned .unlimited [] qDistinct3 = .ok [rowX 1, rowX 2, rowX 3] := by decide
  have h2 : execute dsem Quirks.pinned rows5 [] qDistinct3 = .ok [rowX 1] := by decide
  refine ⟨h2, fun h => ?_⟩
  rcases h with h | ⟨e, he, _⟩
  · rw [h1, h2] at h; cases h
  · rw [h2] at he; cases he

/-- the same runs on the repaired operators: limit errors -/
theorem C33_witnesses_repaired :
    execute dsem Quirks.repaired coll2 [] qDistinct3 = .error (.limit .coll) ∧
    execute dsem Quirks.repaired rows5 [] qDistinct3 = .error (.limit .rows) := by
  constructor <;> decide

/-- pinned tree, extra work: after the error of the second row DISTINCT keeps pulling to the end
    of its input (4 calls for a 3-item input); the repaired DISTINCT stops at the error (2 calls) -/
theorem C33_counterexample_distinct_keeps_pulling :
    (distinctT dsem true).need [] [.ok (rowX 1), .error (DErr.limit .rows), .ok (rowX 2)]
      (driverDemand ((distinctT dsem true).run [] [.ok (rowX 1), .error (DErr.limit .rows), .ok (rowX 2)])) = 4 ∧
    (distinctT dsem false).need [] [.ok (rowX 1), .error (DErr.limit .rows), .ok (rowX 2)]
      (driverDemand ((distinctT dsem false).run [] [.ok (rowX 1), .error (DErr.limit .rows), .ok (rowX 2)])) = 2 := by
  constructor <;> decide

/-- `UNWIND ['true', 1, 'false'] AS v RETURN DISTINCT toBoolean(v) AS b` — the second row fails -/
def qDistinctMixed : Plan DE DRow DErr DAgg :=
  .distinct (.project [("b", .toBoolean (.var "v"))]
    (.unwind (.lit (.list [.str "true", .int 1, .str "false"])) "v" (.scan [[]])))

/-- pinned tree, in the terms of `BoundedExtraWork`: DISTINCT drops the error of the second row and
    pulls its input again — the third row is a `late` hand-over; on the repaired operators nothing
    is `late` and the error costs at most 3 pulls (the depth of the plan) -/
theorem C33_counterexample_late_pull :
    ¬ BoundedExtraWork dsem Quirks.pinned .unlimited [] qDistinctMixed ∧
    BoundedExtraWork dsem Quirks.repaired .unlimited [] qDistinctMixed := by
  constructor
  · intro h
    have := h.1 ⟨false, .ok [("b", dbool false)], true⟩ (by decide)
    cases this
  · exact bounded_extra_work dsem Quirks.repaired (by decide) .unlimited [] qDistinctMixed

/-! ### a parked limit error and the end of the stream -/

/-- `EXISTS { UNWIND range(1, n) AS k RETURN k }` for the row's `n`: the `Function(range)` check -/
def existsRange : (String → Nat → Option DErr) → ExFn := fun coll _ _ row =>
  match rowGet row "n" with
  | some (.s (.int n)) =>
    (match coll "Function(range)" n.toNat with
     | some e => .failed e
     | none => .has (n > 0))
  | _ => .has false

/-- `UNWIND [3, 5, 50] AS n UNWIND CASE WHEN EXISTS { … range(1, n) … } THEN [n] ELSE [] END AS y` -/
def qParkLast : Plan DE DRow DErr DAgg :=
  .unwind (.caseWhen (.existsSub 0) (.single (.var "n")) (.lit (.list []))) "y"
    (.unwind (.lit (.list [.int 3, .int 5, .int 50])) "n" (.scan [[]]))

/-- `max_collection_items = 10` -/
def coll10 : LimEnv DErr := LimEnv.ofOpts DErr.limit ⟨10 ^ 9, 10, 0, 10 ^ 9⟩ never never

/-- a guard that skips `take_failure` on the exhausting pull -/
def Quirks.guardDrops : Quirks := { Quirks.repaired with guardDropsFailureAtEnd := true }

def rowNY (i : Int) : DRow := [("n", dint i), ("y", dint i)]

/-- the limit error is parked while the LAST row is processed, that row yields nothing, the stream
    ends — and a guard that does not look for a parked failure at the end answers a truncated result -/
theorem C33_counterexample_guard_drops_parked_failure :
    execute (dsemX existsRange) Quirks.guardDrops .unlimited [] qParkLast = .ok [rowNY 3, rowNY 5, rowNY 50] ∧
    execute (dsemX existsRange) Quirks.guardDrops coll10 [] qParkLast = .ok [rowNY 3, rowNY 5] ∧
    ¬ CompleteOrError (dsemX existsRange) Quirks.guardDrops coll10 DErr.isLimit [] qParkLast := by
  have h1 : execute (dsemX existsRange) Quirks.guardDrops .unlimited [] qParkLast = .ok [rowNY 3, rowNY 5, rowNY 50] := by decide
  have h2 : execute (dsemX existsRange) Quirks.guardDrops coll10 [] qParkLast = .ok [rowNY 3, rowNY 5] := by decide
  refine ⟨h1, h2, fun h => ?_⟩
  rcases h with h | ⟨e, he, _⟩
  · rw [h1, h2] at h; cases h
  · rw [h2] at he; cases he

/-- the repaired guard reports it — also when the failing row is first or in the middle -/
theorem C33_witness_parked_failure_reported :
    execute (dsemX existsRange) Quirks.repaired coll10 [] qParkLast = .error (.limit .coll) := by decide

example : ExLawful existsRange coll10.coll := by
  intro i env row
  simp only [existsRange]
  cases rowGet row "n" with
  | none => left; rfl
  | some v =>
    cases v with
    | list xs => left; rfl
    | s x =>
      cases x with
      | int n =>
        simp only
        cases h : coll10.coll "Function(range)" n.toNat with
        | none => left; rfl
        | some e => right; exact ⟨e, rfl, (ofOpts_lawful _ _ _).coll _ _ _ h⟩
      | _ => left; rfl

end Nervus.Props.C33
