/-
  C13 — A failed statement has no effect.
  Statements only (helper lemmas: Nervus.Proofs.Txn).  Model: Nervus.Model.Txn.  `codeStep` is the C API's
  execute_write_count / execute_write_in_txn / ndb_txn_commit / ndb_txn_rollback over the row-by-row staging of the
  write executors; its two switches are read off the source on every build (`Generated.CapiTxn`).  After the
  statement-savepoint fix `codeStep = step true false`; the pinned tree was `step false false` (`legacyRun`) and is
  kept for the counterexample theorems.
-/
import Nervus.Proofs.Txn
import Nervus.Proofs.Savepoint
namespace Nervus.Props.C13
open Nervus.Txn Nervus.Spec.TxnSem

/-- **C13 at full strength**: whatever the history, wherever a statement fails (auto-commit or inside an explicit
    transaction that is committed later), the database evolves as if the failed statements had not been issued. -/
def C13_full : Prop := ∀ (σ : State) (ops : List Op), codeRun σ ops = atomicRun σ ops

/-- **C13** holds on the repaired code, for all states and histories. -/
theorem C13 : C13_full := fun σ ops => by rw [codeRun_def]

/-- **failed_stmt_no_effect** (one step, full strength): an operation that returns an error leaves the whole state —
    committed graph, id counter, staged writes of the open transaction — exactly as it was. -/
theorem failed_stmt_no_effect (σ : State) (op : Op) (h : (codeStep σ op).2 = .err) : (codeStep σ op).1 = σ := by
  rw [codeStep_def] at h ⊢
  obtain ⟨c, a, st⟩ := σ
  cases op with
  | auto s =>
    cases st with
    | some ps => simp [step] at h
    | none =>
      by_cases hf : (exec c a s).failed = true
      · simp [step, hf]
      · exfalso
        have hf' : (exec c a s).failed = false := by simpa using hf
        simp only [step, hf', Bool.false_eq_true, if_false] at h
        split at h <;> cases h
  | tq s =>
    cases st with
    | none => simp [step] at h
    | some ps =>
      simp only [step, Bool.false_eq_true, if_false, if_true] at h ⊢
      split
      · rfl
      · rename_i hf; simp [hf] at h
  | begin => cases st <;> simp [step] at h
  | commit => cases st <;> simp [step] at h
  | rollback => cases st <;> simp [step] at h

/-- in particular what a later commit persists does not depend on the failed statement -/
theorem failed_stmt_then_commit (σ : State) (s : Stmt) (h : (codeStep σ (.tq s)).2 = .err) :
    codeStep (codeStep σ (.tq s)).1 .commit = codeStep σ .commit := by
  rw [failed_stmt_no_effect σ (.tq s) h]

/-- rolling back discards everything staged -/
theorem rollback_discards (σ : State) (ps : List Prim) (h : σ.staged = some ps) :
    (codeStep σ .rollback).1 = ⟨σ.committed, σ.allocated, none⟩ := by
  simp [codeStep_def, step, h]

/-! ### non-vacuity: the former witnesses, on the repaired code -/

def witness : List Op := [.begin, .tq (.create 0 [(1, .t), (2, .t), (3, .one)] true), .commit]
def witnessSet : List Op :=
  [.auto (.create 0 [(1, .t), (2, .x), (3, .one), (4, .f)] false), .begin, .tq (.setp 0), .commit]

example : (codeStep (codeRun State.init [.begin]) (.tq (.create 0 [(1, .t), (2, .t), (3, .one)] true))).2 = .err := by
  decide
example : (codeRun State.init witness).committed = [] := by decide
example : (codeRun State.init witnessSet).committed.map (·.p) = [none, none, none, none] := by decide

/-! ### the pinned tree (before the fix): `ndb_txn_query` ran the statement on the caller's transaction and
    returned the error as is — replayed by corpus/capi/*.ops -/

/-- `UNWIND [[1,true],[2,true],[3,1]] AS r CREATE (:A {k: r[0], q: r[1], p: toBoolean(r[1])})` fails at its third
    row; the later commit persisted three `:A` nodes (the node of the failing row is staged before its property
    expression is checked). -/
theorem counterexample_create :
    (legacyRun State.init witness).committed.length = 3 ∧ (atomicRun State.init witness).committed = [] := by decide

/-- `MATCH (n:A) SET n.p = toBoolean(n.q)` over `q = true, 'x', 1, false` failed at the third node after the first
    two had been updated. -/
theorem counterexample_set :
    (legacyRun State.init witnessSet).committed.map (·.p) = [some true, none, none, none] ∧
      (atomicRun State.init witnessSet).committed.map (·.p) = [none, none, none, none] ∧
      anyPartialEffect State.init witnessSet = true := by decide

/-- what did hold there: histories without a statement failing after it had staged something -/
theorem pinned_tree_partial (σ : State) (ops : List Op) (htrig : anyPartialEffect σ ops = false) :
    legacyRun σ ops = atomicRun σ ops :=
  atomic_run_eq false ops σ (fun pre s post hsplit ps hst => by
    have := anyPartialEffect_false ops σ htrig pre s post hsplit ps hst
    simpa using this)

theorem pinned_tree_violates : ¬ (∀ (σ : State) (ops : List Op), legacyRun σ ops = atomicRun σ ops) := fun h => by
  have := h State.init witness
  exact absurd this (by decide)


/-! ### the savepoint mechanism: "restore the staged state as of the savepoint"

  `step true _` above models `rollback_to` as exactly that.  Two mechanisms implement it: keeping a copy (what
  `WriteTxn::savepoint` does today — regenerated), or an undo journal of previous slot contents replayed
  newest-first.  They are the same function for every sequence of writes, however often a slot is written;
  replaying the journal oldest-first is not. -/

section Mechanism
open Nervus.Savepoint

/-- what the source does today (regenerated; the recogniser rejects a journal that is not replayed newest-first) -/
theorem savepoint_mechanism_is_sound :
    Generated.txnSavepointMechanism = "clone" ∨ Generated.txnSavepointMechanism = "journalNewestFirst" := by decide

/-- **any correct undo is the clone restore**: for every staged state at the savepoint and every sequence of writes
    the failed statement made (same slot any number of times), replaying the journal of previous contents
    newest-first gives back exactly the state the clone-based savepoint restores. -/
theorem journal_undo_equals_clone_restore (saved : Store) (ws : Writes) :
    undoNewestFirst (applyWrites saved ws) (journal saved ws) = restoreClone saved (applyWrites saved ws) :=
  undo_newest_first_restores ws saved

/-- **counterexample (the shape of seeded fault C13-seed2)**: a statement writes slot 1 twice (5, then 7) and fails;
    replaying the journal oldest-first leaves the statement's FIRST write (5) in the slot instead of the content at
    the savepoint (nothing). -/
theorem counterexample_oldest_first_replay :
    let saved : Store := fun _ => none
    let ws : Writes := [(1, some 5), (1, some 7)]
    undoOldestFirst (applyWrites saved ws) (journal saved ws) 1 = some 5 ∧
      undoNewestFirst (applyWrites saved ws) (journal saved ws) 1 = none := by
  decide

/-- oldest-first is only right when no slot is written twice (one write: both orders coincide) -/
example (saved : Store) (s : Nat) (v : Option Nat) :
    undoOldestFirst (applyWrites saved [(s, v)]) (journal saved [(s, v)]) = saved :=
  undo_newest_first_restores [(s, v)] saved

end Mechanism

end Nervus.Props.C13
