/-
  C13 — A failed statement has no effect.
  Statements only (helper lemmas: Nervus.Proofs.Txn).  Model: Nervus.Model.Txn (`codeStep` = the C API's
  execute_write_count / execute_write_in_txn / ndb_txn_commit / ndb_txn_rollback over the row-by-row staging of the
  write executors).  Reference: Nervus.Spec.TxnSem.atomicStep — the same semantics except that a failed statement
  of an explicit transaction leaves the staged writes as they were.
-/
import Nervus.Proofs.Txn
namespace Nervus.Props.C13
open Nervus.Txn Nervus.Spec.TxnSem

/-- **C13 at full strength**: whatever the history, wherever a statement fails (auto-commit or inside an explicit
    transaction that is committed later), the database evolves as if the failed statements had not been issued. -/
def C13_full : Prop := ∀ (σ : State) (ops : List Op), codeRun σ ops = atomicRun σ ops

/-- one-step form of the same demand: a statement that returns an error leaves the whole state (committed graph,
    id counter, staged writes) untouched -/
def failed_stmt_no_effect_full : Prop :=
  ∀ (σ : State) (op : Op), (codeStep σ op).2 = .err → (codeStep σ op).1 = σ

/-- **auto-commit**: the statement's private transaction is dropped on error — holds for every state and statement. -/
theorem failed_stmt_no_effect_autocommit (σ : State) (s : Stmt) (h : (codeStep σ (.auto s)).2 = .err) :
    (codeStep σ (.auto s)).1 = σ := by
  rw [codeStep_def] at h ⊢
  simp only [step] at h ⊢
  cases hst : σ.staged with
  | some ps => simp [hst] at h
  | none =>
    simp only [hst] at h ⊢
    split
    · rfl
    · rename_i hf; simp [hf] at h

/-- **explicit transaction, one step**: a statement that fails *before it has staged anything* (syntax error, refused
    by the write classifier, error on the first evaluated row of a SET) leaves the staged writes as they were. -/
theorem failed_stmt_no_effect (σ : State) (s : Stmt) (htrig : partialEffect σ s = false)
    (h : (codeStep σ (.tq s)).2 = .err) : (codeStep σ (.tq s)).1 = σ := by
  have heq : codeStep σ (.tq s) = atomicStep σ (.tq s) := by
    rw [codeStep_def]
    exact step_atomic_eq false σ (.tq s) (fun s' hs ps hst => by cases hs; exact partialEffect_false_iff σ s ps hst htrig)
  rw [heq] at h ⊢
  obtain ⟨c, a, st⟩ := σ
  simp only [atomicStep, step] at h ⊢
  cases st with
  | none => simp at h
  | some ps =>
    simp only [Bool.false_eq_true, if_false, if_true] at h ⊢
    split
    · rfl
    · rename_i hf; simp [hf] at h

/-- **C13_partial**: for every history in which no statement of an explicit transaction fails after staging
    (trigger `anyPartialEffect`, decidable on the history), the code behaves as if failed statements had not been
    issued — by induction over the history. -/
theorem C13_partial (σ : State) (ops : List Op) (htrig : anyPartialEffect σ ops = false) :
    codeRun σ ops = atomicRun σ ops := by
  rw [codeRun_def]
  exact atomic_run_eq false ops σ (fun pre s post hsplit ps hst => by
    have := anyPartialEffect_false ops σ htrig pre s post hsplit ps (by rw [codeRun_def]; exact hst)
    rw [codeRun_def] at this
    simpa using this)

/-- rolling the transaction back discards the partial effects (the defect needs a later commit) -/
theorem rollback_discards (σ : State) (ps : List Prim) (h : σ.staged = some ps) :
    (codeStep σ .rollback).1 = ⟨σ.committed, σ.allocated, none⟩ := by
  simp [codeStep_def, step, h]

/-! ### non-vacuity -/

/-- a history with failing statements (refused, and a SET whose first row fails) that meets `C13_partial` -/
def okHistory : List Op :=
  [.auto (.create 0 [(1, .one), (2, .t)] false), .begin, .tq .refused, .tq (.setp 0), .tq (.create 1 [(3, .f)] true),
   .commit, .auto (.create 0 [(4, .one)] true)]

example : anyPartialEffect State.init okHistory = false := by decide
example : (codeRun State.init okHistory).committed =
    [⟨0, 0, 1, some .one, none⟩, ⟨1, 0, 2, some .t, none⟩, ⟨2, 1, 3, some .f, some false⟩] := by decide
example : (codeStep (codeRun State.init (okHistory.take 3)) (.tq (.setp 0))).2 = .err := by decide

/-! ### the defect (known finding C13-explicit-txn-partial-effects), replayed by corpus/capi/*.ops -/

/-- `UNWIND [[1,true],[2,true],[3,1]] AS r CREATE (:A {k: r[0], q: r[1], p: toBoolean(r[1])})` fails at its third
    row inside an explicit transaction; the later commit persists three `:A` nodes (the node of the failing row is
    staged before its property expression is checked). -/
def witness : List Op := [.begin, .tq (.create 0 [(1, .t), (2, .t), (3, .one)] true), .commit]

theorem counterexample_create :
    (codeStep (codeRun State.init [.begin]) (.tq (.create 0 [(1, .t), (2, .t), (3, .one)] true))).2 = .err ∧
      (codeRun State.init witness).committed.length = 3 ∧ (atomicRun State.init witness).committed = [] := by decide

/-- the same with an update: `MATCH (n:A) SET n.p = toBoolean(n.q)` over `q = true, 'x', 1, false` fails at the
    third node after the first two have been updated. -/
def witnessSet : List Op :=
  [.auto (.create 0 [(1, .t), (2, .x), (3, .one), (4, .f)] false), .begin, .tq (.setp 0), .commit]

theorem counterexample_set :
    (codeRun State.init witnessSet).committed.map (·.p) = [some true, none, none, none] ∧
      (atomicRun State.init witnessSet).committed.map (·.p) = [none, none, none, none] ∧
      anyPartialEffect State.init witnessSet = true := by decide

theorem C13_full_false : ¬ C13_full := fun h => by
  have := h State.init witness
  exact absurd this (by decide)

theorem failed_stmt_no_effect_full_false : ¬ failed_stmt_no_effect_full := fun h => by
  have := h (codeRun State.init [.begin]) (.tq (.create 0 [(1, .t), (2, .t), (3, .one)] true)) (by decide)
  exact absurd this (by decide)

end Nervus.Props.C13
