/-
  C12 — Cypher updates match reference semantics.
  Statements only (helper lemmas live in Nervus.Proofs.CypherUpdate).
  Spec: Nervus.Spec.UpdateSem (`Spec.apply : Graph → Stmt → Except Err (Graph × Counts)`).
  Model: Nervus.Model.QUpdate (`Update.step`: plan stages, snapshot reads, row overlays, merge overlay, the list
  of WriteableGraph calls applied at commit).  Parametric in the value algebra `A` and the parameters.

  Status: PARTIAL.  `C12_full` is false on the pinned tree (counterexample theorems below, replayed on the real
  engine through corpus/update/*.ops).  Proved: MERGE idempotence (reference semantics; model, single-node
  pattern); the multi-row induction `update_refines_rows` (a per-row simulation between a write stage and an
  update clause lifts to every driving table); its instances for all tables: SET x.k = e on nodes (storable
  non-null values, no further condition), SET x:L… on nodes (no node targeted by two rows — the condition the
  known finding C12-writes-decided-against-snapshot drops), CREATE of a fresh node per row (consecutive ids).
-/
import Nervus.Proofs.CypherUpdate
import Nervus.Proofs.CypherUpdateRows
import Nervus.Proofs.CypherLastWins
import Nervus.Model.QAlgebra
namespace Nervus.Props.C12
open Nervus Nervus.Cy

/-- **C12 at full strength**: for every statement of the fragment, committing what the modelled engine writes
    yields the graph of the reference semantics, and the reported count is the reference total. -/
def C12_full : Prop :=
  ∀ (A : Algebra) (params : List (String × Val)) (g : Graph) (next : Nat) (names : List String) (s : Stmt),
    g.NodesDistinct → (∀ n ∈ g.nodes, n.id < next) →
    UAgrees (Update.step A params g next names s) (Spec.apply A params g next s)

/-- the restriction that is claimed: no known finding is triggered -/
def C12_partial_statement : Prop :=
  ∀ (A : Algebra) (params : List (String × Val)) (g : Graph) (next : Nat) (names : List String) (s : Stmt),
    g.NodesDistinct → (∀ n ∈ g.nodes, n.id < next) → NoKnownUTrigger A params g names s = true →
    UAgrees (Update.step A params g next names s) (Spec.apply A params g next s)

/-! ### proved obligations -/

/-- **merge_idempotent** (reference semantics): if the pattern of a MERGE has a match, the statement changes
    nothing and reports zero counts — in particular the second of two identical MERGE statements. -/
theorem merge_idempotent (A : Algebra) (params : List (String × Val)) (g : Graph) (next : Nat) (pat : PathPat)
    (onC : List SetItem) (h : Spec.matches_ A { g, params } [] [pat] ≠ []) :
    Spec.apply A params g next ⟨[], [.merge pat onC []]⟩ = .ok (g, next, {}) :=
  merge_idempotent_spec A params g next pat onC h

/-- **merge_idempotent** (modelled engine, single-node pattern): when candidates exist, MERGE issues no
    WriteableGraph call, counts nothing, consumes no node id, and returns one row per candidate. -/
theorem merge_idempotent_model (A : Algebra) (params : List (String × Val)) (g : Graph) (next : Nat)
    (np : NodePat) (onC : List SetItem) (s : Update.St) (u : Update.URow) (props : Props)
    (hp : Update.mergeProps A params g u np.props = .ok props)
    (hunbound : np.var.bind (Update.rowNode u.row) = none)
    (hc : Update.findCandidates g s np.labels props ≠ []) :
    ∃ rows, Update.mergeRow A params g next ⟨np, []⟩ onC [] s u = .ok (s, rows) ∧
      rows.length = (Update.findCandidates g s np.labels props).length :=
  mergeRow_model_matched A params g next np onC s u props hp hunbound hc

/-- **update_refines** (SET x.k = e on a node, storable non-null value, one row): one `set_node_property` call,
    count 1; committed, it is the graph and the count of the reference semantics. -/
theorem update_refines_set_prop (A : Algebra) (params : List (String × Val)) (g : Graph) (hg : g.NodesDistinct)
    (next : Nat) (r : Row) (x k : String) (e : Expr) (n : Nat) (pv : Scalar)
    (hx : r.get x = some (.node n)) (hv : Update.toProp (eval A { g, params } r e) = .ok pv) (hnn : pv ≠ .null) :
    (∃ u', Update.setPropertyRow A params g [(x, k, e)] {} ⟨r, []⟩ =
        .ok ({ ops := [.setNodeProp n k pv], count := 1 }, u')) ∧
    Spec.setItem A params g r { g, next } (.prop x k e) =
      .ok { g := Update.applyOp g (.setNodeProp n k pv), next, c := { propsSet := 1 } } :=
  Nervus.Cy.update_refines_set_prop A params g hg next r x k e n pv hx hv hnn

/-- **update_refines, the multi-row induction**: the simulation relation between the model's state (calls issued
    so far, reported count) and the reference's (current graph, counters) is any `R`; if one row of the model stage
    and one row of the reference clause preserve it — the relation may mention the rows already processed — then
    the whole stage and the whole clause over any table `T` do, and the reference keeps the rows. -/
theorem update_refines_rows (fm : Update.St → Update.URow → Except Err (Update.St × Update.URow))
    (fs : Spec.St → Row → Except Err Spec.St) (R : List Update.URow → Update.St → Spec.St → Prop)
    (T : List Update.URow)
    (hstep : ∀ pre u post, T = pre ++ u :: post → ∀ m sp, R pre m sp →
      ∃ m' u' sp', fm m u = .ok (m', u') ∧ fs sp u.row = .ok sp' ∧ R (pre ++ [u]) m' sp')
    (m : Update.St) (sp : Spec.St) (h0 : R [] m sp) :
    ∃ m' T' sp',
      T.foldlM (fun (a : Update.St × List Update.URow) u => do
        let x ← fm a.1 u
        pure (x.1, a.2 ++ [x.2])) (m, []) = .ok (m', T') ∧
      (T.map (·.row)).foldlM (fun (acc : Spec.St × Table) r => do
        let (s, rs) ← (do pure (← fs acc.1 r, [r]) : Except Err (Spec.St × Table))
        pure (s, acc.2 ++ rs)) (sp, []) = .ok (sp', [] ++ T.map (·.row)) ∧
      R T m' sp' :=
  rows_simulation_prefix fm fs R T hstep T [] (by simp) m sp [] [] h0

/-- node-only form of `update_refines_set_prop_rows` (kept for reference) -/
theorem update_refines_set_prop_rows_nodes (A : Algebra) (params : List (String × Val)) (g : Graph)
    (hg : g.NodesDistinct) (next : Nat) (names : List String) (w : Update.WPlan) (x k : String) (e : Expr)
    (T : Table)
    (hT : ∀ r ∈ T, ∃ n pv, r.get x = some (.node n) ∧ Update.toProp (eval A { g, params } r e) = .ok pv ∧
      pv ≠ .null) :
    ∃ m T' sp, Update.runStage A params g next names w {} (T.map fun r => { row := r }) (.setProperty [(x, k, e)]) =
        .ok (m, T') ∧
      Spec.applyClause A params { g, next } T (.set [.prop x k e]) = .ok (sp, T) ∧
      USim g next m sp :=
  Nervus.Cy.update_refines_set_prop_rows A params g hg next names w x k e T hT

/-! ### the last assignment wins (the class of seeded/C12-seed1: a write elided against the snapshot) -/

/-- **update_refines (SET x.k = e, every table)** — no "distinct target", no "value differs" proviso: for every
    driving table whose rows bind `x` to a node or a relationship and give `e` a storable non-null value — the same
    (entity, key) as often as the table likes, with values that may come back to the stored one — the SetProperty
    stage issues exactly one `set_*_property` call per row, in row order (`m.ops = T.filterMap assignOf`: the staged
    write log is the list of calls actually issued, nothing is elided); committing that log to the snapshot yields
    exactly the graph of the reference SET clause, with the same count. -/
theorem update_refines_set_prop_rows (A : Algebra) (params : List (String × Val)) (g : Graph)
    (hg : g.NodesDistinct) (hgr : g.rels.Pairwise fun a b => a.id ≠ b.id) (next : Nat) (names : List String)
    (w : Update.WPlan) (x k : String) (e : Expr) (T : Table)
    (hT : ∀ r ∈ T, ∃ pv, Update.toProp (eval A { g, params } r e) = .ok pv ∧ pv ≠ .null ∧
      ((∃ n, r.get x = some (.node n)) ∨ (∃ ed, r.get x = some (.rel ed)))) :
    ∃ m T' sp, Update.runStage A params g next names w {} (T.map fun r => { row := r }) (.setProperty [(x, k, e)]) =
        .ok (m, T') ∧
      Spec.applyClause A params { g, next } T (.set [.prop x k e]) = .ok (sp, T) ∧
      USimR g next m sp ∧ m.ops = T.filterMap (assignOf A params g x k e) :=
  update_refines_set_prop_rows_log A params g hg hgr next names w x k e T hT

/-- **the last assignment wins** (commit contract): after committing a log of `set_*_property` calls, every
    (node, key) holds the value of the last call naming it — else its previous value; same for relationships -/
theorem last_assignment_wins (ops : List Update.TxOp) (hops : ∀ op ∈ ops, isSet op = true) (g : Graph) :
    (∀ n k, (g.node? n).isSome = true →
      nodeVal (Update.applyOps g ops) n k = (lastNodeSet ops n k).or (nodeVal g n k)) ∧
    (∀ r k, (g.rel? r).isSome = true →
      relVal (Update.applyOps g ops) r k = (lastRelSet ops r k).or (relVal g r k)) :=
  ⟨fun n k hn => (last_assignment_wins_node ops hops g n k hn).1,
   fun r k hr => (last_assignment_wins_rel ops hops g r k hr).1⟩

/-- … end to end: what the reference graph (= the committed model graph) holds after `SET x.k = e` over any table -/
theorem update_refines_set_prop_last_wins (A : Algebra) (params : List (String × Val)) (g : Graph)
    (hg : g.NodesDistinct) (hgr : g.rels.Pairwise fun a b => a.id ≠ b.id) (next : Nat) (x k : String) (e : Expr)
    (T : Table)
    (hT : ∀ r ∈ T, ∃ pv, Update.toProp (eval A { g, params } r e) = .ok pv ∧ pv ≠ .null ∧
      ((∃ n, r.get x = some (.node n)) ∨ (∃ ed, r.get x = some (.rel ed)))) :
    ∃ sp, Spec.applyClause A params { g, next } T (.set [.prop x k e]) = .ok (sp, T) ∧
      (∀ n k', (g.node? n).isSome = true →
        nodeVal sp.g n k' = (lastNodeSet (T.filterMap (assignOf A params g x k e)) n k').or (nodeVal g n k')) ∧
      (∀ r k', (g.rel? r).isSome = true →
        relVal sp.g r k' = (lastRelSet (T.filterMap (assignOf A params g x k e)) r k').or (relVal g r k')) :=
  set_prop_rows_last_wins A params g hg hgr next x k e T hT

/-- **write elision is sound only against `committed ⊕ staged so far`**: leaving `set_node_property(n, k, v)` out of
    the log is unobservable when `v` is the value visible for (n, k) after the calls issued BEFORE it … -/
theorem write_elision_sound (g : Graph) (pre post : List Update.TxOp) (hpre : ∀ op ∈ pre, isSet op = true)
    (hpost : ∀ op ∈ post, isSet op = true) (n : Nat) (k : String) (v : Scalar)
    (hvis : nodeVal (Update.applyOps g pre) n k = some v) (n' : Nat) (k' : String)
    (hn' : (g.node? n').isSome = true) :
    nodeVal (Update.applyOps g (pre ++ [.setNodeProp n k v] ++ post)) n' k' =
      nodeVal (Update.applyOps g (pre ++ post)) n' k' :=
  elide_sound_node g pre post hpre hpost n k v hvis n' k' hn'

/-- … and observable whenever the visible value differs and no later call assigns (n, k) again — so a comparison
    with the pre-statement snapshot (`nodeVal g n k = some v`) does not justify the elision once an earlier call of
    the same log has changed (n, k) -/
theorem write_elision_unsound (g : Graph) (pre post : List Update.TxOp) (hpre : ∀ op ∈ pre, isSet op = true)
    (hpost : ∀ op ∈ post, isSet op = true) (n : Nat) (k : String) (v : Scalar)
    (hn : (g.node? n).isSome = true)
    (hvis : nodeVal (Update.applyOps g pre) n k ≠ some v) (hlast : lastNodeSet post n k = none) :
    nodeVal (Update.applyOps g (pre ++ [.setNodeProp n k v] ++ post)) n k = some v ∧
    nodeVal (Update.applyOps g (pre ++ post)) n k ≠ some v :=
  elide_unsound_node g pre post hpre hpost n k v hn hvis hlast

/-- **update_refines (SET x:L1:L2…, every table in which no node is targeted by two rows)** -/
theorem update_refines_set_labels_rows (A : Algebra) (params : List (String × Val)) (g : Graph)
    (hg : g.NodesDistinct) (next : Nat) (names : List String) (w : Update.WPlan) (x : String) (ls : List String)
    (hls : ls.Nodup) (T : Table) (hT : ∀ r ∈ T, ∃ n, r.get x = some (.node n))
    (hdist : (targetsOf x (T.map fun r => { row := r })).Nodup) :
    ∃ m T' sp, Update.runStage A params g next names w {} (T.map fun r => { row := r }) (.setLabels [(x, ls)]) =
        .ok (m, T') ∧
      Spec.applyClause A params { g, next } T (.set [.labels x ls]) = .ok (sp, T) ∧
      USim g next m sp :=
  Nervus.Cy.update_refines_set_labels_rows A params g hg next names w x ls hls T hT hdist

/-- **update_refines (REMOVE x.k, every table in which no node is targeted by two rows)**: the model counts a removal
    when the SNAPSHOT has the property, the reference when the CURRENT graph has it -/
theorem update_refines_remove_prop_rows (A : Algebra) (params : List (String × Val)) (g : Graph)
    (hg : g.NodesDistinct) (next : Nat) (names : List String) (w : Update.WPlan) (x k : String) (T : Table)
    (hT : ∀ r ∈ T, ∃ n, r.get x = some (.node n))
    (hdist : (targetsOf x (T.map fun r => { row := r })).Nodup) :
    ∃ m T' sp, Update.runStage A params g next names w {} (T.map fun r => { row := r }) (.removeProperty [(x, k)]) =
        .ok (m, T') ∧
      Spec.applyClause A params { g, next } T (.remove [.prop x k]) = .ok (sp, T) ∧
      USim g next m sp :=
  Nervus.Cy.update_refines_remove_prop_rows A params g hg next names w x k T hT hdist

/-- **update_refines (SET x.k = e where e is null on every row — a removal; distinct targets)** -/
theorem update_refines_set_null_rows (A : Algebra) (params : List (String × Val)) (g : Graph)
    (hg : g.NodesDistinct) (next : Nat) (names : List String) (w : Update.WPlan) (x k : String) (e : Expr) (T : Table)
    (hT : ∀ r ∈ T, (∃ n, r.get x = some (.node n)) ∧ eval A { g, params } r e = .null)
    (hdist : (targetsOf x (T.map fun r => { row := r })).Nodup) :
    ∃ m T' sp, Update.runStage A params g next names w {} (T.map fun r => { row := r }) (.setProperty [(x, k, e)]) =
        .ok (m, T') ∧
      Spec.applyClause A params { g, next } T (.set [.prop x k e]) = .ok (sp, T) ∧
      USim g next m sp :=
  Nervus.Cy.update_refines_set_null_rows A params g hg next names w x k e T hT hdist

/-- **update_refines (CREATE (x:L…), every table)**: one `create_node` per row with the consecutive ids `next`,
    `next + 1`, …; `next` is above every node id of the snapshot, the rows do not bind `x` -/
theorem update_refines_create_node_rows (A : Algebra) (params : List (String × Val)) (g : Graph)
    (hg : g.NodesDistinct) (next : Nat) (hnext : ∀ nd ∈ g.nodes, nd.id < next) (names : List String)
    (w : Update.WPlan) (var : Option String) (ls : List String) (T : Table)
    (hT : ∀ r ∈ T, ∀ x, var = some x → r.get x = none) :
    ∃ m T' sp outS, Update.runStage A params g next names w {} (T.map fun r => { row := r })
        (.create ⟨⟨var, ls, []⟩, []⟩ false) = .ok (m, T') ∧
      Spec.applyClause A params { g, next } T (.create [⟨⟨var, ls, []⟩, []⟩]) = .ok (sp, outS) ∧
      USim g next m sp :=
  Nervus.Cy.update_refines_create_node_rows A params g hg next hnext names w var ls T hT

/-- the commit of a property removal is the reference removal -/
theorem update_refines_remove_graph (g : Graph) (hg : g.NodesDistinct) (n : Nat) (k : String) :
    Update.applyOp g (.removeNodeProp n k) =
      Spec.setProps g (.node n) (Spec.delKey (Spec.propsOf g (.node n)) k) :=
  remove_prop_graph_eq g hg n k

/-! ### non-vacuity -/

/-- (0:A {k:1}), (1:B), (0)-[:T]->(1) -/
def g1 : Graph := ⟨[⟨0, ["A"], [("k", .int 1)]⟩, ⟨1, ["B"], []⟩], [⟨⟨0, "T", 1⟩, 1, []⟩]⟩

def mergeA : Stmt := ⟨[], [.merge ⟨⟨some "m", ["A"], [("k", .lit (.int 1))]⟩, []⟩ [] []]⟩

example : Spec.matches_ small { g := g1 } [] [⟨⟨some "m", ["A"], [("k", .lit (.int 1))]⟩, []⟩] ≠ [] := by decide
example : UAgrees (Update.step small [] g1 2 ["A", "B", "T"] mergeA) (Spec.apply small [] g1 2 mergeA) := by decide

/-- `MATCH (n:A) SET n.k = 5` and `CREATE (c:B {k: 2})` agree with the reference -/
def setK : Stmt := ⟨[.match_ false [⟨⟨some "n", ["A"], []⟩, []⟩]], [.set [.prop "n" "k" (.lit (.int 5))]]⟩
def createB : Stmt := ⟨[], [.create [⟨⟨some "c", ["B"], [("k", .lit (.int 2))]⟩, []⟩]]⟩

example : NoKnownUTrigger small [] g1 ["A", "B", "T"] setK = true := by decide
example : UAgrees (Update.step small [] g1 2 ["A", "B", "T"] setK) (Spec.apply small [] g1 2 setK) := by decide
example : UAgrees (Update.step small [] g1 2 ["A", "B", "T"] createB) (Spec.apply small [] g1 2 createB) := by decide

/-- the hypotheses of the all-rows theorems are satisfiable: two rows targeting the two nodes of `g1` -/
example : (targetsOf "n" ([[("n", Val.node 0)], [("n", Val.node 1)]].map fun r => ({ row := r } : Update.URow))).Nodup := by
  decide
example : USim g1 2 {} { g := g1, next := 2 } := USim.init g1 (by decide) 2

/-- the seed's scenario: `v` = 0 stored, `UNWIND [5, 0] AS x MATCH (n:P) SET n.v = x` — model and reference agree,
    the node ends with v = 0, and no finding is triggered (a repeated plain assignment is outside every trigger) -/
def gP : Graph := ⟨[⟨0, ["P"], [("v", .int 0)]⟩], [⟨⟨0, "T", 0⟩, 1, [("w", .int 7)]⟩]⟩
def sBackToStored : Stmt :=
  ⟨[.unwind (.listLit [.int 5, .int 0]) "x", .match_ false [⟨⟨some "n", ["P"], []⟩, []⟩]],
   [.set [.prop "n" "v" (.var "x")]]⟩
def sTwoItems : Stmt :=
  ⟨[.match_ false [⟨⟨some "n", ["P"], []⟩, []⟩]], [.set [.prop "n" "v" (.lit (.int 2)), .prop "n" "v" (.lit (.int 0))]]⟩
def sRelBack : Stmt :=
  ⟨[.unwind (.listLit [.int 8, .int 7]) "x",
    .match_ false [⟨⟨some "a", [], []⟩, [(⟨some "r", ["T"], .out, []⟩, ⟨some "b", [], []⟩)]⟩]],
   [.set [.prop "r" "w" (.var "x")]]⟩

example : NoKnownUTrigger small [] gP ["P", "T"] sBackToStored = true ∧ NoKnownUTrigger small [] gP ["P", "T"] sTwoItems = true
    ∧ NoKnownUTrigger small [] gP ["P", "T"] sRelBack = true := by decide
example : UAgrees (Update.step small [] gP 1 ["P", "T"] sBackToStored) (Spec.apply small [] gP 1 sBackToStored) := by decide
example : UAgrees (Update.step small [] gP 1 ["P", "T"] sTwoItems) (Spec.apply small [] gP 1 sTwoItems) := by decide
example : UAgrees (Update.step small [] gP 1 ["P", "T"] sRelBack) (Spec.apply small [] gP 1 sRelBack) := by decide
example : (Update.step small [] gP 1 ["P", "T"] sBackToStored).toOption.map (fun r => nodeVal r.1 0 "v") =
    some (some (.int 0)) := by decide
/-- the log the model issues for it holds BOTH calls (nothing elided) -/
example : (Update.runStmt small [] gP 1 ["P", "T"] sBackToStored).toOption.map (·.1) =
    some [.setNodeProp 0 "v" (.int 5), .setNodeProp 0 "v" (.int 0)] := by decide
/-- what the seeded engine does (drop the second call because 0 is the SNAPSHOT value) changes the result -/
example : nodeVal (Update.applyOps gP [.setNodeProp 0 "v" (.int 5)]) 0 "v" = some (.int 5) ∧
    nodeVal (Update.applyOps gP [.setNodeProp 0 "v" (.int 5), .setNodeProp 0 "v" (.int 0)]) 0 "v" = some (.int 0) := by
  decide
/-- two statements in one transaction against one snapshot: the staged log is the concatenation, the last wins -/
example : (Update.stepTxn small [] gP 1 ["P", "T"]
      [⟨[.match_ false [⟨⟨some "n", ["P"], []⟩, []⟩]], [.set [.prop "n" "v" (.lit (.int 5))]]⟩,
       ⟨[.match_ false [⟨⟨some "n", ["P"], []⟩, []⟩]], [.set [.prop "n" "v" (.lit (.int 0))]]⟩]).toOption.map
      (fun r => (nodeVal r.1 0 "v", r.2.2.1)) = some (some (.int 0), [1, 1]) := by decide

/-! ### counterexamples: `C12_full` is false of the model (and of the engine: corpus/update/*.ops) -/

/-- ON MATCH SET writes are not counted: `MERGE (m:A) ON MATCH SET m.j = 9` reports 0 (a repair was tried and
    withdrawn: tests/t323_merge_semantics.rs pins MERGE's count as the number of entities created) -/
def sMergeSet : Stmt :=
  ⟨[], [.merge ⟨⟨some "m", ["A"], []⟩, []⟩ [] [.prop "m" "j" (.lit (.int 9))]]⟩

theorem counterexample_merge_set_not_counted :
    ¬ UAgrees (Update.step small [] g1 2 ["A", "B", "T"] sMergeSet) (Spec.apply small [] g1 2 sMergeSet) := by
  decide

/-- a variable bound to null is taken for unbound: `MATCH (a) OPTIONAL MATCH (a)-[r]->(b) CREATE (a)-[:T]->(b)`
    over a single node creates a second node instead of failing -/
def gOne : Graph := ⟨[⟨0, [], []⟩], []⟩

def sNullBound : Stmt :=
  ⟨[.match_ false [⟨⟨some "a", [], []⟩, []⟩],
    .match_ true [⟨⟨some "a", [], []⟩, [(⟨some "r", [], .out, []⟩, ⟨some "b", [], []⟩)]⟩]],
   [.create [⟨⟨some "a", [], []⟩, [(⟨none, ["T"], .out, []⟩, ⟨some "b", [], []⟩)]⟩]]⟩

theorem counterexample_null_bound_variable :
    ¬ UAgrees (Update.step small [] gOne 1 [] sNullBound) (Spec.apply small [] gOne 1 sNullBound) := by
  decide

/-- counts are computed against the statement-start snapshot: `MATCH (a:A), (b:B) REMOVE a.k` over two B nodes
    counts the one removal twice -/
def gAB : Graph := ⟨[⟨0, ["A"], [("k", .int 1)]⟩, ⟨1, ["B"], []⟩, ⟨2, ["B"], []⟩], []⟩

def sRemoveTwice : Stmt :=
  ⟨[.match_ false [⟨⟨some "a", ["A"], []⟩, []⟩, ⟨⟨some "b", ["B"], []⟩, []⟩]], [.remove [.prop "a" "k"]]⟩

theorem counterexample_writes_against_snapshot :
    ¬ UAgrees (Update.step small [] gAB 3 ["A", "B"] sRemoveTwice) (Spec.apply small [] gAB 3 sRemoveTwice) := by
  decide

/-- formerly a counterexample (`MATCH (a) SET a:A` on a node that already has :A reported 1 change), repaired by
    fix a3c5bfb -/
def gA : Graph := ⟨[⟨0, ["A"], []⟩], []⟩
def sLabelAgain : Stmt := ⟨[.match_ false [⟨⟨some "a", [], []⟩, []⟩]], [.set [.labels "a" ["A"]]]⟩

example : UAgrees (Update.step small [] gA 1 ["A"] sLabelAgain) (Spec.apply small [] gA 1 sLabelAgain) := by
  decide

/-- relationship MERGE with unbound ends re-uses existing nodes: `MERGE (a:A)-[m:T]->(b:B)` over an unconnected
    :A and :B node only creates the relationship (reference: the whole pattern) -/
def gTwo : Graph := ⟨[⟨0, ["A"], []⟩, ⟨1, ["B"], []⟩], []⟩
def sMergeRel : Stmt :=
  ⟨[], [.merge ⟨⟨some "a", ["A"], []⟩, [(⟨some "m", ["T"], .out, []⟩, ⟨some "b", ["B"], []⟩)]⟩ [] []]⟩

theorem counterexample_merge_partial :
    ¬ UAgrees (Update.step small [] gTwo 2 ["A", "B"] sMergeRel) (Spec.apply small [] gTwo 2 sMergeRel) := by
  decide

/-- the merge overlay is not updated by ON CREATE SET: `UNWIND [1,2] AS x MERGE (m:A {k: 1}) ON CREATE SET m.k = 2`
    creates one node, the reference two -/
def sMergeStale : Stmt :=
  ⟨[.unwind (.listLit [.int 1, .int 2]) "x"],
   [.merge ⟨⟨some "m", ["A"], [("k", .lit (.int 1))]⟩, []⟩ [.prop "m" "k" (.lit (.int 2))] []]⟩

theorem counterexample_merge_stale_overlay :
    ¬ UAgrees (Update.step small [] ⟨[], []⟩ 0 [] sMergeStale) (Spec.apply small [] ⟨[], []⟩ 0 sMergeStale) := by
  decide

/-- formerly a counterexample (property items of a SET clause ran before its map items:
    `MATCH (a) SET a = {j: 2}, a.k = 1` ended without k), repaired by fix 5723576 -/
def gK : Graph := ⟨[⟨0, ["A"], [("k", .int 5)]⟩], []⟩
def sReordered : Stmt :=
  ⟨[.match_ false [⟨⟨some "a", [], []⟩, []⟩]],
   [.set [.mapReplace "a" [("j", .lit (.int 2))], .prop "a" "k" (.lit (.int 1))]]⟩

example : UAgrees (Update.step small [] gK 1 ["A"] sReordered) (Spec.apply small [] gK 1 sReordered) := by
  decide

/-- what is left of it: the SET subclauses of a MERGE are still flattened into property / map / label lists:
    `MERGE (m:C) ON CREATE SET m = {j: 2}, m.k = 1` ends without k -/
def sMergeReordered : Stmt :=
  ⟨[], [.merge ⟨⟨some "m", ["C"], []⟩, []⟩ [.mapReplace "m" [("j", .lit (.int 2))], .prop "m" "k" (.lit (.int 1))] []]⟩

theorem counterexample_merge_set_items_reordered :
    ¬ UAgrees (Update.step small [] ⟨[], []⟩ 0 [] sMergeReordered) (Spec.apply small [] ⟨[], []⟩ 0 sMergeReordered) := by
  decide

/-- the property map of a deleted relationship identity survives in the store (`mult = 0` record) and is found
    again when the identity is re-created: after `DELETE r` of (0)-[:T {w: 4}]->(1), `CREATE (a)-[:T]->(b)` brings
    w = 4 back (root cause: C06) -/
def gDead : Graph := ⟨[⟨0, ["A"], []⟩, ⟨1, ["B"], []⟩], [⟨⟨0, "T", 1⟩, 0, [("w", .int 4)]⟩]⟩
def sRecreate : Stmt :=
  ⟨[.match_ false [⟨⟨some "a", ["A"], []⟩, []⟩, ⟨⟨some "b", ["B"], []⟩, []⟩]],
   [.create [⟨⟨some "a", [], []⟩, [(⟨none, ["T"], .out, []⟩, ⟨some "b", [], []⟩)]⟩]]⟩

theorem counterexample_deleted_rel_props_resurrect :
    ¬ UAgrees (Update.step small [] gDead 2 ["A", "B", "T"] sRecreate)
      (Spec.apply small [] (Update.live gDead) 2 sRecreate) := by
  decide

/-- hence the full-strength statement fails -/
theorem C12_full_false : ¬ C12_full := by
  intro h
  exact counterexample_writes_against_snapshot (h small [] gAB 3 ["A", "B"] sRemoveTwice (by decide) (by decide))

end Nervus.Props.C12
