/-
  C12 — Cypher updates match reference semantics.
  Statements only (helper lemmas live in Nervus.Proofs.CypherUpdate).
  Spec: Nervus.Spec.UpdateSem (`Spec.apply : Graph → Stmt → Except Err (Graph × Counts)`).
  Model: Nervus.Model.QUpdate (`Update.step`: plan stages, snapshot reads, row overlays, merge overlay, the list
  of WriteableGraph calls applied at commit).  Parametric in the value algebra `A` and the parameters.

  Status: PARTIAL.  `C12_full` is false on the pinned tree (counterexample theorems below, replayed on the real
  engine through corpus/update/*.ops).  Proved: MERGE idempotence (reference semantics; model, single-node
  pattern) and `update_refines` for SET of one property on a node.
-/
import Nervus.Proofs.CypherUpdate
import Nervus.Model.QAlgebra
namespace Nervus.Props.C12
open Nervus Nervus.Cy

/-- **C12 at full strength**: for every statement of the fragment, committing what the modelled engine writes
    yields the graph of the reference semantics, and the reported count is the reference total. -/
def C12_full : Prop :=
  ∀ (A : Algebra) (params : List (String × Val)) (g : Graph) (next : Nat) (names : List String) (s : Stmt),
    g.NodesDistinct → (∀ n ∈ g.nodes, n.id < next) →
    UAgrees (Update.step A params g next names s) (Spec.apply A params g next s)

/-- the restriction that is claimed: no known finding is triggered -/
def C12_partial_statement : Prop :=
  ∀ (A : Algebra) (params : List (String × Val)) (g : Graph) (next : Nat) (names : List String) (s : Stmt),
    g.NodesDistinct → (∀ n ∈ g.nodes, n.id < next) → NoKnownUTrigger A params g names s = true →
    UAgrees (Update.step A params g next names s) (Spec.apply A params g next s)

/-! ### proved obligations -/

/-- **merge_idempotent** (reference semantics): if the pattern of a MERGE has a match, the statement changes
    nothing and reports zero counts — in particular the second of two identical MERGE statements. -/
theorem merge_idempotent (A : Algebra) (params : List (String × Val)) (g : Graph) (next : Nat) (pat : PathPat)
    (onC : List SetItem) (h : Spec.matches_ A { g, params } [] [pat] ≠ []) :
    Spec.apply A params g next ⟨[], [.merge pat onC []]⟩ = .ok (g, next, {}) :=
  merge_idempotent_spec A params g next pat onC h

/-- **merge_idempotent** (modelled engine, single-node pattern): when candidates exist, MERGE issues no
    WriteableGraph call, counts nothing, consumes no node id, and returns one row per candidate. -/
theorem merge_idempotent_model (A : Algebra) (params : List (String × Val)) (g : Graph) (next : Nat)
    (np : NodePat) (onC : List SetItem) (s : Update.St) (u : Update.URow) (props : Props)
    (hp : Update.mergeProps A params g u np.props = .ok props)
    (hunbound : np.var.bind (Update.rowNode u.row) = none)
    (hc : Update.findCandidates g s np.labels props ≠ []) :
    ∃ rows, Update.mergeRow A params g next ⟨np, []⟩ onC [] s u = .ok (s, rows) ∧
      rows.length = (Update.findCandidates g s np.labels props).length :=
  mergeRow_model_matched A params g next np onC s u props hp hunbound hc

/-- **update_refines** (SET x.k = e on a node, storable non-null value, one row): one `set_node_property` call,
    count 1; committed, it is the graph and the count of the reference semantics. -/
theorem update_refines_set_prop (A : Algebra) (params : List (String × Val)) (g : Graph) (hg : g.NodesDistinct)
    (next : Nat) (r : Row) (x k : String) (e : Expr) (n : Nat) (pv : Scalar)
    (hx : r.get x = some (.node n)) (hv : Update.toProp (eval A { g, params } r e) = .ok pv) (hnn : pv ≠ .null) :
    (∃ u', Update.setPropertyRow A params g [(x, k, e)] {} ⟨r, []⟩ =
        .ok ({ ops := [.setNodeProp n k pv], count := 1 }, u')) ∧
    Spec.setItem A params g r { g, next } (.prop x k e) =
      .ok { g := Update.applyOp g (.setNodeProp n k pv), next, c := { propsSet := 1 } } :=
  Nervus.Cy.update_refines_set_prop A params g hg next r x k e n pv hx hv hnn

/-- the commit of a property removal is the reference removal -/
theorem update_refines_remove_graph (g : Graph) (hg : g.NodesDistinct) (n : Nat) (k : String) :
    Update.applyOp g (.removeNodeProp n k) =
      Spec.setProps g (.node n) (Spec.delKey (Spec.propsOf g (.node n)) k) :=
  remove_prop_graph_eq g hg n k

/-! ### non-vacuity -/

/-- (0:A {k:1}), (1:B), (0)-[:T]->(1) -/
def g1 : Graph := ⟨[⟨0, ["A"], [("k", .int 1)]⟩, ⟨1, ["B"], []⟩], [⟨⟨0, "T", 1⟩, 1, []⟩]⟩

def mergeA : Stmt := ⟨[], [.merge ⟨⟨some "m", ["A"], [("k", .lit (.int 1))]⟩, []⟩ [] []]⟩

example : Spec.matches_ small { g := g1 } [] [⟨⟨some "m", ["A"], [("k", .lit (.int 1))]⟩, []⟩] ≠ [] := by decide
example : UAgrees (Update.step small [] g1 2 ["A", "B", "T"] mergeA) (Spec.apply small [] g1 2 mergeA) := by decide

/-- `MATCH (n:A) SET n.k = 5` and `CREATE (c:B {k: 2})` agree with the reference -/
def setK : Stmt := ⟨[.match_ false [⟨⟨some "n", ["A"], []⟩, []⟩]], [.set [.prop "n" "k" (.lit (.int 5))]]⟩
def createB : Stmt := ⟨[], [.create [⟨⟨some "c", ["B"], [("k", .lit (.int 2))]⟩, []⟩]]⟩

example : NoKnownUTrigger small [] g1 ["A", "B", "T"] setK = true := by decide
example : UAgrees (Update.step small [] g1 2 ["A", "B", "T"] setK) (Spec.apply small [] g1 2 setK) := by decide
example : UAgrees (Update.step small [] g1 2 ["A", "B", "T"] createB) (Spec.apply small [] g1 2 createB) := by decide

/-! ### counterexamples: `C12_full` is false of the model (and of the engine: corpus/update/*.ops) -/

/-- ON MATCH SET writes are not counted: `MERGE (m:A) ON MATCH SET m.j = 9` reports 0 -/
def sMergeSet : Stmt :=
  ⟨[], [.merge ⟨⟨some "m", ["A"], []⟩, []⟩ [] [.prop "m" "j" (.lit (.int 9))]]⟩

theorem counterexample_merge_set_not_counted :
    ¬ UAgrees (Update.step small [] g1 2 ["A", "B", "T"] sMergeSet) (Spec.apply small [] g1 2 sMergeSet) := by
  decide

/-- a variable bound to null is taken for unbound: `MATCH (a) OPTIONAL MATCH (a)-[r]->(b) CREATE (a)-[:T]->(b)`
    over a single node creates a second node instead of failing -/
def gOne : Graph := ⟨[⟨0, [], []⟩], []⟩

def sNullBound : Stmt :=
  ⟨[.match_ false [⟨⟨some "a", [], []⟩, []⟩],
    .match_ true [⟨⟨some "a", [], []⟩, [(⟨some "r", [], .out, []⟩, ⟨some "b", [], []⟩)]⟩]],
   [.create [⟨⟨some "a", [], []⟩, [(⟨none, ["T"], .out, []⟩, ⟨some "b", [], []⟩)]⟩]]⟩

theorem counterexample_null_bound_variable :
    ¬ UAgrees (Update.step small [] gOne 1 [] sNullBound) (Spec.apply small [] gOne 1 sNullBound) := by
  decide

/-- counts are computed against the statement-start snapshot: `MATCH (a:A), (b:B) REMOVE a.k` over two B nodes
    counts the one removal twice -/
def gAB : Graph := ⟨[⟨0, ["A"], [("k", .int 1)]⟩, ⟨1, ["B"], []⟩, ⟨2, ["B"], []⟩], []⟩

def sRemoveTwice : Stmt :=
  ⟨[.match_ false [⟨⟨some "a", ["A"], []⟩, []⟩, ⟨⟨some "b", ["B"], []⟩, []⟩]], [.remove [.prop "a" "k"]]⟩

theorem counterexample_writes_against_snapshot :
    ¬ UAgrees (Update.step small [] gAB 3 ["A", "B"] sRemoveTwice) (Spec.apply small [] gAB 3 sRemoveTwice) := by
  decide

/-- `MATCH (a) SET a:A` on a node that already has :A reports 1 change -/
def gA : Graph := ⟨[⟨0, ["A"], []⟩], []⟩
def sLabelAgain : Stmt := ⟨[.match_ false [⟨⟨some "a", [], []⟩, []⟩]], [.set [.labels "a" ["A"]]]⟩

theorem counterexample_label_count :
    ¬ UAgrees (Update.step small [] gA 1 ["A"] sLabelAgain) (Spec.apply small [] gA 1 sLabelAgain) := by
  decide

/-- relationship MERGE with unbound ends re-uses existing nodes: `MERGE (a:A)-[m:T]->(b:B)` over an unconnected
    :A and :B node only creates the relationship (reference: the whole pattern) -/
def gTwo : Graph := ⟨[⟨0, ["A"], []⟩, ⟨1, ["B"], []⟩], []⟩
def sMergeRel : Stmt :=
  ⟨[], [.merge ⟨⟨some "a", ["A"], []⟩, [(⟨some "m", ["T"], .out, []⟩, ⟨some "b", ["B"], []⟩)]⟩ [] []]⟩

theorem counterexample_merge_partial :
    ¬ UAgrees (Update.step small [] gTwo 2 ["A", "B"] sMergeRel) (Spec.apply small [] gTwo 2 sMergeRel) := by
  decide

/-- the merge overlay is not updated by ON CREATE SET: `UNWIND [1,2] AS x MERGE (m:A {k: 1}) ON CREATE SET m.k = 2`
    creates one node, the reference two -/
def sMergeStale : Stmt :=
  ⟨[.unwind (.listLit [.int 1, .int 2]) "x"],
   [.merge ⟨⟨some "m", ["A"], [("k", .lit (.int 1))]⟩, []⟩ [.prop "m" "k" (.lit (.int 2))] []]⟩

theorem counterexample_merge_stale_overlay :
    ¬ UAgrees (Update.step small [] ⟨[], []⟩ 0 [] sMergeStale) (Spec.apply small [] ⟨[], []⟩ 0 sMergeStale) := by
  decide

/-- property items of a SET clause run before its map items: `MATCH (a) SET a = {j: 2}, a.k = 1` ends without k -/
def gK : Graph := ⟨[⟨0, ["A"], [("k", .int 5)]⟩], []⟩
def sReordered : Stmt :=
  ⟨[.match_ false [⟨⟨some "a", [], []⟩, []⟩]],
   [.set [.mapReplace "a" [("j", .lit (.int 2))], .prop "a" "k" (.lit (.int 1))]]⟩

theorem counterexample_set_items_reordered :
    ¬ UAgrees (Update.step small [] gK 1 ["A"] sReordered) (Spec.apply small [] gK 1 sReordered) := by
  decide

/-- the property map of a deleted relationship identity survives in the store (`mult = 0` record) and is found
    again when the identity is re-created: after `DELETE r` of (0)-[:T {w: 4}]->(1), `CREATE (a)-[:T]->(b)` brings
    w = 4 back (root cause: C06) -/
def gDead : Graph := ⟨[⟨0, ["A"], []⟩, ⟨1, ["B"], []⟩], [⟨⟨0, "T", 1⟩, 0, [("w", .int 4)]⟩]⟩
def sRecreate : Stmt :=
  ⟨[.match_ false [⟨⟨some "a", ["A"], []⟩, []⟩, ⟨⟨some "b", ["B"], []⟩, []⟩]],
   [.create [⟨⟨some "a", [], []⟩, [(⟨none, ["T"], .out, []⟩, ⟨some "b", [], []⟩)]⟩]]⟩

theorem counterexample_deleted_rel_props_resurrect :
    ¬ UAgrees (Update.step small [] gDead 2 ["A", "B", "T"] sRecreate)
      (Spec.apply small [] (Update.live gDead) 2 sRecreate) := by
  decide

/-- hence the full-strength statement fails -/
theorem C12_full_false : ¬ C12_full := by
  intro h
  exact counterexample_label_count (h small [] gA 1 ["A"] sLabelAgain (by decide) (by decide))

end Nervus.Props.C12
