/-
  C14 — No dangling relationships.
  Statements only (helper lemmas: Nervus.Proofs.EngineDangling).
  Model: storage engine (Nervus.Model.Engine*) + the query-level DELETE of
  nervusdb-query/src/executor/create_delete_ops.rs (Nervus.Model.QueryDelete: the safety check looks
  the attachments up in the statement's SNAPSHOT, not in the transaction's staged relationships).
-/
import Nervus.Proofs.EngineDangling
import Nervus.Proofs.CheckpointHist
import Nervus.Props.C06
namespace Nervus.Props.C14
open Nervus Nervus.Storage
open Nervus.GraphSpec (Graph TxOp Op wellFormed txOnly noC06Trigger)

/-- a query-level write statement as it reaches the storage API -/
inductive QStmt
  | create (ops : List TxOp)                                        -- CREATE: nodes, relationships, properties
  | delete (detach : Bool) (nodes : List Nat) (rels : List Edge)     -- [DETACH] DELETE of matched / created entities

inductive QResult
  | ok (s : Engine) (t : Txn)
  | refused          -- "Cannot delete node with relationships without DETACH DELETE"
  | panic

/-- one statement of a transaction: the DELETE check reads the snapshot = the committed state `s`
    (a write transaction never publishes anything before commit) -/
def runStmt (c : Cfg) (s : Engine) (t : Txn) : QStmt → QResult
  | .create ops => let r := ops.foldl (stepTx c) (s, t); .ok r.1 r.2
  | .delete detach nodes rels =>
    match execDelete c s t detach nodes rels with
    | .ok t' _ => .ok s t'
    | .hasRels => .refused
    | .panic => .panic

/-- a transaction of statements; a refused statement ends it without commit -/
def runQTx (c : Cfg) (s : Engine) (stmts : List QStmt) : Engine :=
  let rec go (s : Engine) (t : Txn) : List QStmt → Engine
    | [] => (s.commit c t).1
    | q :: qs => match runStmt c s t q with
      | .ok s' t' => go s' t' qs
      | .refused => s
      | .panic => s
  go s.beginWrite.1 s.beginWrite.2 stmts

/-- **C14 at full strength**: after any sequence of query-level transactions no read returns a
    relationship with a dead end node.  NOT provable: `C14_counterexample_create_then_delete`. -/
def C14_full : Prop :=
  ∀ (txs : List (List QStmt)), noDangling Cfg.current (txs.foldl (runQTx Cfg.current) {}) = true

/-- **C14 (proved part, storage half)**: for EVERY compaction-free, well-formed history in which no
    transaction deletes a node that gained a relationship in the same transaction (and no other C06
    finding is triggered), every relationship that `neighbors` / `incoming_neighbors` return from a
    live node connects two live nodes — in both traversal directions. -/
theorem C14_partial (c : Cfg) (h : List Op) (htx : txOnly h = true) (hwf : wellFormed h = true)
    (hk : noC06Trigger h = true) (hsz : histSize h ≤ labelMax) :
    ∃ s, Storage.run c h = .ok s ∧ ∀ n ∈ s.nodes,
      (∃ es, s.neighbors n none = some es ∧ ∀ e ∈ es, e.src ∈ s.nodes ∧ e.dst ∈ s.nodes) ∧
      (∃ es, s.incoming c n none = some es ∧ ∀ e ∈ es, e.src ∈ s.nodes ∧ e.dst ∈ s.nodes) := by
  obtain ⟨s, hrun, hreads⟩ := C06.C06_partial c h htx hwf hk hsz
  exact ⟨s, hrun, fun n hn => reads_no_dangling c hreads (spec_no_dangling h hwf) n hn⟩

/-- the neighbour iterators fold the pending tombstones of the LAST run into the blocked sets before the
    segment phase (regenerated table entry; seed C14-seed1 makes it false) -/
theorem iterators_flush_before_segments : Generated.itersFlushBeforeSegments = true := by decide

/-- **the neighbour iterator with segments, every state**: what `neighbors` / `incoming_neighbors`
    return is the run phase followed by segment relationships none of which is tombstoned — itself, or
    its far end node, or the start node — by ANY published run, the oldest one included (the run of the
    first transaction after a compaction: its tombstones are pending until the segments are reached). -/
theorem segment_edges_behind_all_tombstones (s : Engine) (n : Nat) (rel : Option Nat) :
    (∀ es, s.neighbors n rel = some es → ∃ segEs, es = (outRuns n rel s.runs [] []).1 ++ segEs ∧
      ∀ e ∈ segEs, e.dst ∉ allTombNodes s.runs ∧ e ∉ allTombEdgesOf s.runs ∧ n ∉ allTombNodes s.runs) ∧
    (∀ es, s.incoming Cfg.current n rel = some es → ∃ segEs, es = (inRuns n rel s.runs [] []).1 ++ segEs ∧
      ∀ e ∈ segEs, e.src ∉ allTombNodes s.runs ∧ e ∉ allTombEdgesOf s.runs ∧ n ∉ allTombNodes s.runs) :=
  ⟨neighbors_segment_part s n rel, incoming_segment_part Cfg.current s n rel⟩

/-- **C14 (proved part, storage half, histories WITH compaction / close / reopen)**: for EVERY
    well-formed history of transactions, compactions, closes and reopens that triggers no C06 finding
    and is `ckptHistSafe` — in particular: relationships compacted into a segment, an end node deleted
    (with its relationships) in the FIRST transaction after the compaction or in any later one — every
    relationship that `neighbors` / `incoming_neighbors` return from a live node connects two live
    nodes, in both traversal directions.  (The compacting engine reads like the transaction-only shadow
    engine, `hist_pair`; the shadow refines the Spec graph, which has no dangling relationship.) -/
theorem C14_partial_ckpt (h : List Op) (hwf : wellFormed h = true) (hk : noC06Trigger h = true)
    (hsz : histSize h ≤ labelMax) (hs : ckptHistSafe Cfg.current {} h = true) :
    ∃ s, Storage.run Cfg.current h = .ok s ∧ ∀ n ∈ s.nodes,
      (∃ es, s.neighbors n none = some es ∧ ∀ e ∈ es, e.src ∈ s.nodes ∧ e.dst ∈ s.nodes) ∧
      (∃ es, s.incoming Cfg.current n none = some es ∧ ∀ e ∈ es, e.src ∈ s.nodes ∧ e.dst ∈ s.nodes) := by
  simp only [noC06Trigger, Bool.and_eq_true, Bool.not_eq_true'] at hk
  obtain ⟨⟨⟨k1, k2⟩, k3⟩, k4⟩ := hk
  obtain ⟨s, u, hrun, _, hP⟩ := hist_pair h {} {} {} Pair.empty hs hwf (by simpa using hsz) k1 k2 k3 k4
  obtain ⟨hn, _, _, hout, hinc, _⟩ := hP.eqv.reads
  refine ⟨s, hrun, fun n hnode => ?_⟩
  have hnu : n ∈ u.nodes := by rw [← hn]; exact hnode
  obtain ⟨⟨eo, ho, hoall⟩, ⟨ei, hi, hiall⟩⟩ :=
    reads_no_dangling Cfg.current (hP.sim.reads Cfg.current) (spec_no_dangling h hwf) n hnu
  constructor
  · rcases hout n none with ⟨_, hb⟩ | ⟨l, l', ha, hb, hp⟩
    · rw [ho] at hb; cases hb
    · rw [ho] at hb; cases hb
      exact ⟨l, ha, fun e he => by rw [hn]; exact hoall e (hp.mem_iff.mp he)⟩
  · rcases hinc n none with ⟨_, hb⟩ | ⟨l, l', ha, hb, hp⟩
    · rw [hi] at hb; cases hb
    · rw [hi] at hb; cases hb
      exact ⟨l, ha, fun e he => by rw [hn]; exact hiall e (hp.mem_iff.mp he)⟩

/-- the Spec side: a well-formed history never leaves a relationship with a dead end node -/
theorem spec_has_no_dangling (h : List Op) (hwf : wellFormed h = true) :
    ∀ e ∈ (GraphSpec.run h).rels, (GraphSpec.run h).live e.src = true ∧ (GraphSpec.run h).live e.dst = true :=
  spec_no_dangling h hwf

/-- **C14 (proved part, query half)**: a non-DETACH DELETE of a node that has — in the snapshot — a
    relationship the statement does not delete explicitly is refused, for every snapshot state … -/
theorem delete_with_committed_relationship_fails (snap : Engine) (t : Txn) (nodes : List Nat)
    (explicit : List Edge) (ls : List (List Edge)) (hl : nodes.mapM (attached Cfg.current snap) = some ls)
    (e : Edge) (he : e ∈ ls.flatten) (hne : e ∉ explicit) :
    (match execDelete Cfg.current snap t false nodes explicit with | .hasRels => true | _ => false) = true :=
  delete_with_snapshot_rels_fails Cfg.current snap t nodes explicit ls hl e he hne

/-- … and a DELETE that goes through covers every snapshot relationship of the deleted nodes -/
theorem delete_ok_covers_committed_relationships (snap : Engine) (t t' : Txn) (k : Nat) (nodes : List Nat)
    (explicit : List Edge) (h : execDelete Cfg.current snap t false nodes explicit = .ok t' k) :
    ∃ ls, nodes.mapM (attached Cfg.current snap) = some ls ∧ ∀ e ∈ ls.flatten, e ∈ explicit :=
  delete_ok_covers_snapshot Cfg.current snap t t' k nodes explicit h

/-! ### non-vacuity -/

def A : Nat := 321
def R : Nat := 338

def hOk : List Op :=
  [ .tx [.node 10 (some A), .node 11 (some A), .edge 0 R 1, .edge 1 R 0] true,
    .tx [.tombEdge 0 R 1, .tombEdge 1 R 0, .tombNode 0, .node 12 (some A), .edge 2 R 1] true ]

example : txOnly hOk = true ∧ wellFormed hOk = true ∧ noC06Trigger hOk = true ∧ histSize hOk ≤ labelMax := by
  decide

/-- a committed relationship makes the non-DETACH delete fail (model of `MATCH (a) DELETE a`) -/
example : ∃ s, Storage.run Cfg.current [ .tx [.node 10 (some A), .node 11 (some A), .edge 0 R 1] true ] = .ok s ∧
    (match execDelete Cfg.current s s.beginWrite.2 false [0] [] with | .hasRels => true | _ => false) = true :=
  ⟨_, rfl, by decide⟩

/-- non-vacuity of `C14_partial_ckpt`, and the scenario of seed C14-seed1: the relationship is compacted
    into a segment, its end node is deleted (DETACH style) by the first transaction after the compaction;
    then the same in a later transaction, a second compaction-free delete, reopen -/
def hCompactDelete : List Op :=
  [ .tx [.node 10 (some A), .node 11 (some 322), .node 12 (some A), .edge 0 R 1, .edge 2 R 1, .edge 2 R 0] true,
    .compact,
    .tx [.tombEdge 0 R 1, .tombEdge 2 R 1, .tombNode 1] true,
    .tx [.node 13 none] true,
    .tx [.tombEdge 2 R 0, .tombNode 0] true,
    .reopen ]

example : ckptHistSafe Cfg.current {} hCompactDelete = true ∧ wellFormed hCompactDelete = true ∧
    noC06Trigger hCompactDelete = true ∧ histSize hCompactDelete ≤ labelMax := by decide

/-- the iterator WITHOUT the fold before the segment phase (the seeded one) returns the compacted
    relationship from the surviving end node although the other end is deleted; the current one does not -/
theorem C14_counterexample_unflushed_iterator :
    ∃ s, Storage.run Cfg.current (hCompactDelete.take 3) = .ok s ∧ s.nodes = [0, 2] ∧
      s.neighborsUnflushed 0 none = some [⟨0, 2, 1⟩] ∧ s.neighbors 0 none = some [] ∧
      s.neighborsUnflushed 2 none = some [⟨2, 2, 0⟩, ⟨2, 2, 1⟩] ∧ s.neighbors 2 none = some [⟨2, 2, 0⟩] :=
  ⟨_, rfl, by decide, by decide, by decide, by decide, by decide⟩

/-! ### the defect: the check ignores relationships staged by the same transaction -/

/-- `CREATE (a:A)-[:R]->(b:B) WITH a DELETE a`: the statement creates the relationship, then deletes
    `a`; the safety check sees no relationship in the snapshot and lets the delete through.  After
    commit `b` has an incoming relationship from a dead node (and only the incoming traversal shows it). -/
def qCreateThenDelete : List QStmt :=
  [ .create [.node 10 (some A), .node 11 (some 322), .edge 0 R 1], .delete false [0] [] ]

theorem C14_counterexample_create_then_delete :
    let s := runQTx Cfg.current {} qCreateThenDelete
    s.nodes = [1] ∧ s.incoming Cfg.current 1 none = some [⟨0, 2, 1⟩] ∧ s.neighbors 0 none = some [] ∧
    noDangling Cfg.current s = false := by
  refine ⟨by decide, by decide, by decide, by decide⟩

/-- the same through two statements of one transaction on committed nodes:
    `MATCH (a),(b) CREATE (a)-[:R]->(b)` then `MATCH (a) DELETE a` -/
theorem C14_counterexample_two_statements :
    ∃ s0, Storage.run Cfg.current [ .tx [.node 10 (some A), .node 11 (some A)] true ] = .ok s0 ∧
      noDangling Cfg.current s0 = true ∧
      noDangling Cfg.current (runQTx Cfg.current s0 [ .create [.edge 0 R 1], .delete false [0] [] ]) = false :=
  ⟨_, rfl, by decide, by decide⟩

/-- DETACH DELETE has the same hole: it detaches the snapshot's relationships only -/
theorem C14_counterexample_detach :
    noDangling Cfg.current (runQTx Cfg.current {}
      [ .create [.node 10 (some A), .node 11 (some 322), .edge 0 R 1], .delete true [1] [] ]) = false := by
  decide

end Nervus.Props.C14
