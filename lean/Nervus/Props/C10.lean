/-
  C10 — Only one handle writes a database at a time.
  Statements only (helper lemmas: Nervus.Proofs.Handles).
  Model: Nervus.Model.Handles; whether `open` takes the exclusive advisory lock is the regenerated
  `Generated.openTakesLock`.
-/
import Nervus.Proofs.Handles
namespace Nervus.Props.C10
open Nervus Nervus.Handles

/-- **C10 at full strength**, for the `open` found in the source and any OS that honours the lock
    contract: in every reachable state (any number of processes, opens, closes, crashes, in any order)
    at most one handle can write a given database. -/
def C10_full : Prop :=
  ∀ (os : OsTryLock), OsSound os → ∀ s, Reach Generated.openTakesLock os s → ∀ path, (writers s path).length ≤ 1

/-- the source takes the lock (regenerated table entry) -/
theorem open_takes_lock : Generated.openTakesLock = true := by decide

/-- **At most one writer** with a locking `open` — all traces, any number of processes and handles.
    The cross-process half rests on the hypothesis `OsSound os` (the OS grants an exclusive advisory
    lock only when no open file description holds it, and keeps it until that description is closed). -/
theorem one_writer_with_lock (os : OsTryLock) (hos : OsSound os) (s : State) (h : Reach true os s)
    (path : Nat) : (writers s path).length ≤ 1 :=
  (reach_inv hos h).one path

/-- a second `open` of a path that is open is refused (it does not wait, it does not succeed) -/
theorem second_open_refused (os : OsTryLock) (hos : OsSound os) (s : State) (h : Reach true os s)
    (hd : Handle) (hmem : hd ∈ s.handles) (proc : Nat) :
    (step true os s (.open proc hd.path)).2 = .busy := by
  have hown := (reach_inv hos h).owns hd hmem
  simp only [step, if_true]
  split
  · rename_i hok; have := hos _ _ hok; rw [hown] at this; cases this
  · rfl

/-- **C10** for the code as it is. -/
theorem C10 : C10_full := by
  intro os hos s h path
  rw [open_takes_lock] at h
  exact one_writer_with_lock os hos s h path

/-- **Counterexample without the lock** (the pinned tree before the `fix:` commit): two `Db::open`
    of one path, from two processes, both succeed — two writers. -/
theorem C10_counterexample :
    ∃ s, Reach false osFlock s ∧ (writers s 7).length = 2 ∧
      (step false osFlock init (.open 1 7)).2 = .ok 0 ∧
      (step false osFlock (step false osFlock init (.open 1 7)).1 (.open 2 7)).2 = .ok 1 :=
  ⟨_, .step (.open 2 7) (.step (.open 1 7) .init), by decide, by decide, by decide⟩

/-! non-vacuity -/
/-- with the lock: first open succeeds, second is refused, after close (or a crash of the owner) it succeeds again -/
example :
    let s1 := (step true osFlock init (.open 1 7)).1
    (step true osFlock init (.open 1 7)).2 = .ok 0 ∧
    (step true osFlock s1 (.open 2 7)).2 = .busy ∧
    (step true osFlock (step true osFlock s1 (.close 0)).1 (.open 2 7)).2 = .ok 1 ∧
    (step true osFlock (step true osFlock s1 (.crash 1)).1 (.open 2 7)).2 = .ok 1 ∧
    (step true osFlock s1 (.open 2 8)).2 = .ok 1 := by decide
example : OsSound osFlock := osFlock_sound

end Nervus.Props.C10
