/-
  C10 — Only one handle writes a database at a time.
  Statements only (helper lemmas: Nervus.Proofs.Handles).
  Model: Nervus.Model.Handles; whether `open` takes the exclusive advisory lock is the regenerated
  `Generated.openTakesLock`.
-/
import Nervus.Proofs.Handles
import Nervus.Proofs.OpenRace
namespace Nervus.Props.C10
open Nervus Nervus.Handles

/-- **C10 at full strength**, for the `open` found in the source and any OS that honours the lock
    contract: in every reachable state (any number of processes, opens, closes, crashes, in any order)
    at most one handle can write a given database. -/
def C10_full : Prop :=
  ∀ (os : OsTryLock), OsSound os → ∀ s, Reach Generated.openTakesLock os s → ∀ path, (writers s path).length ≤ 1

/-- **C10 for racing creators, at full strength**: whatever the interleaving of the file-system steps of
    any number of concurrent `open`s of a database that does not exist yet, at most one of them ends up
    holding it open. -/
def C10_race_full : Prop :=
  ∀ s, OpenRace.Reach Generated.openReplacesPathInode s → ∀ i j, OpenRace.owns s i → OpenRace.owns s j → i = j

/-- the source takes the lock (regenerated table entry) -/
theorem open_takes_lock : Generated.openTakesLock = true := by decide

/-- **At most one writer** with a locking `open` — all traces, any number of processes and handles.
    The cross-process half rests on the hypothesis `OsSound os` (the OS grants an exclusive advisory
    lock only when no open file description holds it, and keeps it until that description is closed). -/
theorem one_writer_with_lock (os : OsTryLock) (hos : OsSound os) (s : State) (h : Reach true os s)
    (path : Nat) : (writers s path).length ≤ 1 :=
  (reach_inv hos h).one path

/-- a second `open` of a path that is open is refused (it does not wait, it does not succeed) -/
theorem second_open_refused (os : OsTryLock) (hos : OsSound os) (s : State) (h : Reach true os s)
    (hd : Handle) (hmem : hd ∈ s.handles) (proc : Nat) :
    (step true os s (.open proc hd.path)).2 = .busy := by
  have hown := (reach_inv hos h).owns hd hmem
  simp only [step, if_true]
  split
  · rename_i hok; have := hos _ _ hok; rw [hown] at this; cases this
  · rfl

/-- **No stale lock**: in every reachable state (any opens, closes, process deaths, in any order), when no
    handle is open on a path the next `open` of it SUCCEEDS — the exclusion never outlives the handle that
    holds it: closing the handle or the death of its process gives the database back.  (For the OS that
    grants a free lock, `osFlock`; the C10 exclusion theorems need only `OsSound`.) -/
theorem open_succeeds_when_free (s : State) (h : Reach true osFlock s) (proc path : Nat)
    (hw : writers s path = []) : (step true osFlock s (.open proc path)).2 = .ok s.nextId := by
  have ht : s.lockTable path = none := by
    cases ht : s.lockTable path with
    | none => rfl
    | some i =>
      obtain ⟨hd, hm, _, hp⟩ := reach_noStale h path i ht
      have : hd ∈ writers s path := by simp [writers, hm, hp]
      rw [hw] at this; cases this
  simp [step, osFlock, ht]

/-- … and whenever an `open` is refused, a live handle of that path exists (the refusal is never spurious) -/
theorem refused_only_if_open (s : State) (h : Reach true osFlock s) (proc path : Nat)
    (hb : (step true osFlock s (.open proc path)).2 = .busy) : ∃ hd, hd ∈ writers s path := by
  cases hw : writers s path with
  | nil => rw [open_succeeds_when_free s h proc path hw] at hb; cases hb
  | cons hd _ => exact ⟨hd, List.mem_cons_self⟩

/-- **C10** for the code as it is. -/
theorem C10 : C10_full := by
  intro os hos s h path
  rw [open_takes_lock] at h
  exact one_writer_with_lock os hos s h path

/-- the source takes the lock on the ONE file it opened (with create) at the path BEFORE it initialises
    anything, and no step replaces the inode the path names (regenerated step order of `Pager::open`) -/
theorem lock_before_initialise_in_source :
    Generated.openSteps = ["checkPath", "openCreate", "lock", "initInPlace"] ∧
    Generated.openLockBeforeInit = true ∧ Generated.openReplacesPathInode = false := by decide

/-- **Racing creators cannot both succeed** when every opener locks the single inode that
    `open(path, O_CREAT)` names before initialising it — all interleavings, any number of openers. -/
theorem racing_creators_one_winner (s : OpenRace.State) (h : OpenRace.Reach false s) (i j : Nat)
    (hi : OpenRace.owns s i) (hj : OpenRace.owns s j) : i = j := by
  obtain ⟨n, hn⟩ := hi
  obtain ⟨m, hm⟩ := hj
  have inv := OpenRace.reach_inv h
  have h1 := inv.fd i n (Or.inr hn)
  have h2 := inv.fd j m (Or.inr hm)
  rw [h1] at h2; cases h2
  have a := inv.held i n hn
  have b := inv.held j n hm
  rw [a] at b; cases b; rfl

/-- **C10 (racing creators)** for the code as it is. -/
theorem C10_race : C10_race_full := by
  intro s h i j hi hj
  rw [lock_before_initialise_in_source.2.2] at h
  exact racing_creators_one_winner s h i j hi hj

private theorem okR : (OpenRace.runTrace true OpenRace.init
    [.check 0, .check 1, .create 0, .openp 0, .lock 0, .create 1, .openp 1, .lock 1]).isSome = true := by decide
def stRace : OpenRace.State := (OpenRace.runTrace true OpenRace.init
    [.check 0, .check 1, .create 0, .openp 0, .lock 0, .create 1, .openp 1, .lock 1]).get okR

/-- **Counterexample: initialise-by-rename before the lock** — both openers see the path missing;
    opener 0 renames its file in, opens and locks inode 0; opener 1 renames ITS file over the path,
    opens and locks inode 1.  Two handles own "the" database. -/
theorem C10_counterexample_rename_race :
    OpenRace.Reach true stRace ∧ stRace.ops 0 = .locked 0 ∧ stRace.ops 1 = .locked 1 ∧
    ¬ (∀ i j, OpenRace.owns stRace i → OpenRace.owns stRace j → i = j) := by
  refine ⟨OpenRace.reach_of_runTrace _ .init (Option.some_get okR).symm, by decide, by decide, ?_⟩
  intro h
  have := h 0 1 ⟨0, by decide⟩ ⟨1, by decide⟩
  cases this

/-- **Counterexample without the lock** (the pinned tree before the `fix:` commit): two `Db::open`
    of one path, from two processes, both succeed — two writers. -/
theorem C10_counterexample :
    ∃ s, Reach false osFlock s ∧ (writers s 7).length = 2 ∧
      (step false osFlock init (.open 1 7)).2 = .ok 0 ∧
      (step false osFlock (step false osFlock init (.open 1 7)).1 (.open 2 7)).2 = .ok 1 :=
  ⟨_, .step (.open 2 7) (.step (.open 1 7) .init), by decide, by decide, by decide⟩

/-! non-vacuity -/
/-- with the lock: first open succeeds, second is refused, after close (or a crash of the owner) it succeeds again -/
example :
    let s1 := (step true osFlock init (.open 1 7)).1
    (step true osFlock init (.open 1 7)).2 = .ok 0 ∧
    (step true osFlock s1 (.open 2 7)).2 = .busy ∧
    (step true osFlock (step true osFlock s1 (.close 0)).1 (.open 2 7)).2 = .ok 1 ∧
    (step true osFlock (step true osFlock s1 (.crash 1)).1 (.open 2 7)).2 = .ok 1 ∧
    (step true osFlock s1 (.open 2 8)).2 = .ok 1 := by decide
/-- `open_succeeds_when_free` is not vacuous: after open (proc 1) and the death of proc 1 the state is reachable,
    nobody has path 7 open, and the theorem's conclusion is what the model computes -/
example : Reach true osFlock (step true osFlock (step true osFlock init (.open 1 7)).1 (.crash 1)).1 ∧
    writers (step true osFlock (step true osFlock init (.open 1 7)).1 (.crash 1)).1 7 = [] :=
  ⟨.step (.crash 1) (.step (.open 1 7) .init), by decide⟩
example : OsSound osFlock := osFlock_sound
/-- racing creators under the source's protocol: one wins, the other is refused -/
example : (OpenRace.runTrace false OpenRace.init [.openp 0, .openp 1, .lock 1, .lock 0]).map
    (fun s => (s.ops 0, s.ops 1)) = some (.refused, .locked 0) := by decide

end Nervus.Props.C10
