/-
  C08 — Failed commits are all-or-nothing.
  Statements only.  Same step model as C01/C02, but step k returns an injected I/O error and the
  process keeps running (`Stop.faultAt k`): the error path of the call site is executed
  (`Action.io … onFail`), memory keeps the updates made before the failing call.
-/
import Nervus.Proofs.CrashFault
import Nervus.Props.C02
namespace Nervus.Props.C08
open Nervus Nervus.Crash

theorem source_ok : cfgOfSource.walRollback = true ∧ cfgOfSource.syncSlot = true := by decide

/-- **C08, full strength** (not proved — kept visible): an I/O error injected at ANY I/O step `k` of
    a commit: `commit` reports the error, the handle shows the same content as before, every crash
    image of the files represents the old list or the old list plus this transaction — never a
    part — and the handle still satisfies the invariant from which every later commit is
    crash-safe and durable (`C02.commit_every_step`).  False today for `k` in the node-table phase:
    `counterexample_node_table_phase` (known finding C08-node-table-apply-failure). -/
def C08_full : Prop :=
  ∀ (T : List Tx) (fs : FS) (m : Mem) (cs : List CTx) (c : Nat) (tx : Tx) (k : Nat),
    InvOpen T fs m cs c → validLen fs.wf = fs.wf.length → FreshTx T tx →
    k < (ioSteps (commitA cfgOfSource m fs.pv fs.wf tx)).length →
    let out := run (commitA cfgOfSource m fs.pv fs.wf tx) (.faultAt k) fs m
    out.err = some .io ∧
    Spec.Content.same (content out.mem out.fs.pv) (Spec.run T) ∧
    SafeFS [T, T ++ [tx]] out.fs ∧
    ∃ T' cs' c', (T' = T ∨ T' = T ++ [tx]) ∧ InvOpen T' out.fs out.mem cs' c'

/-- **C08 (`failed_commit_atomic`), log phase**: an I/O error at ANY I/O step of the log phase of a
    commit — any of the three writes of any record, or the log sync after CommitTx was written —
    (1) is reported and leaves the content the handle shows unchanged, and (2) leaves files whose
    EVERY crash image (process death, power loss with any subset of unsynced writes) represents
    exactly the old list: the transaction is not there, neither now nor after any reopen. -/
theorem failed_commit_atomic {T : List Tx} {fs : FS} {m : Mem} {cs : List CTx} {c : Nat}
    (h : InvOpen T fs m cs c) (hnc : NoCut cfgOfSource m) (hclean : validLen fs.wf = fs.wf.length)
    (tx : Tx) (hf : FreshTx T tx) (k : Nat) (hk : k ≤ 3 * (txRecs m.nextTxid m.idLen tx).length) :
    let out := run (commitA cfgOfSource m fs.pv fs.wf tx) (.faultAt k) fs m
    out.err = some .io ∧
    Spec.Content.same (content out.mem fs.pv) (Spec.run T) ∧
    (∀ mode, Rep T (out.fs.crashP mode) (out.fs.crashW mode)) := by
  intro out
  obtain ⟨h1, h2, h3, _⟩ := failed_commit_wal (cfg := cfgOfSource) source_ok.1 h hnc hclean tx hf k hk
  refine ⟨h1, ?_, ?_⟩
  · have hc := content_of_inv h
    have : content out.mem fs.pv = content m fs.pv := by
      show content (run _ _ _ _).mem fs.pv = _
      rw [h2]; rfl
    rw [this]; exact hc
  · intro mode
    obtain ⟨T', hT', hr⟩ := h3 mode
    simp only [List.mem_singleton] at hT'
    subst hT'
    exact hr

/-- **C08 (`failed_commit_continues`)**: when the error hits the log sync (CommitTx already written)
    or one of the writes of the first record, the handle is back in the invariant for the old
    list with a clean log — so (3) every later commit through the same handle is crash-safe at
    every step and durable once it returns (`C02.commit_every_step` applies verbatim), and the
    next open shows the old list plus those commits (`C02.crash_prefix`). -/
theorem failed_commit_continues {T : List Tx} {fs : FS} {m : Mem} {cs : List CTx} {c : Nat}
    (h : InvOpen T fs m cs c) (hnc : NoCut cfgOfSource m) (hclean : validLen fs.wf = fs.wf.length)
    (tx : Tx) (hf : FreshTx T tx) (k : Nat)
    (hk : k < 3 ∨ k = 3 * (txRecs m.nextTxid m.idLen tx).length) :
    let out := run (commitA cfgOfSource m fs.pv fs.wf tx) (.faultAt k) fs m
    InvOpen T out.fs out.mem cs c ∧ TailPre cfgOfSource out.fs out.mem ∧
    ∀ tx', FreshTx T tx' →
      ∀ n mode, ∃ T' ∈ [T, T ++ [tx']],
        Rep T' ((out.fs.steps ((ioSteps (commitA cfgOfSource out.mem out.fs.pv out.fs.wf tx')).take n)).crashP mode)
          ((out.fs.steps ((ioSteps (commitA cfgOfSource out.mem out.fs.pv out.fs.wf tx')).take n)).crashW mode) := by
  intro out
  have hk' : k ≤ 3 * (txRecs m.nextTxid m.idLen tx).length := by
    rcases hk with hk | hk
    · have : (txRecs m.nextTxid m.idLen tx).length = (body m.idLen tx).length + 2 := by rw [txRecs_eq]; simp
      omega
    · omega
  obtain ⟨_, _, _, h4⟩ := failed_commit_wal (cfg := cfgOfSource) source_ok.1 h hnc hclean tx hf k hk'
  obtain ⟨hinv, hcl⟩ := h4 hk
  refine ⟨hinv, Or.inl hcl, ?_⟩
  intro tx' hf' n mode
  exact (C02.commit_every_step hinv (Or.inl hcl) tx' hf').1 n mode

/-! non-vacuity: the invariant and the hypotheses hold after `open; commit ex_tx1` on a fresh
    database, and the failing step 18 of the next commit is its log sync -/
example : (3 * (txRecs 3 1 C02.ex_tx2).length) = 18 := by decide

/-! counterexamples -/

def runW (cfg : Cfg) (ops : List (Op × Stop)) : World :=
  ops.foldl (fun w o => (w.step cfg o.1 o.2).1) ⟨created cfg, none⟩

/-- current tree, known finding C08-node-table-apply-failure: the error hits the first page write
    of the node-table phase (the log commit is already durable); `commit` returns Err, the next
    transaction logs the same internal node ids again, and the database cannot be opened any
    more (`non-dense internal id`). -/
theorem counterexample_node_table_phase :
    (match recover cfgOfSource (runW cfgOfSource
        [(.openOp, .none), (.commit C02.ex_tx1, .none), (.commit C02.ex_tx2, .faultAt 19),
         (.commit C02.ex_tx3, .none), (.drop, .none)]).fs with
      | .ok _ => none
      | .error e => some e) = some Err.nonDense := by decide

/-- pinned tree (fixed by 9d65a1f): the log sync fails after CommitTx was written; nothing is
    applied in memory, the next transaction reuses the internal ids, reopen fails. -/
theorem counterexample_pinned_fsync :
    (match recover C02.cfgPinned (runW C02.cfgPinned
        [(.openOp, .none), (.commit C02.ex_tx1, .none), (.commit C02.ex_tx2, .faultAt 18),
         (.commit C02.ex_tx3, .none), (.drop, .none)]).fs with
      | .ok _ => none
      | .error e => some e) = some Err.nonDense := by decide

/-- pinned tree (fixed by 9d65a1f): a write fails in the middle of a record; the torn frame stays
    in the log, the next — acknowledged — transaction is appended behind it and is only partly
    there after a reopen (its node from the node table; its property is gone). -/
theorem counterexample_pinned_torn_frame :
    (match recover C02.cfgPinned (runW C02.cfgPinned
        [(.openOp, .none), (.commit C02.ex_tx1, .none), (.commit C02.ex_tx2, .faultAt 1),
         (.commit C02.ex_tx3, .none), (.drop, .none)]).fs with
      | .ok (m, fs) => some (content m fs.pv)
      | .error _ => none) = some ⟨[1001, 3001], [1000], [10000]⟩ := by decide

end Nervus.Props.C08
