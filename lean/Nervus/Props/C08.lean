/-
  C08 — Failed commits are all-or-nothing.
  Statements only.  Same step model as C01/C02, but step k returns an injected I/O error and the
  process keeps running (`Stop.faultAt k`): the error path of the call site is executed
  (`Action.io … onFail`), memory keeps the updates made before the failing call.
-/
import Nervus.Proofs.CrashFaultC
import Nervus.Props.C02
namespace Nervus.Props.C08
open Nervus Nervus.Crash

theorem source_ok : cfgOfSource.walRollback = true ∧ cfgOfSource.syncSlot = true := by decide

/-- **C08, full strength** (not proved — kept visible): an I/O error injected at ANY I/O step `k` of
    a commit: `commit` reports the error, the handle shows the same content as before, every crash
    image of the files represents the old list or the old list plus this transaction — never a
    part — and the handle still satisfies the invariant from which every later commit is
    crash-safe and durable (`C02.commit_every_step`).  False today for `k` in the node-table phase:
    `counterexample_node_table_phase` (known finding C08-node-table-apply-failure). -/
def C08_full : Prop :=
  ∀ (T : List Tx) (fs : FS) (m : Mem) (cs : List CTx) (c : Nat) (tx : Tx) (k : Nat),
    InvOpen T fs m cs c → TailPre cfgOfSource fs m → FreshTx T tx →
    k < (ioSteps (commitA cfgOfSource m fs.pv fs.wf tx)).length →
    let out := run (commitA cfgOfSource m fs.pv fs.wf tx) (.faultAt k) fs m
    out.err = some .io ∧
    Spec.Content.same (content out.mem out.fs.pv) (Spec.run T) ∧
    SafeFS [T, T ++ [tx]] out.fs ∧
    ∃ T' cs' c', (T' = T ∨ T' = T ++ [tx]) ∧ InvOpen T' out.fs out.mem cs' c'

/-- **C08 (`failed_commit_atomic`), log phase**: an I/O error at ANY I/O step of the log phase of a
    commit — the tail cut of the first append through a handle, any of the three writes of any
    record, or the log sync after CommitTx was written — (1) is reported and leaves the content the
    handle shows unchanged, and (2) leaves files whose EVERY crash image (process death, power loss
    with any subset of unsynced writes and any prefix of the unsynced log) represents exactly the
    old list: the transaction is not there, neither now nor after any reopen. -/
theorem failed_commit_atomic {T : List Tx} {fs : FS} {m : Mem} {cs : List CTx} {c : Nat}
    (h : InvOpen T fs m cs c) (ht : TailPre cfgOfSource fs m) (tx : Tx) (hf : FreshTx T tx) (k : Nat)
    (hk : k ≤ (cutSteps cfgOfSource (m.ws fs.wf)).length + 3 * (txRecs m.nextTxid m.idLen tx).length) :
    let out := run (commitA cfgOfSource m fs.pv fs.wf tx) (.faultAt k) fs m
    out.err = some .io ∧
    Spec.Content.same (content out.mem out.fs.pv) (Spec.run T) ∧
    (∀ mode, Rep T (out.fs.crashP mode) (out.fs.crashW mode)) := by
  intro out
  obtain ⟨h1, h2, _⟩ := failed_commit_wal (cfg := cfgOfSource) source_ok.1 h ht tx hf k hk
  refine ⟨h1, content_of_inv h2, ?_⟩
  intro mode
  obtain ⟨T', hT', hr⟩ := safeFS_of_stable h2.pj h2.wal h2.log h2.pager h2.store mode
  simp only [List.mem_singleton] at hT'
  subst hT'
  exact hr

/-- **C08 (`failed_commit_continues`)**: after such a failed commit the handle is back in the
    invariant for the old list, with a log without torn tail (at most followed by unsynced complete
    records of the unfinished transaction, which the next BeginTx discards) — so (3) EVERY later
    commit through the same handle is crash-safe at every step and durable once it returns
    (`C02.commit_every_step` applies verbatim, stated here for the next commit), a further failed
    commit is again atomic, and the next open shows the old list plus the later commits. -/
theorem failed_commit_continues {T : List Tx} {fs : FS} {m : Mem} {cs : List CTx} {c : Nat}
    (h : InvOpen T fs m cs c) (ht : TailPre cfgOfSource fs m) (tx : Tx) (hf : FreshTx T tx) (k : Nat)
    (hk : k ≤ (cutSteps cfgOfSource (m.ws fs.wf)).length + 3 * (txRecs m.nextTxid m.idLen tx).length) :
    let out := run (commitA cfgOfSource m fs.pv fs.wf tx) (.faultAt k) fs m
    InvOpen T out.fs out.mem cs c ∧ TailPre cfgOfSource out.fs out.mem ∧
    ∀ tx', FreshTx T tx' →
      ∀ n mode, ∃ T' ∈ [T, T ++ [tx']],
        Rep T' ((out.fs.steps ((ioSteps (commitA cfgOfSource out.mem out.fs.pv out.fs.wf tx')).take n)).crashP mode)
          ((out.fs.steps ((ioSteps (commitA cfgOfSource out.mem out.fs.pv out.fs.wf tx')).take n)).crashW mode) := by
  intro out
  obtain ⟨_, hinv, htp⟩ := failed_commit_wal (cfg := cfgOfSource) source_ok.1 h ht tx hf k hk
  refine ⟨hinv, htp, ?_⟩
  intro tx' hf' n mode
  exact (C02.commit_every_step hinv htp tx' hf').1 n mode

/-- **C08 (failed compaction is harmless)**: an I/O error at ANY I/O step of `compact` (page
    allocation, segment / blob / leaf / statistics page write, page sync, tail cut, any write of the
    four system records, log sync) is reported, leaves the content the handle shows unchanged, and
    leaves files whose every crash image (that tears no leaf write of the live tree: known finding
    C01-live-tree-in-place) represents the committed list — nothing is lost, nothing appears.
    (Leaf splits in a new tree included; only the LIVE tree must be one leaf with room:
    `NoLiveSplit`.) -/
theorem failed_compact_atomic {T : List Tx} {fs : FS} {m : Mem} {cs : List CTx} {c : Nat}
    (h : InvOpen T fs m cs c) (ht : TailPre cfgOfSource fs m) (hns : NoLiveSplit cfgOfSource m fs.pv) (k : Nat)
    (hk : k < (ioSteps (compactA cfgOfSource m fs.pv fs.wf)).length) :
    let out := run (compactA cfgOfSource m fs.pv fs.wf) (.faultAt k) fs m
    out.err = some .io ∧
    Spec.Content.same (content out.mem out.fs.pv) (Spec.run T) ∧
    (∀ mode, mode.tearsLive m.proot out.fs.pj = false → Rep T (out.fs.crashP mode) (out.fs.crashW mode)) := by
  intro out
  obtain ⟨h1, h2, h3, _⟩ := failed_compact (cfg := cfgOfSource) source_ok.1 C02.leafCap_pos h ht hns k hk
  refine ⟨h1, h3, ?_⟩
  intro mode hm
  obtain ⟨T', hT', hr⟩ := h2 mode hm
  simp only [List.mem_singleton] at hT'
  subst hT'
  exact hr

/-- **C08 (failed compaction, log phase: the handle continues)**: when the failing step is the
    tail cut or a write of one of the system records (the append is rolled back) the handle is back
    in the invariant for the same list, so every later commit or compaction is covered by the
    crash theorems again.  (Errors in the page phase leave unsynced page writes behind and an
    error of the log sync leaves the complete system transaction in the page cache of the log: for
    those two the continuation is enumerated on model and real engine, not proved.) -/
theorem failed_compact_continues {T : List Tx} {fs : FS} {m : Mem} {cs : List CTx} {c : Nat}
    (h : InvOpen T fs m cs c) (ht : TailPre cfgOfSource fs m) (hns : NoLiveSplit cfgOfSource m fs.pv) (k : Nat)
    (hk1 : (ioSteps (pagesA cfgOfSource m fs.pv).1).length ≤ k)
    (hk2 : k + 1 < (ioSteps (compactA cfgOfSource m fs.pv fs.wf)).length) :
    let out := run (compactA cfgOfSource m fs.pv fs.wf) (.faultAt k) fs m
    InvOpen T out.fs out.mem cs c ∧ TailPre cfgOfSource out.fs out.mem := by
  intro out
  exact (failed_compact (cfg := cfgOfSource) source_ok.1 C02.leafCap_pos h ht hns k (by omega)).2.2.2 hk1 hk2

/-- **C08 (failed compaction, every step — page phase and log sync included: the database
    continues after a restart)**: whatever step of `compact` failed, when the process then exits or
    is killed (the handle is dropped; no destructor does I/O) the files are a closed database for
    the committed list: the next `open` succeeds, shows exactly that list, and every later
    operation and crash is covered by `C02.crash_prefix` again.  (The same-handle continuation after
    an error in the page phase or in the log sync is enumerated on model and real engine, not
    proved: see `design/C08.md` for the invariant it needs.) -/
theorem failed_compact_restart {T : List Tx} {fs : FS} {m : Mem} {cs : List CTx} {c : Nat}
    (h : InvOpen T fs m cs c) (ht : TailPre cfgOfSource fs m) (hns : NoLiveSplit cfgOfSource m fs.pv) (k : Nat)
    (hk : k < (ioSteps (compactA cfgOfSource m fs.pv fs.wf)).length) :
    let out := run (compactA cfgOfSource m fs.pv fs.wf) (.faultAt k) fs m
    Closed T (out.fs.crash .proc) ∧
    ∃ m' fs', recover cfgOfSource (out.fs.crash .proc) = .ok (m', fs') ∧ Spec.Content.same (content m' fs'.pv) (Spec.run T) := by
  intro out
  obtain ⟨_, h2, _, _⟩ := failed_compact (cfg := cfgOfSource) source_ok.1 C02.leafCap_pos h ht hns k hk
  obtain ⟨T', hT', hr⟩ := h2 .proc rfl
  simp only [List.mem_singleton] at hT'
  subst hT'
  have hcl : Closed T' (out.fs.crash .proc) := ⟨crash_flat _ _, hr⟩
  exact ⟨hcl, (C02.open_every_step hcl).2⟩

/-- **C08 (failed checkpoint-on-close is harmless)**: an I/O error at ANY I/O step of
    `checkpoint_on_close` (page sync, temporary file creation / writes / sync, rename, log sync) is
    reported, what the handle showed is unchanged, and every crash image of the files — process
    death (what a reopen on the same machine finds) or power loss, including a lost rename —
    represents the committed list: by `C02.open_every_step` the next open succeeds, shows exactly
    that list, and later commits are durable. -/
theorem failed_close_atomic {T : List Tx} {fs : FS} {m : Mem} {cs : List CTx} {c : Nat}
    (h : InvOpen T fs m cs c) (k : Nat) (hk : k < (ioSteps (closeA cfgOfSource m fs.pv fs.wf)).length) :
    let out := run (closeA cfgOfSource m fs.pv fs.wf) (.faultAt k) fs m
    out.err = some .io ∧
    Spec.Content.same (content out.mem out.fs.pv) (Spec.run T) ∧
    (∀ mode, Closed T (out.fs.crash mode)) := by
  intro out
  obtain ⟨h1, h2, h3⟩ := failed_close (cfg := cfgOfSource) h k hk
  refine ⟨h1, h3, ?_⟩
  intro mode
  obtain ⟨T', hT', hcl⟩ := closed_of_safe h2 mode
  simp only [List.mem_singleton] at hT'
  subst hT'
  exact hcl

/-! non-vacuity: the invariant and the hypotheses hold after `open; commit ex_tx1` on a fresh
    database, and the failing step 18 of the next commit is its log sync -/
example : (3 * (txRecs 3 1 C02.ex_tx2).length) = 18 := by decide

def runW (cfg : Cfg) (ops : List (Op × Stop)) : World :=
  ops.foldl (fun w o => (w.step cfg o.1 o.2).1) ⟨created cfg, none⟩

/-! non-vacuity of the compaction / close theorems: after `open; commit ex_tx1` the compaction has 55
    I/O steps (42 in the page phase), splits no leaf, an error at step 20 is reported, and an error
    at step 47 (a write of the second system record) leaves the 15 fragments of the log plus the 3 of the
    complete first record of the aborted block (the frame is rolled back, the block is unsynced
    and is discarded by the next BeginTx) -/
def exCompactFacts : Bool :=
  match (runW cfgOfSource [(.openOp, .none), (.commit C02.ex_tx1, .none)]).mem with
  | some m =>
    let fs := (runW cfgOfSource [(.openOp, .none), (.commit C02.ex_tx1, .none)]).fs
    decide (NoLiveSplit cfgOfSource m fs.pv) &&
    (ioSteps (compactA cfgOfSource m fs.pv fs.wf)).length == 55 &&
    (ioSteps (pagesA cfgOfSource m fs.pv).1).length == 42 &&
    (run (compactA cfgOfSource m fs.pv fs.wf) (.faultAt 20) fs m).err == some .io &&
    (run (compactA cfgOfSource m fs.pv fs.wf) (.faultAt 47) fs m).fs.wf.length == 18 &&
    (ioSteps (closeA cfgOfSource m fs.pv fs.wf)).length == 2
  | none => false

example : exCompactFacts = true := by decide

/-! counterexamples -/

/-- current tree, known finding C08-node-table-apply-failure: the error hits the first page write
    of the node-table phase (the log commit is already durable); `commit` returns Err, the next
    transaction logs the same internal node ids again, and the database cannot be opened any
    more (`non-dense internal id`). -/
theorem counterexample_node_table_phase :
    (match recover cfgOfSource (runW cfgOfSource
        [(.openOp, .none), (.commit C02.ex_tx1, .none), (.commit C02.ex_tx2, .faultAt 19),
         (.commit C02.ex_tx3, .none), (.drop, .none)]).fs with
      | .ok _ => none
      | .error e => some e) = some Err.nonDense := by decide

/-- pinned tree (fixed by 9d65a1f): the log sync fails after CommitTx was written; nothing is
    applied in memory, the next transaction reuses the internal ids, reopen fails. -/
theorem counterexample_pinned_fsync :
    (match recover C02.cfgPinned (runW C02.cfgPinned
        [(.openOp, .none), (.commit C02.ex_tx1, .none), (.commit C02.ex_tx2, .faultAt 18),
         (.commit C02.ex_tx3, .none), (.drop, .none)]).fs with
      | .ok _ => none
      | .error e => some e) = some Err.nonDense := by decide

/-- pinned tree (fixed by 9d65a1f): a write fails in the middle of a record; the torn frame stays
    in the log, the next — acknowledged — transaction is appended behind it and is only partly
    there after a reopen (its node from the node table; its property is gone). -/
theorem counterexample_pinned_torn_frame :
    (match recover C02.cfgPinned (runW C02.cfgPinned
        [(.openOp, .none), (.commit C02.ex_tx1, .none), (.commit C02.ex_tx2, .faultAt 1),
         (.commit C02.ex_tx3, .none), (.drop, .none)]).fs with
      | .ok (m, fs) => some (content m fs.pv)
      | .error _ => none) = some ⟨[1001, 3001], [1000], [10000]⟩ := by decide

end Nervus.Props.C08
