/-
  C19 — WHERE partitions rows by truth value.
  Statements only (helper lemmas live in Nervus.Proofs.Where).
  Model: `filterT` / `filterRow` (mirrors plan_iterators.rs FilterIter::next: `ensure…?`, evaluate,
  keep on `Bool(true)`), `Truth.not` / `Truth.isNull` (evaluator.rs `UnaryOperator::Not`,
  `BinaryOperator::IsNull`); the flag `filterNonBoolDrops` is regenerated from the source.
  Spec: Nervus.Spec.Streams (`keep`, `Sem.PredLawful`).  Generic in rows / values / expressions.
  Scope: plain filter positions (WHERE on MATCH, on WITH, after UNWIND): one `Plan::Filter` over the
  rows of the unfiltered query.  OPTIONAL MATCH's own WHERE is part of the pattern and excluded.
-/
import Nervus.Proofs.Where
import Nervus.Proofs.PlanInst
import Nervus.Proofs.WherePush
namespace Nervus.Props.C19
open Nervus Nervus.PlanOps Nervus.PlanInst Nervus.WherePush

section
variable {χ ρ ν ε κ α : Type}

/-- `where_partition`: if the predicate is boolean or null on every row, the rows kept by `p`,
    by `NOT p` and by `p IS NULL` are, together, exactly the input rows (as a multiset) — whatever
    the filter does with non-boolean values (`Q` arbitrary) -/
theorem where_partition (S : Sem χ ρ ν ε κ α) (Q : Quirks) (notE isNullE : χ → χ)
    (hS : S.PredLawful LimEnv.unlimited.coll notE isNullE) (env : ρ) (p : χ) (rows : List ρ)
    (hb : ∀ r ∈ rows, ∃ v, S.eval LimEnv.unlimited.coll p env r = .ok v ∧ (S.truth v).isBoolOrNull = true ∧
      S.park LimEnv.unlimited.coll p env r = none) :
    ∃ a b c, keep S Q env p rows = .ok a ∧ keep S Q env (notE p) rows = .ok b ∧
      keep S Q env (isNullE p) rows = .ok c ∧ (a ++ b ++ c).Perm rows := by
  induction rows with
  | nil => exact ⟨[], [], [], rfl, rfl, rfl, .nil⟩
  | cons r rows ih =>
    obtain ⟨a, b, c, ha, hb', hc, hperm⟩ := ih (fun r' h' => hb r' (List.mem_cons_of_mem _ h'))
    obtain ⟨v, hv, hbool, hpk⟩ := hb r List.mem_cons_self
    obtain ⟨w1, hw1, ht1⟩ := hS.not_ok p env r v hv
    obtain ⟨w2, hw2, ht2⟩ := hS.isNull_ok p env r v hv
    rw [keep_cons_of_truth S Q env p r rows v hv hpk,
      keep_cons_of_truth S Q env (notE p) r rows w1 hw1 (by rw [hS.not_park]; exact hpk),
      keep_cons_of_truth S Q env (isNullE p) r rows w2 hw2 (by rw [hS.isNull_park]; exact hpk), ht1, ht2, ha, hb', hc]
    cases htv : S.truth v with
    | tt => exact ⟨r :: a, b, c, rfl, rfl, rfl, by simpa using hperm⟩
    | ff =>
      refine ⟨a, r :: b, c, rfl, rfl, rfl, ?_⟩
      have : (a ++ r :: b ++ c).Perm (r :: (a ++ b ++ c)) := by
        simpa using (List.perm_middle (l₁ := a) (l₂ := b ++ c) (a := r))
      exact this.trans (hperm.cons r)
    | null =>
      refine ⟨a, b, r :: c, rfl, rfl, rfl, ?_⟩
      have : (a ++ b ++ r :: c).Perm (r :: (a ++ b ++ c)) := List.perm_middle
      exact this.trans (hperm.cons r)
    | other => rw [htv] at hbool; cases hbool

/-- on a tree whose Filter raises a type error for a non-boolean predicate: whenever the three
    filtered queries answer at all, their answers partition the input rows — no hypothesis on `p` -/
theorem where_partition_of_success (S : Sem χ ρ ν ε κ α) (Q : Quirks) (hq : Q.filterNonBoolDrops = false)
    (notE isNullE : χ → χ) (hS : S.PredLawful LimEnv.unlimited.coll notE isNullE) (env : ρ) (p : χ)
    (rows a b c : List ρ) (ha : keep S Q env p rows = .ok a) (hb : keep S Q env (notE p) rows = .ok b)
    (hc : keep S Q env (isNullE p) rows = .ok c) : (a ++ b ++ c).Perm rows := by
  -- success of `WHERE p` means every row's predicate evaluated to a boolean or null
  have hbool : ∀ r ∈ rows, ∃ v, S.eval LimEnv.unlimited.coll p env r = .ok v ∧ (S.truth v).isBoolOrNull = true ∧
      S.park LimEnv.unlimited.coll p env r = none := by
    clear hb hc
    induction rows generalizing a with
    | nil => intro r h; cases h
    | cons r rows ih =>
      cases hv : S.eval LimEnv.unlimited.coll p env r with
      | error e => obtain ⟨e', he'⟩ := keep_cons_of_error S Q env p r rows e hv; rw [he'] at ha; cases ha
      | ok v =>
        cases hpk : S.park LimEnv.unlimited.coll p env r with
        | some e => rw [keep_cons_of_park S Q env p r rows e hpk] at ha; cases ha
        | none =>
        rw [keep_cons_of_truth S Q env p r rows v hv hpk] at ha
        have key : (S.truth v).isBoolOrNull = true ∧ ∃ a', keep S Q env p rows = .ok a' := by
          cases htv : S.truth v with
          | tt =>
            rw [htv] at ha
            cases hk : keep S Q env p rows with
            | error e => rw [hk] at ha; cases ha
            | ok a' => exact ⟨rfl, a', rfl⟩
          | ff => rw [htv] at ha; exact ⟨rfl, a, ha⟩
          | null => rw [htv] at ha; exact ⟨rfl, a, ha⟩
          | other => rw [htv] at ha; simp [hq] at ha
        obtain ⟨hb1, a', ha'⟩ := key
        intro r' hr'
        rcases List.mem_cons.1 hr' with rfl | hr'
        · exact ⟨v, hv, hb1, hpk⟩
        · exact ih a' ha' r' hr'
  obtain ⟨a', b', c', ha', hb', hc', hperm⟩ := where_partition S Q notE isNullE hS env p rows hbool
  rw [ha] at ha'; rw [hb] at hb'; rw [hc] at hc'
  injection ha' with ha'; injection hb' with hb'; injection hc' with hc'
  subst ha' hb' hc'
  exact hperm

/-- the same at plan level, for ANY input plan: `… WHERE p` is `Plan::Filter` over the plan of the
    unfiltered query -/
theorem where_partition_plan [DecidableEq κ] (S : Sem χ ρ ν ε κ α) (Q : Quirks) (notE isNullE : χ → χ)
    (hS : S.PredLawful LimEnv.unlimited.coll notE isNullE) (params : ρ) (inp : Plan χ ρ ε α) (p : χ)
    (rows : List ρ) (hin : execute S Q .unlimited params inp = .ok rows)
    (hb : ∀ r ∈ rows, ∃ v, S.eval LimEnv.unlimited.coll p params r = .ok v ∧ (S.truth v).isBoolOrNull = true ∧
      S.park LimEnv.unlimited.coll p params r = none) :
    ∃ a b c, execute S Q .unlimited params (.filter p inp) = .ok a ∧
      execute S Q .unlimited params (.filter (notE p) inp) = .ok b ∧
      execute S Q .unlimited params (.filter (isNullE p) inp) = .ok c ∧ (a ++ b ++ c).Perm rows := by
  have hs : runL S Q .unlimited (.left .root) params inp = rows.map .ok := by
    have : runL S Q .unlimited .root params inp = rows.map .ok := (collect_eq_ok_iff _ _).1 hin
    -- the stream of a node does not depend on its site when nothing is limited
    exact (runL_unlimited_site S Q inp _ _ params).trans this
  have hk : ∀ q, execute S Q .unlimited params (.filter q inp) = keep S Q params q rows := by
    intro q
    simp only [execute, runL, guard_unlimited, hs, keep, dropErrT_run_ok]
  simp only [hk]
  exact where_partition S Q notE isNullE hS params p rows hb

end

/-- the working tree's Filter (flag regenerated from the source) -/
theorem filter_repaired : Quirks.current.filterNonBoolDrops = false := by decide

/-- **C19 (full strength)** on the working tree, for every instantiation with lawful `NOT` /
    `IS NULL`, every predicate and every list of rows: if the three filtered queries answer, their
    answers together are exactly the rows of the unfiltered query. -/
theorem C19_full {χ ρ ν ε κ α : Type} (S : Sem χ ρ ν ε κ α) (notE isNullE : χ → χ)
    (hS : S.PredLawful LimEnv.unlimited.coll notE isNullE) (env : ρ) (p : χ) (rows a b c : List ρ)
    (ha : keep S Quirks.current env p rows = .ok a) (hb : keep S Quirks.current env (notE p) rows = .ok b)
    (hc : keep S Quirks.current env (isNullE p) rows = .ok c) : (a ++ b ++ c).Perm rows :=
  where_partition_of_success S _ filter_repaired notE isNullE hS env p rows a b c ha hb hc

/-! ### the planner side: WHERE pushdown after a MATCH (Model/WherePush.lean) -/

/-- **filter placement preserves the predicate**: pushing the equality conjuncts of the WHERE down
    (ONE value per (alias, property): a repeated equality overwrites the earlier one; inline pattern
    maps overlaid) and keeping the FULL predicate in the final filter selects exactly the rows that
    satisfy the inline pattern map and on which the WHERE is true — for every WHERE skeleton, every
    inline map, every row, whatever the pushed-down filters do with rows on which their equality is
    not true (`hsound`: they keep at least the rows on which it is true) -/
theorem pushdown_preserves_predicate {χ κ ρ : Type} (S : WSem χ κ ρ)
    (hsound : ∀ k c r, S.eqT k c r = .tt → S.pushKeeps k c r = true)
    (w : W χ κ) (inline : PMap κ) (r : ρ) :
    compiledKeeps S true w inline r ↔ (PushedKeeps S inline r ∧ tv S w r = .tt) := by
  simp only [compiledKeeps, if_true]
  constructor
  · rintro ⟨hp, ht⟩
    refine ⟨fun k c hk => hp k c ?_, ht⟩
    simp [overlay, hk]
  · rintro ⟨hi, ht⟩
    refine ⟨fun k c hk => ?_, ht⟩
    simp only [overlay] at hk
    cases hik : inline k with
    | some c' =>
      rw [hik] at hk
      simp only [Option.orElse] at hk
      injection hk with hk; subst hk
      exact hi k c' hik
    | none =>
      rw [hik] at hk
      simp only [Option.orElse] at hk
      rcases extract_entries w PMap.empty k c hk with h | h
      · cases h
      · exact hsound k c r (conj_true S w r ht k c h)

/-- the working tree's final filter carries the full WHERE expression (regenerated flag) -/
theorem where_filter_keeps_full : keepsFullCurrent = true := by decide

/-- on the working tree -/
theorem C19_pushdown {χ κ ρ : Type} (S : WSem χ κ ρ)
    (hsound : ∀ k c r, S.eqT k c r = .tt → S.pushKeeps k c r = true)
    (w : W χ κ) (inline : PMap κ) (r : ρ) :
    compiledKeeps S keepsFullCurrent w inline r ↔ (PushedKeeps S inline r ∧ tv S w r = .tt) := by
  rw [where_filter_keeps_full]; exact pushdown_preserves_predicate S hsound w inline r

/-! ### where a pushed-down filter may be placed (free variables) -/

/-- a variable walker that descends into every expression variant finds every free variable
    (binders of quantifiers / reduce / comprehensions respected) -/
theorem walker_finds_free_variables (descends : EKind → Bool) (hall : ∀ k, descends k = true) (e : VE) :
    ∀ x ∈ e.free, x ∈ e.walker descends :=
  walker_complete descends hall e

/-- **pushdown_sound**: a hop-level filter `alias.prop = value` placed where the planner's walker
    sees only bound variables has all its FREE variables bound — only under the hypothesis that the
    walker's result contains the true free variables of the value -/
theorem pushdown_sound (descends : EKind → Bool) (bound : List String) (value : VE)
    (hsup : ∀ x ∈ value.free, x ∈ value.walker descends)
    (hallowed : placementAllowed descends bound value) : ScopeSound bound value :=
  placement_sound descends bound value hsup hallowed

/-- and then evaluating it there agrees with evaluating it on the completed row (so a conjunct
    that is true at the end is kept at the hop: the `hsound` hypothesis of `C19_pushdown`) -/
theorem pushdown_early_evaluation_agrees {ν β : Type} (eval : (String → Option ν) → β) (value : VE)
    (hreads : ∀ r1 r2 : String → Option ν, (∀ x ∈ value.free, r1 x = r2 x) → eval r1 = eval r2)
    (bound : List String) (hscope : ScopeSound bound value)
    (early full : String → Option ν) (hext : ∀ x ∈ bound, early x = full x) : eval early = eval full :=
  early_evaluation_agrees eval value hreads bound hscope early full hext

/-- the working tree (both facts regenerated from ast_walk.rs): the values pushed down are literals
    and parameters only — no free variable at all — or else the walker must descend into EVERY
    variant of `ast::Expression` -/
theorem pushdown_scope_current :
    (∀ k ∈ Generated.pushdownValueKinds, k = "Literal" ∨ k = "Parameter") ∨
    (∀ k ∈ EKind.all, walkerDescendsCurrent k = true) := by decide

/-- a walker without an arm for CASE: `a.k = CASE WHEN b.k > 1 THEN 1 ELSE 0 END` may be placed
    right after the scan of `a`, although `b` is free in it -/
theorem C19_counterexample_incomplete_walker :
    placementAllowed (fun k => k != EKind.case) ["a"] (VE.node .case [] (VE.leaf ["b"]) (VE.leaf [])) ∧
    ¬ ScopeSound ["a"] (VE.node .case [] (VE.leaf ["b"]) (VE.leaf [])) := by
  constructor
  · intro x hx; simp [VE.walker] at hx
  · intro h
    have := h "b" (by simp [VE.free])
    simp at this

/-- rows are the value of `n.x`; `n.x = c` is true iff the value is `c` -/
def xSem : WSem Unit Nat Nat where
  eqT _ c r := if r = c then .tt else .ff
  otherT _ _ := .null
  pushKeeps _ c r := r == c

/-- `WHERE n.x = 1 AND n.x = 2` -/
def wTwoEq : W Unit Nat := .and (.eqProp ("n", "x") 1) (.eqProp ("n", "x") 2)

/-- a final filter that strips the pushed-down conjuncts ("residual predicate") is wrong exactly
    because the map keeps one value per key: the row with `x = 2` passes `WHERE n.x = 1 AND n.x = 2` -/
theorem C19_counterexample_residual_filter :
    compiledKeeps xSem false wTwoEq PMap.empty 2 ∧ tv xSem wTwoEq 2 ≠ .tt := by
  refine ⟨⟨fun k c hk => ?_, ?_⟩, by decide⟩
  · simp only [overlay, PMap.empty, Option.orElse, wTwoEq, extract, PMap.insert] at hk
    split at hk
    · injection hk with hk; subst hk; rfl
    · cases hk
  · simp [wTwoEq, residual, extract, PMap.insert, PMap.empty]

/-- the same row and WHERE with the full predicate in the final filter: rejected -/
example : ¬ compiledKeeps xSem true wTwoEq PMap.empty 2 := by
  rintro ⟨_, h⟩
  simp only [if_true] at h
  exact absurd h (by decide)

/-! ### witnesses on the concrete instance (replayed on the engine: corpus/plan/c19-*.ops) -/

/-- rows `x = 5, true, false, null, 'str'` and the predicate `x` -/
def rowsX : List DRow :=
  [[("x", dint 5)], [("x", dbool true)], [("x", dbool false)], [("x", dnull)], [("x", .s (.str "str"))]]

/-- pinned tree: `WHERE x`, `WHERE NOT x`, `WHERE x IS NULL` keep one row each: the rows with
    `x = 5` and `x = 'str'` are in none of the three answers -/
theorem C19_counterexample_nonboolean :
    keep dsem Quirks.pinned [] (.var "x") rowsX = .ok [[("x", dbool true)]] ∧
    keep dsem Quirks.pinned [] (.not (.var "x")) rowsX = .ok [[("x", dbool false)]] ∧
    keep dsem Quirks.pinned [] (.isNull (.var "x")) rowsX = .ok [[("x", dnull)]] ∧
    ¬ ([[("x", dbool true)]] ++ [[("x", dbool false)]] ++ [[("x", dnull)]] : List DRow).Perm rowsX := by
  refine ⟨by decide, by decide, by decide, fun h => ?_⟩
  have := h.length_eq
  simp [rowsX] at this

/-- repaired tree: the first query fails with the type error instead -/
example : keep dsem Quirks.repaired [] (.var "x") rowsX = .error .runtime := by decide

/-- non-vacuity of `where_partition`: a boolean-or-null predicate (`x = 5`) over the same rows -/
example : (rowsX.all fun r =>
    match dsem.eval LimEnv.unlimited.coll (.eq (.var "x") (.lit (dint 5))) [] r with
    | .ok v => (dsem.truth v).isBoolOrNull
    | .error _ => false) = true := by decide
example : keep dsem Quirks.pinned [] (.eq (.var "x") (.lit (dint 5))) rowsX = .ok [[("x", dint 5)]] := by decide

end Nervus.Props.C19
