/-
  C21 — Aggregates agree with their definitions.   Statements only (lemmas live in Nervus.Proofs.*).

  Model: `Nervus.Model.Agg` (mirrors `execute_aggregate` of projection_sort.rs after the `fix:` commit for
  `sum`; the pinned wrap-around is kept as `Agg.Pinned`).  Every aggregate is a function of the list of values
  its argument takes on the rows of one group, in row order; theorems quantify over ALL such lists and over
  every float arithmetic / environment.
-/
import Nervus.Proofs.Agg
import Nervus.Proofs.KeyCompare
set_option exponentiation.threshold 4096
namespace Nervus.Props.C21
open Nervus Nervus.Eval Nervus.Agg Nervus.Spec Value

/-- **C21 at full strength** (NOT provable, see `counterexample_nan_groups`): every non-null value of a group
    has a representative in the DISTINCT set (equivalently: one group per grouping key), for all values. -/
def C21_full : Prop := ∀ (vs : List Value), ∀ x ∈ vs, x.isNull = false → ∃ e ∈ distinctVals vs, deq e x = true

/-! ### count, collect -/

theorem count_star_is_length (vs : List Value) : countStar vs = .int vs.length := rfl
theorem count_is_non_null (vs : List Value) : count vs = .int (Spec.nonNull vs).length := rfl
theorem collect_is_filter (vs : List Value) : collect vs = .list (Spec.nonNull vs) := rfl

/-! ### sum: ONE overflow rule, the same as `+` -/

/-- a Float among the values ⇒ the Float fold; otherwise the exact integer total when it fits an i64, else
    the Float fold (`Spec.intRule`, the rule of `numeric_binop`) -/
theorem sum_overflow_rule (F : FArith) (vs : List Value) :
    Agg.sum F vs = if vs.any isFloatV then .float (ffold F vs) else Spec.intRule (Spec.intSum vs) (ffold F vs) :=
  sum_spec F vs
/-- **sum never silently wraps**: an integer result is the exact sum in ℤ -/
theorem sum_exact_or_float (F : FArith) (vs : List Value) (s : Int) (h : Agg.sum F vs = .int s) :
    s = Spec.intSum vs ∧ Spec.i64Min ≤ s ∧ s ≤ Spec.i64Max :=
  sum_never_wraps F vs s h
/-- sum = folding the group with the Cypher `+` from 0 — integer groups whose running totals fit an i64 … -/
theorem sum_is_fold_of_add_ints (E : Env) (vs : List Value) (h : prefixOk 0 vs = true) :
    Agg.sum E.F vs = vs.foldl (fun a v => evalBin E .add a v) (.int 0) :=
  sum_eq_fold_add_ints E vs h
/-- … and float groups (the empty group gives 0). -/
theorem sum_is_fold_of_add_floats (E : Env) (vs : List Value) (h : vs.all isFloatV = true) :
    Agg.sum E.F vs = vs.foldl (fun a v => evalBin E .add a v) (.int 0) :=
  sum_eq_fold_add_floats E vs h
/-- nulls and non-numbers do not contribute -/
theorem sum_distinct_def (F : FArith) (vs : List Value) : sumDistinct F vs = Agg.sum F (distinctVals vs) := rfl

/-! ### avg -/

/-- avg = (float sum of the numbers, integers cast) / count; `null` iff the group has no number -/
theorem avg_def (F : FArith) (vs : List Value) :
    avg F vs = if (vs.filterMap asF64).isEmpty then .null
      else .float (F.div ((vs.filterMap asF64).foldl F.add negZero) (castF (vs.filterMap asF64).length)) := rfl

/-! ### min / max: least / greatest w.r.t. `order_compare` -/

/-- on every group outside the C20 triggers `min` is a non-null element of the group that is not greater
    than any other non-null element (`Iterator::min_by`: the first such element) -/
theorem min_is_least (E : Env) (vs : List Value) (h : ordOK E (Spec.nonNull vs) = true) (m : Value)
    (hm : minBy (orderCompare E) (Spec.nonNull vs) = some m) :
    m ∈ Spec.nonNull vs ∧ ∀ x ∈ Spec.nonNull vs, orderCompare E m x ≠ .gt :=
  minBy_spec (orderCompare E) (orderCompare_lawsOn E _ h) _ (fun _ hx => hx) m hm
theorem max_is_greatest (E : Env) (vs : List Value) (h : ordOK E (Spec.nonNull vs) = true) (m : Value)
    (hm : maxBy (orderCompare E) (Spec.nonNull vs) = some m) :
    m ∈ Spec.nonNull vs ∧ ∀ x ∈ Spec.nonNull vs, orderCompare E x m ≠ .gt :=
  maxBy_spec (orderCompare E) (orderCompare_lawsOn E _ h) _ (fun _ hx => hx) m hm
theorem min_def (E : Env) (vs : List Value) : Agg.min E vs = (minBy (orderCompare E) (Spec.nonNull vs)).getD .null := rfl
theorem max_def (E : Env) (vs : List Value) : Agg.max E vs = (maxBy (orderCompare E) (Spec.nonNull vs)).getD .null := rfl
/-- the general fact: `min_by` / `max_by` return a least / greatest element for ANY total preorder -/
theorem min_max_of_total_preorder {α : Type} (cmp : α → α → Ordering) (P : α → Prop) (h : CmpLawsOn cmp P)
    (xs : List α) (hP : ∀ x ∈ xs, P x) :
    (∀ m, minBy cmp xs = some m → m ∈ xs ∧ ∀ x ∈ xs, cmp m x ≠ .gt) ∧
    (∀ m, maxBy cmp xs = some m → m ∈ xs ∧ ∀ x ∈ xs, cmp x m ≠ .gt) :=
  ⟨fun m hm => minBy_spec cmp h xs hP m hm, fun m hm => maxBy_spec cmp h xs hP m hm⟩

/-! ### DISTINCT = first representatives w.r.t. the engine's `==` -/

theorem distinct_sound (vs : List Value) : ∀ x ∈ distinctVals vs, x ∈ vs ∧ x.isNull = false := by
  intro x hx
  rcases dedupInto_sub vs [] x hx with h | h
  · simp at h
  · exact h
theorem distinct_no_duplicates (vs : List Value) : (distinctVals vs).Pairwise (fun a b => deq a b = false) :=
  dedupInto_pairwise vs [] List.Pairwise.nil
/-- **C21_partial (DISTINCT)**: every non-null value without NaN inside has a representative -/
theorem distinct_complete_partial (vs : List Value) (x : Value) (hx : x ∈ vs) (hn : x.isNull = false)
    (hnan : hasNaN x = false) : ∃ e ∈ distinctVals vs, deq e x = true :=
  dedupInto_complete vs [] x hx hn (deq_refl_of_noNaN x hnan)
theorem collect_distinct_def (vs : List Value) : collectDistinct vs = .list (distinctVals vs) := rfl
theorem count_distinct_def (vs : List Value) : countDistinct vs = .int (distinctVals vs).length := rfl

/-! ### grouping: exactly one output row per key of the partition -/

/-- no row is lost or duplicated -/
theorem groups_preserve_rows {α : Type} (rows : List (List Value × α)) (hr : rows ≠ []) :
    (allRows (groupRows false rows)).Perm (rows.map Prod.snd) := by
  rw [groupRows_eq_fold rows hr]
  simpa [allRows] using groupFold_rows rows []
/-- every group contains only rows of its own key -/
theorem groups_key_homogeneous {α : Type} (rows : List (List Value × α)) (hr : rows ≠ []) :
    ∀ kr ∈ groupRows false rows, ∀ r ∈ kr.2, (kr.1, r) ∈ rows := by
  rw [groupRows_eq_fold rows hr]
  exact groupFold_homog rows rows [] (fun _ h => h) (fun kr h => by simp at h)
/-- **C21_partial (grouping)**: when no grouping key contains a NaN, different groups have different keys —
    together with the two facts above: one output row per key, holding exactly the rows of that key -/
theorem groups_one_per_key_partial {α : Type} (rows : List (List Value × α)) (hr : rows ≠ [])
    (hk : ∀ kr ∈ rows, hasNaN (.list kr.1) = false) : ((groupRows false rows).map Prod.fst).Nodup := by
  rw [groupRows_eq_fold rows hr]
  exact groupFold_nodup rows [] (fun kr h => deqList_refl kr.1 (hk kr h)) List.nodup_nil
/-- Cypher: an aggregation without grouping keys over no rows still yields one row -/
theorem no_keys_empty_input {α : Type} : groupRows true ([] : List (List Value × α)) = [([], [])] := rfl

/-! ### non-vacuity -/

def F0 : FArith := ⟨fun a b => a + b, fun a _ => a, fun a _ => a, fun a _ => a, fun a _ => a, fun a _ => a⟩
def E0 : Env := ⟨F0, fun _ => none, fun _ => false, fun _ _ => .null, fun _ _ => .null, fun _ _ _ => .null⟩
example : Agg.sum F0 [.int 9223372036854775807, .null, .int (-2), .str [0x61]] = .int 9223372036854775805 := by decide
/-- overflow ⇒ Float (here with a dummy float addition), in range again ⇒ exact Int: the total decides -/
example : isFloatV (Agg.sum F0 [.int 9223372036854775807, .int 1]) = true ∧
    Agg.sum F0 [.int 9223372036854775807, .int 1, .int (-2)] = .int 9223372036854775806 := by decide
example : prefixOk 0 [.int 9223372036854775806, .int 1, .int (-5)] = true := by decide
example : ordOK E0 (Spec.nonNull [.int 3, .null, .float 0x3FF0000000000000, .str [0x61]]) = true := by decide
example : Agg.min E0 [.int 3, .null, .float 0x3FF0000000000000] = .float 0x3FF0000000000000 ∧
    Agg.max E0 [.int 1, .float 0x3FF0000000000000] = .float 0x3FF0000000000000 := by decide
example : distinctVals [.int 1, .null, .float 0x3FF0000000000000, .int 1, .float 0x8000000000000000, .float 0]
    = [.int 1, .float 0x3FF0000000000000, .float 0x8000000000000000] := by decide
example : (groupRows false [([.int 1], "a"), ([.str [0x78]], "b"), ([.int 1], "c")])
    = [([.int 1], ["a", "c"]), ([.str [0x78]], ["b"])] := by decide

/-! ### counterexamples -/

/-- **fixed finding (pinned tree)**: `sum([i64::MAX, 1])` wrapped to `i64::MIN` (`as i64` of the i128 total),
    for every float arithmetic -/
theorem counterexample_pinned_sum_wraps (F : FArith) :
    Agg.Pinned.sum F [.int 9223372036854775807, .int 1] = .int (-9223372036854775808) := by
  rw [pinned_sum_spec F _ (by decide)]; decide

/-- **known finding C21-nan-grouping**: `==` on values is the derived `PartialEq` (NaN ≠ NaN): two NaN rows
    make two groups for the one key, and DISTINCT keeps both -/
theorem counterexample_nan_groups :
    (groupRows false [([.float 0x7FF8000000000000], 0), ([.float 0x7FF8000000000000], 1)]).length = 2 ∧
    distinctVals [.float 0x7FF8000000000000, .float 0x7FF8000000000000]
      = [.float 0x7FF8000000000000, .float 0x7FF8000000000000] := by decide

theorem not_C21_full : ¬ C21_full := by
  intro h
  obtain ⟨e, he, hd⟩ := h [.float 0x7FF8000000000000] (.float 0x7FF8000000000000) (by simp) rfl
  have : e = .float 0x7FF8000000000000 := by
    have := (distinct_sound _ e he).1
    simpa using this
  subst this
  revert hd; decide

end Nervus.Props.C21
