/-
  C21 — Aggregates agree with their definitions.   Statements only (lemmas live in Nervus.Proofs.*).

  Model: `Nervus.Model.Agg` (mirrors `execute_aggregate` of projection_sort.rs after the `fix:` commit for
  `sum`; the pinned wrap-around is kept as `Agg.Pinned`).  Every aggregate is a function of the list of values
  its argument takes on the rows of one group, in row order; theorems quantify over ALL such lists and over
  every float arithmetic / environment.
-/
import Nervus.Proofs.Agg
import Nervus.Proofs.KeyEq
import Nervus.Proofs.KeyCompare
set_option exponentiation.threshold 4096
namespace Nervus.Props.C21
open Nervus Nervus.Eval Nervus.Agg Nervus.Spec Value

/-- **C21 at full strength** — provable after the `fix:` commits: for ALL value lists every non-null value of a
    group has exactly one representative in the DISTINCT set, w.r.t. the engine's equality made reflexive
    (`keyEq`; the grouping statement is `groups_one_per_key`). -/
theorem C21_full (vs : List Value) :
    (∀ x ∈ vs, x.isNull = false → ∃ e ∈ distinctVals vs, keyEq e x = true) ∧
    (distinctVals vs).Pairwise (fun a b => keyEq a b = false) :=
  ⟨fun x hx hn => dedupInto_complete vs [] x hx hn, dedupInto_pairwise vs [] List.Pairwise.nil⟩

/-! ### count, collect -/

theorem count_star_is_length (vs : List Value) : countStar vs = .int vs.length := rfl
theorem count_is_non_null (vs : List Value) : count vs = .int (Spec.nonNull vs).length := rfl
theorem collect_is_filter (vs : List Value) : collect vs = .list (Spec.nonNull vs) := rfl

/-- the counts do not depend on the order in which the rows of a group arrive (hash-map iteration order,
    scan order): any permutation of the group's values gives the same `count(*)`, `count(x)`, and the same
    MULTISET of collected values -/
theorem counts_order_independent (vs ws : List Value) (h : vs.Perm ws) :
    countStar vs = countStar ws ∧ count vs = count ws ∧ (Spec.nonNull vs).Perm (Spec.nonNull ws) := by
  refine ⟨?_, ?_, h.filter _⟩
  · simp only [countStar, h.length_eq]
  · have := (h.filter (fun v => !v.isNull)).length_eq
    simp only [count, Agg.nonNull, this]

/-! ### sum: ONE overflow rule, the same as `+` -/

/-- a Float among the values ⇒ the Float fold; otherwise the exact integer total when it fits an i64, else
    the Float fold (`Spec.intRule`, the rule of `numeric_binop`) -/
theorem sum_overflow_rule (F : FArith) (vs : List Value) :
    Agg.sum F vs = if vs.any isFloatV then .float (ffold F vs) else Spec.intRule (Spec.intSum vs) (ffold F vs) :=
  sum_spec F vs
/-- **sum never silently wraps**: an integer result is the exact sum in ℤ -/
theorem sum_exact_or_float (F : FArith) (vs : List Value) (s : Int) (h : Agg.sum F vs = .int s) :
    s = Spec.intSum vs ∧ Spec.i64Min ≤ s ∧ s ≤ Spec.i64Max :=
  sum_never_wraps F vs s h
/-- sum = folding the group with the Cypher `+` from 0 — integer groups whose running totals fit an i64 … -/
theorem sum_is_fold_of_add_ints (E : Env) (vs : List Value) (h : prefixOk 0 vs = true) :
    Agg.sum E.F vs = vs.foldl (fun a v => evalBin E .add a v) (.int 0) :=
  sum_eq_fold_add_ints E vs h
/-- … and float groups (the empty group gives 0). -/
theorem sum_is_fold_of_add_floats (E : Env) (vs : List Value) (h : vs.all isFloatV = true) :
    Agg.sum E.F vs = vs.foldl (fun a v => evalBin E .add a v) (.int 0) :=
  sum_eq_fold_add_floats E vs h
/-- nulls and non-numbers do not contribute -/
theorem sum_distinct_def (F : FArith) (vs : List Value) : sumDistinct F vs = Agg.sum F (distinctVals vs) := rfl

/-! ### avg -/

/-- avg = (float sum of the numbers, integers cast) / count; `null` iff the group has no number -/
theorem avg_def (F : FArith) (vs : List Value) :
    avg F vs = if (vs.filterMap asF64).isEmpty then .null
      else .float (F.div ((vs.filterMap asF64).foldl F.add negZero) (castF (vs.filterMap asF64).length)) := rfl

/-! ### min / max: least / greatest w.r.t. `order_compare` -/

/-- the source calls `min_by` / `max_by` with `order_compare` itself at all four sites (plain and DISTINCT): min/max,
    ORDER BY and `<` share one comparator (regenerated table `Comparators`) -/
theorem minmax_uses_order_compare : Generated.minMaxUseOrderCompare = true := by decide


/-- on every group outside the C20 triggers `min` is a non-null element of the group that is not greater
    than any other non-null element (`Iterator::min_by`: the first such element) -/
theorem min_is_least (E : Env) (vs : List Value) (h : ordOK E (Spec.nonNull vs) = true) (m : Value)
    (hm : minBy (orderCompare E) (Spec.nonNull vs) = some m) :
    m ∈ Spec.nonNull vs ∧ ∀ x ∈ Spec.nonNull vs, orderCompare E m x ≠ .gt :=
  minBy_spec (orderCompare E) (orderCompare_lawsOn E _ h) _ (fun _ hx => hx) m hm
theorem max_is_greatest (E : Env) (vs : List Value) (h : ordOK E (Spec.nonNull vs) = true) (m : Value)
    (hm : maxBy (orderCompare E) (Spec.nonNull vs) = some m) :
    m ∈ Spec.nonNull vs ∧ ∀ x ∈ Spec.nonNull vs, orderCompare E x m ≠ .gt :=
  maxBy_spec (orderCompare E) (orderCompare_lawsOn E _ h) _ (fun _ hx => hx) m hm
theorem min_def (E : Env) (vs : List Value) : Agg.min E vs = (minBy (orderCompare E) (Spec.nonNull vs)).getD .null := rfl
theorem max_def (E : Env) (vs : List Value) : Agg.max E vs = (maxBy (orderCompare E) (Spec.nonNull vs)).getD .null := rfl
/-- the general fact: `min_by` / `max_by` return a least / greatest element for ANY total preorder -/
theorem min_max_of_total_preorder {α : Type} (cmp : α → α → Ordering) (P : α → Prop) (h : CmpLawsOn cmp P)
    (xs : List α) (hP : ∀ x ∈ xs, P x) :
    (∀ m, minBy cmp xs = some m → m ∈ xs ∧ ∀ x ∈ xs, cmp m x ≠ .gt) ∧
    (∀ m, maxBy cmp xs = some m → m ∈ xs ∧ ∀ x ∈ xs, cmp x m ≠ .gt) :=
  ⟨fun m hm => minBy_spec cmp h xs hP m hm, fun m hm => maxBy_spec cmp h xs hP m hm⟩

/-! ### DISTINCT = first representatives w.r.t. the engine's equality -/

/-- the equivalence: `keyEq` is the kernel of the normalisation (one NaN, −0.0 → +0.0), hence an equivalence
    relation on ALL values … -/
theorem keyEq_equivalence (a b c : Value) :
    keyEq a a = true ∧ keyEq a b = keyEq b a ∧ (keyEq a b = true → keyEq b c = true → keyEq a c = true) :=
  ⟨keyEq_refl a, keyEq_symm a b, fun h1 h2 => keyEq_trans h1 h2⟩
/-- … that contains the engine's `==` (so DISTINCT merges everything `==` / Cypher `=` merges: ±0.0 too) -/
theorem keyEq_contains_engine_eq (a b : Value) (wa : a.wf = true) (wb : b.wf = true) (h : deq a b = true) :
    keyEq a b = true := keyEq_of_deq a b wa wb h
theorem distinct_sound (vs : List Value) : ∀ x ∈ distinctVals vs, x ∈ vs ∧ x.isNull = false := by
  intro x hx
  rcases dedupInto_sub vs [] x hx with h | h
  · simp at h
  · exact h
theorem distinct_no_duplicates (vs : List Value) : (distinctVals vs).Pairwise (fun a b => keyEq a b = false) :=
  dedupInto_pairwise vs [] List.Pairwise.nil
/-- every non-null value (NaN included) has a representative -/
theorem distinct_complete (vs : List Value) (x : Value) (hx : x ∈ vs) (hn : x.isNull = false) :
    ∃ e ∈ distinctVals vs, keyEq e x = true :=
  dedupInto_complete vs [] x hx hn
theorem collect_distinct_def (vs : List Value) : collectDistinct vs = .list (distinctVals vs) := rfl
theorem count_distinct_def (vs : List Value) : countDistinct vs = .int (distinctVals vs).length := rfl

/-! ### hash-based de-duplication / grouping is only correct when the hash respects the equality -/

/-- a `HashSet`/`HashMap` keyed de-duplication computes the same DISTINCT set as the scan by `eq` whenever
    `eq a b → hash a = hash b` (any element type, any hash) -/
theorem hash_dedup_correct_if_respects {α H : Type} [DecidableEq H] (h : α → H) (eq : α → α → Bool)
    (hr : ∀ a b, eq a b = true → h a = h b) (vs : List α) :
    hashDedupInto h eq [] vs = eqDedupInto eq [] vs :=
  hashDedup_eq_of_respects h eq hr vs []
/-- `impl Hash for Value` (floats by `to_bits()`) does NOT respect the derived `==`: 0.0 == −0.0, different hash
    input — alone and nested in lists and maps -/
theorem vhash_does_not_respect_eq :
    deq (.float 0) (.float 0x8000000000000000) = true ∧ vhash (.float 0) ≠ vhash (.float 0x8000000000000000) ∧
    deq (.list [.float 0]) (.list [.float 0x8000000000000000]) = true ∧
    vhash (.list [.float 0]) ≠ vhash (.list [.float 0x8000000000000000]) ∧
    deq (.map [([0x61], .float 0)]) (.map [([0x61], .float 0x8000000000000000)]) = true ∧
    vhash (.map [([0x61], .float 0)]) ≠ vhash (.map [([0x61], .float 0x8000000000000000)]) := by decide
/-- hence de-duplicating `Value`s through a `HashSet<Value>` (the seeded change C21-seed1) is wrong:
    {0.0, −0.0, 3.0} keeps three values where DISTINCT by `==` keeps two -/
theorem counterexample_hash_dedup_zero_signs :
    (hashDedupInto vhash deq [] [.float 0, .float 0x8000000000000000, .float 0x4008000000000000]).length = 3 ∧
    (eqDedupInto deq [] [.float 0, .float 0x8000000000000000, .float 0x4008000000000000]).length = 2 ∧
    (distinctVals [.float 0, .float 0x8000000000000000, .float 0x4008000000000000]).length = 2 := by decide
/-- on the NORMALISED grouping keys the hash does respect the key equality (what makes `HashMap<GroupKey, _>`
    a function of `keyEq`) -/
theorem grouping_hash_respects_key (a b : Value) (h : keyEq a b = true) : vhash (norm a) = vhash (norm b) :=
  vhash_respects_keyEq a b h

/-! ### grouping: exactly one output row per key of the partition -/

/-- no row is lost or duplicated -/
theorem groups_preserve_rows {α : Type} (rows : List (List Value × α)) (hr : rows ≠ []) :
    (allRows (groupRows false rows)).Perm (rows.map Prod.snd) := by
  rw [groupRows_eq_fold rows hr]
  simpa [allRows] using groupFold_rows rows []
/-- every row of a group has a key equivalent to the group's key -/
theorem groups_key_homogeneous {α : Type} (rows : List (List Value × α)) (hr : rows ≠ []) :
    ∀ kr ∈ groupRows false rows, ∀ r ∈ kr.2, ∃ k, (k, r) ∈ rows ∧ groupKeyEq k kr.1 = true := by
  rw [groupRows_eq_fold rows hr]
  intro kr hkr r hr'
  obtain ⟨k, hk, he⟩ := groupFold_homog rows rows [] (fun _ h => h) (fun kr h => by simp at h) kr hkr r hr'
  exact ⟨k, hk, (groupKeyEq_iff k kr.1).2 he⟩
/-- **one group per key class, for ALL keys** (NaN and ±0.0 included): different groups have inequivalent keys —
    together with the two facts above: one output row per key, holding exactly the rows of that key -/
theorem groups_one_per_key {α : Type} (rows : List (List Value × α)) (hr : rows ≠ []) :
    (normKeys (groupRows false rows)).Nodup := by
  rw [groupRows_eq_fold rows hr]
  exact groupFold_nodup rows [] List.nodup_nil
/-- Cypher: an aggregation without grouping keys over no rows still yields one row -/
theorem no_keys_empty_input {α : Type} : groupRows true ([] : List (List Value × α)) = [([], [])] := rfl

/-! ### non-vacuity -/

def F0 : FArith := ⟨fun a b => a + b, fun a _ => a, fun a _ => a, fun a _ => a, fun a _ => a, fun a _ => a⟩
def E0 : Env := ⟨F0, fun _ => none, fun _ => false, fun _ _ => .null, fun _ _ => .null, fun _ _ _ => .null⟩
example : Agg.sum F0 [.int 9223372036854775807, .null, .int (-2), .str [0x61]] = .int 9223372036854775805 := by decide
/-- overflow ⇒ Float (here with a dummy float addition), in range again ⇒ exact Int: the total decides -/
example : isFloatV (Agg.sum F0 [.int 9223372036854775807, .int 1]) = true ∧
    Agg.sum F0 [.int 9223372036854775807, .int 1, .int (-2)] = .int 9223372036854775806 := by decide
example : prefixOk 0 [.int 9223372036854775806, .int 1, .int (-5)] = true := by decide
example : ordOK E0 (Spec.nonNull [.int 3, .null, .float 0x3FF0000000000000, .str [0x61]]) = true := by decide
example : Agg.min E0 [.int 3, .null, .float 0x3FF0000000000000] = .float 0x3FF0000000000000 ∧
    Agg.max E0 [.int 1, .float 0x3FF0000000000000] = .float 0x3FF0000000000000 := by decide
example : distinctVals [.int 1, .null, .float 0x3FF0000000000000, .int 1, .float 0x8000000000000000, .float 0,
      .float 0x7FF8000000000000, .float 0xFFF8000000000001]
    = [.int 1, .float 0x3FF0000000000000, .float 0x8000000000000000, .float 0x7FF8000000000000] := by decide
example : (groupRows false [([.float 0x7FF8000000000000], 0), ([.float 0], 1), ([.float 0xFFF8000000000001], 2),
      ([.float 0x8000000000000000], 3)]) = [([.float 0x7FF8000000000000], [0, 2]), ([.float 0], [1, 3])] := by decide
example : (groupRows false [([.int 1], "a"), ([.str [0x78]], "b"), ([.int 1], "c")])
    = [([.int 1], ["a", "c"]), ([.str [0x78]], ["b"])] := by decide

/-! ### counterexamples -/

/-- **fixed finding (pinned tree)**: `sum([i64::MAX, 1])` wrapped to `i64::MIN` (`as i64` of the i128 total),
    for every float arithmetic -/
theorem counterexample_pinned_sum_wraps (F : FArith) :
    Agg.Pinned.sum F [.int 9223372036854775807, .int 1] = .int (-9223372036854775808) := by
  rw [pinned_sum_spec F _ (by decide)]; decide

/-- **fixed finding (pinned tree) C21-nan-grouping**: `==` on values is the derived `PartialEq` (NaN ≠ NaN): two
    NaN rows made two groups for the one key, and DISTINCT kept both -/
theorem counterexample_pinned_nan_groups :
    Agg.Pinned.groupKeyEq [.float 0x7FF8000000000000] [.float 0x7FF8000000000000] = false ∧
    Agg.Pinned.dedupInto [] [.float 0x7FF8000000000000, .float 0x7FF8000000000000]
      = [.float 0x7FF8000000000000, .float 0x7FF8000000000000] := by decide

/-- **fixed finding (pinned tree) C21-zero-sign-grouping**: 0.0 == −0.0 (and DISTINCT merged them) but the
    `HashMap<Vec<Value>, _>` split the key, because `Hash` feeds bit patterns -/
theorem counterexample_pinned_zero_sign_groups :
    deq (.float 0) (.float 0x8000000000000000) = true ∧
    Agg.Pinned.groupKeyEq [.float 0] [.float 0x8000000000000000] = false ∧
    Agg.Pinned.dedupInto [] [.float 0, .float 0x8000000000000000] = [.float 0] := by decide

end Nervus.Props.C21
