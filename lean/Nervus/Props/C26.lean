/-
  C26 — The on-disk B-tree behaves as a sorted multimap.
  Statements only (helper lemmas live in Nervus.Proofs.BTree*).
  Model: Nervus.Model.BTree (mirrors nervusdb-storage/src/index/btree.rs; layout constants and the
  shape of the binary searches / cursor advance regenerated from the source in Generated/Sizes).
  Spec: Nervus.Spec.Multimap.

  Verdict on the pinned tree: FALSE.
    * fixed (repo 7a5bc10): cursor advance stopped at a leaf emptied by deletes — scans lost entries
      even with pairwise distinct keys.  With the fix `Cfg.real` has `advSkipsEmpty = true`.
    * known  C26-equal-keys     : equal keys (the engine's index keys ARE equal for equal values):
      lower-bound scans miss pairs, lookup is not the newest pair, delete misses stored pairs.
    * known  C26-split-overflow : leaves are split by COUNT; a half can exceed a page and
      rebuild_leaf(...).unwrap() panics (internal pages: Err after the leaf level was already written).
  `C26_partial` is the B-tree correctness theorem for every history outside these two triggers.
-/
import Nervus.Proofs.BTreeFit
import Nervus.Model.BTreeReal
namespace Nervus.Props.C26
open Nervus Nervus.BTree Nervus.Multimap

/-- what a reader can observe of a tree agrees with the multimap `m` -/
def Agrees {κ : Type} [KeyOrd κ] (c : Cfg) (t : Tree κ) (m : MM κ) : Prop :=
  scan c t = .ok m ∧ (∀ k, scanFrom c t k = .ok (lowerBound k m)) ∧ (∀ k, lookup c t k = .ok (Multimap.lookup k m))

/-- **C26 at full strength** (not provable: see the counterexamples): after ANY history every insert
    succeeds, every delete answers as the multimap does, and scans / lower-bound scans / lookups
    return the multimap's answers (a scan returns the stored pairs in key order, a lookup the most
    recently inserted pair of the key, a delete removes exactly the one pair) -/
def C26_full : Prop :=
  ∀ ops : List (Op Bytes),
    (run Cfg.real ops).2 = specOuts [] ops ∧ Agrees Cfg.real (run Cfg.real ops).1 (Multimap.run ops)

/-- no known finding is triggered: the history never stores two pairs with one key at the same
    time (C26-equal-keys) and no operation of the model ends in panic / Err (C26-split-overflow) -/
def NoTrigger {κ : Type} [KeyOrd κ] (c : Cfg) (ops : List (Op κ)) : Bool :=
  distinctKeys [] ops && allOk (run c ops).2

/-- the regenerated code shape is the one the proof is about (`k < target` in leaves, `k <= target`
    in internal pages, advance skips empty leaves); breaks at build time if the source changes -/
theorem real_std : Cfg.Std Cfg.real := ⟨by decide, by decide, by decide⟩

theorem real_firstPage : 0 < Cfg.real.firstPage := by decide

/-- **C26 (invariant)**: outside the triggers the page map stays a well-formed B-tree — sorted
    leaves, separators bound subtrees, every leaf at level 0, leaf chain = in-order traversal —
    holding exactly the multimap's pairs. -/
theorem C26_invariant {κ : Type} [KeyOrd κ] [LawfulKeyOrd κ] (c : Cfg) (hc : c.Std) (hfp : 0 < c.firstPage)
    (ops : List (Op κ)) (h : NoTrigger c ops = true) :
    ∃ g : Ghost κ, WF (run c ops).1.pages.get (run c ops).1.root (run c ops).1.next g ∧
      contents (run c ops).1.pages.get g.L = Multimap.run ops := by
  simp only [NoTrigger, Bool.and_eq_true] at h
  obtain ⟨g0, wf0, hc0⟩ := create_wf (κ := κ) c hfp
  obtain ⟨g, wf, hcont, _⟩ := runFrom_spec c hc ops (create c) g0 wf0 (by rw [hc0]; exact h.1) h.2
  have hrun : BTree.run c ops = runFrom c (create c) ops := rfl
  rw [hrun]
  exact ⟨g, wf, by rw [hcont, hc0]; rfl⟩

/-- **C26 (partial, the B-tree correctness theorem)**: for EVERY history outside the two triggers,
    over any lawful key order and any page size: every op answers as the multimap does, a scan
    returns exactly the stored pairs in key order, a lower-bound scan the pairs with key ≥ k, a
    lookup the pair stored for the key. -/
theorem C26_partial {κ : Type} [KeyOrd κ] [LawfulKeyOrd κ] (c : Cfg) (hc : c.Std) (hfp : 0 < c.firstPage)
    (ops : List (Op κ)) (h : NoTrigger c ops = true) :
    (run c ops).2 = specOuts [] ops ∧ Agrees c (run c ops).1 (Multimap.run ops) := by
  simp only [NoTrigger, Bool.and_eq_true] at h
  obtain ⟨g0, wf0, hc0⟩ := create_wf (κ := κ) c hfp
  obtain ⟨g, wf, hcont, houts⟩ := runFrom_spec c hc ops (create c) g0 wf0 (by rw [hc0]; exact h.1) h.2
  rw [hc0] at hcont houts
  have hrun : BTree.run c ops = runFrom c (create c) ops := rfl
  rw [hrun]
  refine ⟨houts, ?_, ?_, ?_⟩
  · rw [scan_spec c hc _ g wf, hcont]; rfl
  · intro k; rw [scanFrom_spec c hc _ g wf k, hcont]; rfl
  · intro k; rw [lookup_spec c hc _ g wf k, hcont]; rfl

/-- **C26 (keys fit ⇒ no overflow)**: a purely syntactic condition on the keys of the history.  If every
    inserted key's cell lengths lie in the bounds `B` and the bounds satisfy the fit condition `FitCfg`
    (for each page kind: ((H / (m + slot)) + 2) / 2 · (M + slot) ≤ H — with keys of one size simply
    "one cell fits a page", `fitCfg_uniform`), then on pairwise distinct keys no insert panics or errs
    unless the page ids are exhausted: the second trigger cannot fire -/
theorem C26_fit {κ : Type} [KeyOrd κ] [LawfulKeyOrd κ] (c : Cfg) (hc : c.Std) (hfp : 0 < c.firstPage)
    (B : Bounds) (fc : FitCfg c B) (ops : List (Op κ)) (hgood : goodOps c B ops)
    (hdist : distinctKeys [] ops = true) (hroom : (run c ops).1.next < c.maxPages) :
    NoTrigger c ops = true := by
  obtain ⟨g0, wf0, hc0⟩ := create_wf (κ := κ) c hfp
  have := runFrom_fit c hc B fc ops (create c) g0 wf0 (create_sized c B fc) (by rw [hc0]; exact hdist) hgood hroom
  simp only [NoTrigger, Bool.and_eq_true]
  exact ⟨hdist, this⟩

/-- … and therefore the B-tree is a sorted multimap on such histories -/
theorem C26_partial_fit {κ : Type} [KeyOrd κ] [LawfulKeyOrd κ] (c : Cfg) (hc : c.Std) (hfp : 0 < c.firstPage)
    (B : Bounds) (fc : FitCfg c B) (ops : List (Op κ)) (hgood : goodOps c B ops)
    (hdist : distinctKeys [] ops = true) (hroom : (run c ops).1.next < c.maxPages) :
    (run c ops).2 = specOuts [] ops ∧ Agrees c (run c ops).1 (Multimap.run ops) :=
  C26_partial c hc hfp ops (C26_fit c hc hfp B fc ops hgood hdist hroom)

/-- the partial theorem for the real layout and byte-string keys (what the `btree` stream runs) -/
theorem C26_partial_real (ops : List (Op Bytes)) (h : NoTrigger Cfg.real ops = true) :
    (run Cfg.real ops).2 = specOuts [] ops ∧ Agrees Cfg.real (run Cfg.real ops).1 (Multimap.run ops) :=
  C26_partial Cfg.real real_std real_firstPage ops h

/-- one step, for any well-formed tree: inserting a key that is not stored either fails
    (split overflow) or yields a well-formed tree with the multimap's contents -/
theorem C26_insert_step {κ : Type} [KeyOrd κ] [LawfulKeyOrd κ] (c : Cfg) (hc : c.Std) (t : Tree κ) (g : Ghost κ)
    (wf : WF t.pages.get t.root t.next g) (k : κ) (v : Nat)
    (hfresh : hasKey k (contents t.pages.get g.L) = false) (t' : Tree κ) (h : BTree.insert c t k v = (t', .ok)) :
    ∃ g', WF t'.pages.get t'.root t'.next g' ∧
      contents t'.pages.get g'.L = Multimap.insert k v (contents t.pages.get g.L) :=
  insert_spec c hc t g wf k v hfresh t' h

/-- one step, for any well-formed tree: delete never fails, answers as the multimap and removes
    exactly the one pair -/
theorem C26_delete_step {κ : Type} [KeyOrd κ] [LawfulKeyOrd κ] (c : Cfg) (hc : c.Std) (t : Tree κ) (g : Ghost κ)
    (wf : WF t.pages.get t.root t.next g) (k : κ) (v : Nat) :
    ∃ t' b, BTree.delete c t k v = (t', .found b) ∧ WF t'.pages.get t'.root t'.next g ∧
      (b, contents t'.pages.get g.L) = Multimap.delete k v (contents t.pages.get g.L) :=
  delete_spec c hc t g wf k v

/-! ### non-vacuity: histories that meet the hypotheses and exercise every code path
    (real layout on a 64-byte page: 3 cells per leaf, 2 per internal page) -/

def tiny : Cfg := Cfg.small 64

/-- 20 distinct keys in scrambled order (leaf splits, internal splits, root splits: 3 levels), then
    deletes that empty a leaf in the middle of the chain, two failing deletes, and re-inserts -/
def exampleOps : List (Op Nat) :=
  (List.range 20).map (fun i => Op.insert (i * 7 % 20) i) ++
  [.delete 4 12, .delete 5 15, .delete 6 18, .delete 6 18, .delete 7 99, .insert 5 100, .insert 25 101]

example : NoTrigger tiny exampleOps = true := by decide +kernel
example : Cfg.Std tiny := ⟨by decide, by decide, by decide⟩
/-- the example tree has four levels (17 pages; the last insert goes into a leaf that deletes had
    emptied but whose cell bytes are not reclaimed, so it splits 0 + 1 and splits the root again) -/
example : (run tiny exampleOps).1.root = 18 ∧ (run tiny exampleOps).1.next = 19 := by decide +kernel
example : scan tiny (run tiny exampleOps).1 = .ok (Multimap.run exampleOps) := by decide +kernel
/-- the hypotheses of the one-step theorems: the empty tree is well formed -/
example : ∃ g : Ghost Nat, WF (create tiny : Tree Nat).pages.get (create tiny : Tree Nat).root (create tiny : Tree Nat).next g :=
  (create_wf tiny (by decide)).imp fun _ h => h.1

/-- the fit condition holds for the real layout with keys of 16 … 24 bytes (property-store and index
    keys: leaf cells 25 … 33 bytes, internal cells the same) and for 3 KB keys of one size -/
example : FitCfg Cfg.real ⟨25, 33, 25, 33⟩ := by constructor <;> decide
example : FitCfg Cfg.real ⟨3010, 3010, 3010, 3010⟩ :=
  fitCfg_uniform Cfg.real 3010 3010 (by decide) (by decide) (by decide) (by decide) (by decide) (by decide) (by decide)
/-- … but NOT for a mix of 1-byte and 3 KB keys (the split-overflow counterexample's sizes) -/
example : ¬ FitCfg Cfg.real ⟨10, 3011, 10, 3011⟩ := fun h => absurd h.leaf (by decide)

/-! ### counterexamples (closed terms, kernel evaluated; real-size witnesses are replayed on the
    implementation from corpus/btree/) -/

def ins (ks : List Nat) : List (Op Nat) := (ks.zip (List.range ks.length)).map (fun (k, i) => Op.insert k i)

/-- four equal keys: the run straddles a leaf split, the separator equals the key and sends the
    lower-bound search to the right half — a lower-bound scan sees 2 of the 4 stored pairs -/
theorem C26_counterexample_equal_keys_scan :
    scanFrom tiny (run tiny (ins [3, 3, 3, 3])).1 3 = .ok [(3, 3), (3, 0)] ∧
    lowerBound 3 (Multimap.run (ins [3, 3, 3, 3])) = [(3, 3), (3, 2), (3, 1), (3, 0)] := by decide +kernel

/-- lookup does not return the most recently inserted pair: the split places the new pair by
    `binary_search_by` (any matching index), not in front of the equal keys -/
theorem C26_counterexample_equal_keys_lookup :
    lookup tiny (run tiny (ins [1, 3, 5, 3])).1 3 = .ok (some 1) ∧
    Multimap.lookup 3 (Multimap.run (ins [1, 3, 5, 3])) = some 3 := by decide +kernel

/-- delete misses a stored pair, inside ONE leaf and without any split: the leaf is not ordered by
    payload, so the (key, payload) binary search is unsound -/
theorem C26_counterexample_equal_keys_delete :
    (BTree.delete tiny (run tiny (ins [3, 3, 1])).1 3 0).2 = .found false ∧
    (Multimap.delete 3 0 (Multimap.run (ins [3, 3, 1]))).1 = true := by decide +kernel

/-- the full-strength statement fails on that history (same layout, 64-byte page) -/
theorem C26_counterexample_full_small :
    ¬ ((run tiny (ins [3, 3, 3, 3])).2 = specOuts [] (ins [3, 3, 3, 3]) ∧
       Agrees tiny (run tiny (ins [3, 3, 3, 3])).1 (Multimap.run (ins [3, 3, 3, 3]))) := by
  intro h
  have := h.2.2.1 3
  rw [C26_counterexample_equal_keys_scan.1] at this
  revert this
  decide +kernel

/-- **`C26_full` is false at the real page size**: five inserts of one 2000-byte key (four cells fill a
    leaf, the fifth splits it) — the lower-bound scan returns three of the five stored pairs -/
theorem C26_counterexample_full : ¬ C26_full := by
  intro h
  have := (h ((List.range 5).map (fun i => Op.insert (List.replicate 2000 0x2e) i))).2.2.1
    (List.replicate 2000 0x2e)
  revert this
  decide +kernel

def k1 (b : UInt8) : Bytes := [b]
def k25 (b : UInt8) : Bytes := b :: List.replicate 24 0x2e

/-- split by COUNT overflows a page (128-byte page, real layout): two 1-byte keys and two 25-byte
    keys fill a leaf; inserting a third 25-byte key splits 5 cells into 2 + 3 and the three long
    cells (108 bytes) do not fit the 104 usable bytes: `rebuild_leaf(...).unwrap()` panics, with
    pairwise distinct keys.  The spec says the insert succeeds. -/
theorem C26_counterexample_split_overflow :
    (run (Cfg.small 128) [.insert (k1 1) 1, .insert (k1 2) 2, .insert (k25 7) 3, .insert (k25 8) 4,
      .insert (k25 9) 5]).2 = [.ok, .ok, .ok, .ok, .panic] ∧
    distinctKeys [] [Op.insert (k1 1) 1, .insert (k1 2) 2, .insert (k25 7) 3, .insert (k25 8) 4,
      .insert (k25 9) 5] = true := by decide +kernel

/-- with the pinned `advance` (no skipping of empty leaves) a scan stops at a leaf emptied by
    deletes although all keys are distinct — the defect fixed by repo commit 7a5bc10 -/
theorem C26_counterexample_empty_leaf_before_fix :
    scan { tiny with advSkipsEmpty := false }
      (run { tiny with advSkipsEmpty := false }
        (ins [1, 2, 3, 4, 5, 6, 7] ++ [.delete 3 2, .delete 4 3])).1 = .ok [(1, 0), (2, 1)] ∧
    Multimap.run (ins [1, 2, 3, 4, 5, 6, 7] ++ [.delete 3 2, .delete 4 3]) =
      [(1, 0), (2, 1), (5, 4), (6, 5), (7, 6)] := by decide +kernel

end Nervus.Props.C26
