/-
  C16 — Query processing never crashes the host.   PARTIAL PROOF BY DESIGN.
  What is proved here: (a) facts about the nesting structure of the recursive-descent parser (Nervus.Model.Depth) and
  the absence of any bound on it; (b) decisions on the regenerated table of operator loops / timeout checks
  (Generated.ExecLimits).  What is not proof: (c) arbitrary text through the parser and every built-in — exercised by the
  `crash` stream in child processes (search).  Statements only (lemmas: Nervus.Proofs.Depth).
-/
import Nervus.Proofs.Depth
namespace Nervus.Props.C16
open Nervus.Depth

/-! ### (a) recursion depth -/

/-- **C16 (depth) at full strength**: there is a configured bound, the parser refuses what exceeds it, and whatever it
    accepts keeps both the parser's recursion and the AST depth within that bound. -/
def C16_full_depth : Prop :=
  ∃ bound : Nat, Generated.parserDepthLimit = some bound ∧
    ∀ e : E, withinLimit e = true → parserDepth e ≤ bound ∧ astDepth e ≤ bound

/-- what the source says today: no nesting-depth limit in the parser (regenerated table) -/
theorem parser_has_no_depth_limit : Generated.parserDepthLimit = none := by decide

/-- hence the full statement is false on the pinned tree -/
theorem C16_full_depth_false : ¬ C16_full_depth := fun ⟨b, hb, _⟩ => by
  rw [parser_has_no_depth_limit] at hb; cases hb

/-- the recursion is bounded only by the input length: depth ≤ AST depth ≤ number of tokens (for every expression) -/
theorem depth_le_input_length (e : E) : parserDepth e ≤ astDepth e ∧ astDepth e ≤ tokens e :=
  ⟨parserDepth_le_astDepth e, astDepth_le_tokens e⟩

/-- **counterexample (parser recursion)**: for every bound there is an accepted input of linear size — `((((…1))))`,
    `[[[…]]]`, `NOT NOT … true` — whose parse recursion exceeds it. -/
theorem counterexample_unbounded_parser_depth (bound : Nat) :
    ∃ e : E, tokens e ≤ 2 * bound + 3 ∧ withinLimit e = true ∧ parserDepth e > bound :=
  ⟨nest (bound + 1), by have := nest_facts (bound + 1); omega, by simp [withinLimit, parser_has_no_depth_limit],
    by have := nest_facts (bound + 1); omega⟩

/-- **counterexample (AST depth without parser recursion)**: `1 + 1 + … + 1` and `m.a.a.a…` are parsed by loops
    (recursion depth ≤ 2) but produce an AST of depth `n + 1`: a depth guard on the parser's recursion alone would
    not protect validation, planning, evaluation and Drop. -/
theorem counterexample_flat_chain_deep_ast (bound : Nat) :
    ∃ e : E, parserDepth e ≤ 2 ∧ astDepth e > bound ∧ tokens e = 2 * (bound + 1) + 1 :=
  ⟨chain (bound + 1), (chain_facts _).2.1, by have := (chain_facts (bound + 1)).2.2; omega, (chain_facts _).1⟩

/-- the existing complexity guard (step budget) never trips on these inputs: it bounds work, not depth -/
theorem step_budget_does_not_bound_depth (e : E) : steps e ≤ stepBudget (tokens e) := steps_le_budget e

/-! ### (b) timeouts: decisions on the regenerated table -/

def loopsOf (cls : String) : List (String × String × Nat × String) :=
  Generated.operatorLoops.filter (fun r => r.2.2.2 == cls)

/-- every plan operator is created through `execute_plan`, which wraps it in the runtime guard, and the guard checks
    the soft timeout before every row it hands on: every loop that *pulls rows from a plan operator* passes a
    `check_timeout` site per iteration. -/
theorem operator_pulls_pass_timeout_check :
    Generated.guardWrapsEveryPlan = true ∧ Generated.guardChecksTimeoutPerRow = true := by decide

/-- **C16 (timeout) at full strength**: every loop of the execution operators passes a `check_timeout` site. -/
def C16_full_timeout : Prop := loopsOf "plain" = []

/-- decided on the table: false — 45 functions loop over materialised rows / values / neighbours without a timeout
    check of their own (bounded only by the row and collection limits) -/
theorem timeout_coverage :
    (loopsOf "checks").length = 4 ∧ (loopsOf "pulls").length = 19 ∧ (loopsOf "plain").length = 45 := by decide

theorem C16_full_timeout_false : ¬ C16_full_timeout := fun h => by
  have := timeout_coverage.2.2
  rw [show loopsOf "plain" = [] from h] at this
  cases this

/-- the guard keeps reporting the timeout on every call and never ends (no fuse) … -/
theorem guard_never_ends_after_error : Generated.guardEndsAfterError = false := by decide
/-- … so a consumer must stop at the first error; `execute_mixed` does (after fix 8d92621; before it collected the
    endless error stream: a read statement that hit its timeout hung forever — corpus/crash/timeout-hang.ops) -/
theorem execute_mixed_stops_at_first_error : Generated.executeMixedCollectsBeforeChecking = false := by decide

/-! ### non-vacuity -/
example : parserDepth (nest 3) = 4 ∧ tokens (nest 3) = 7 := by decide
example : parserDepth (chain 5) = 2 ∧ astDepth (chain 5) = 6 := by decide
example : parserDepth (.infix (.prefix (.group .atom)) (.postfix (.group (.infix .atom .atom)))) = 4 := by decide
example : (loopsOf "checks").map (fun r => r.2.1) = ["next", "execute_optional_where_fixup", "execute_order_by", "execute_aggregate"] := by
  decide

end Nervus.Props.C16
