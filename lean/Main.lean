import Nervus.Driver.Util
import Nervus.Driver.OKey
import Nervus.Driver.Crash
open Nervus.Driver

/-- stream registry: one line per stream (kept one-per-line so that merges are unions) -/
def streams : List (String × Stream) := [
  ("okey", OKeyStream.stream),
  ("crash", CrashStream.stream),
  ("fault", CrashStream.faultStream)
]

def main (args : List String) : IO UInt32 := do
  match args with
  | [name] =>
    match streams.lookup name with
    | some S =>
      loop (← IO.getStdin) (← IO.getStdout) S S.init
      return 0
    | none => IO.eprintln s!"unknown stream {name}"; return 2
  | _ => IO.eprintln "usage: nervus_driver <stream>"; return 2
