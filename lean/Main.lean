import Nervus.Driver.Util
import Nervus.Driver.Agg
import Nervus.Driver.BTree
import Nervus.Driver.Backup
import Nervus.Driver.Bulk
import Nervus.Driver.Capi
import Nervus.Driver.CapiLbl
import Nervus.Driver.CapiSched
import Nervus.Driver.Capix
import Nervus.Driver.Codec
import Nervus.Driver.Crash
import Nervus.Driver.Cypher
import Nervus.Driver.Cypher14
import Nervus.Driver.CypherUpdate
import Nervus.Driver.Engine
import Nervus.Driver.ExtId
import Nervus.Driver.Handles
import Nervus.Driver.Hnsw
import Nervus.Driver.HostCrash
import Nervus.Driver.Index
import Nervus.Driver.Locks
import Nervus.Driver.OKey
import Nervus.Driver.Pager
import Nervus.Driver.PlanOps
import Nervus.Driver.SnapSched
import Nervus.Driver.Sort
import Nervus.Driver.Vacuum
import Nervus.Driver.Value
import Nervus.Driver.WalFrame
open Nervus.Driver

/-- stream registry: one self-contained line per stream (merges are unions; run tools/fixmain.py after a merge) -/
def streams : List (String × Stream) := ([] : List (String × Stream))
  |>.cons ("okey", OKeyStream.stream)
  |>.cons ("codec", CodecStream.stream)
  |>.cons ("walframe", WalFrameStream.stream)
  |>.cons ("capi_sched", CapiSchedStream.stream)
  |>.cons ("locks", LocksStream.stream)
  |>.cons ("handles", HandlesStream.stream)
  |>.cons ("snapsched", SnapSchedStream.stream)
  |>.cons ("backup", BackupStream.stream)
  |>.cons ("query", CypherStream.stream)
  |>.cons ("querystat", CypherStream.statStream)
  |>.cons ("update", UpdateStream.stream)
  |>.cons ("btree", BTreeStream.stream)
  |>.cons ("pager", PagerStream.stream)
  |>.cons ("vacuum", VacuumStream.stream)
  |>.cons ("plan", PlanStream.stream)
  |>.cons ("planlim", PlanStream.stream)
  |>.cons ("planwhere", PlanStream.stream)
  |>.cons ("value", ValueStream.stream)
  |>.cons ("sort", SortStream.stream)
  |>.cons ("agg", AggStream.stream)
  |>.cons ("index", IndexStream.stream)
  |>.cons ("hnsw", HnswStream.stream)
  |>.cons ("engine", EngineStream.stream)
  |>.cons ("engine_reopen", EngineStream.streamReopen)
  |>.cons ("engine_compact", EngineStream.streamCompact)
  |>.cons ("engine_abort", EngineStream.streamAbort)
  |>.cons ("bulk", BulkStream.stream)
  |>.cons ("cypher14", Cypher14.stream)
  |>.cons ("extid", ExtIdStream.stream)
  |>.cons ("capi", CapiStream.stream)
  |>.cons ("capiryw", CapiStream.streamRyw)
  |>.cons ("capilbl", CapiLblStream.stream)
  |>.cons ("capix", CapixStream.stream)
  |>.cons ("hostcrash", HostCrashStream.stream)
  |>.cons ("crash", CrashStream.stream)
  |>.cons ("fault", CrashStream.faultStream)

def main (args : List String) : IO UInt32 := do
  match args with
  | [name] =>
    match streams.lookup name with
    | some S =>
      loop (← IO.getStdin) (← IO.getStdout) S S.init
      return 0
    | none => IO.eprintln s!"unknown stream {name}"; return 2
  | _ => IO.eprintln "usage: nervus_driver <stream>"; return 2
