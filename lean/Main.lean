import Nervus.Driver.Util
import Nervus.Driver.OKey
import Nervus.Driver.Engine
import Nervus.Driver.Bulk
import Nervus.Driver.Cypher14
open Nervus.Driver

/-- stream registry: one line per stream (kept one-per-line so that merges are unions) -/
def streams : List (String × Stream) := [
  ("okey", OKeyStream.stream),
  ("engine", EngineStream.stream),
  ("engine_reopen", EngineStream.streamReopen),
  ("engine_compact", EngineStream.streamCompact),
  ("engine_abort", EngineStream.streamAbort),
  ("bulk", BulkStream.stream),
  ("cypher14", Cypher14.stream)
]

def main (args : List String) : IO UInt32 := do
  match args with
  | [name] =>
    match streams.lookup name with
    | some S =>
      loop (← IO.getStdin) (← IO.getStdout) S S.init
      return 0
    | none => IO.eprintln s!"unknown stream {name}"; return 2
  | _ => IO.eprintln "usage: nervus_driver <stream>"; return 2
