import Nervus.Driver.Util
import Nervus.Driver.OKey
import Nervus.Driver.Codec
import Nervus.Driver.WalFrame
import Nervus.Driver.CapiSched
import Nervus.Driver.Locks
import Nervus.Driver.Handles
import Nervus.Driver.SnapSched
import Nervus.Driver.Backup
open Nervus.Driver

/-- stream registry: one line per stream (kept one-per-line so that merges are unions) -/
def streams : List (String × Stream) := [
  ("okey", OKeyStream.stream),
  ("codec", CodecStream.stream),
  ("walframe", WalFrameStream.stream)
  ("capi_sched", CapiSchedStream.stream),
  ("locks", LocksStream.stream),
  ("handles", HandlesStream.stream),
  ("snapsched", SnapSchedStream.stream),
  ("backup", BackupStream.stream)
]

def main (args : List String) : IO UInt32 := do
  match args with
  | [name] =>
    match streams.lookup name with
    | some S =>
      loop (← IO.getStdin) (← IO.getStdout) S S.init
      return 0
    | none => IO.eprintln s!"unknown stream {name}"; return 2
  | _ => IO.eprintln "usage: nervus_driver <stream>"; return 2
