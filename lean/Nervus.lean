import Nervus.Model.Bytes
import Nervus.Model.OKey
import Nervus.Spec.OrderedValue
import Nervus.Props.C27
