import Nervus.Model.Bytes
import Nervus.Model.OKey
import Nervus.Spec.OrderedValue
import Nervus.Props.C27
import Nervus.Model.ExtId
import Nervus.Props.C32
