import Nervus.Model.Bytes
import Nervus.Model.OKey
import Nervus.Spec.OrderedValue
import Nervus.Props.C27
import Nervus.Props.C22
import Nervus.Props.C33
import Nervus.Props.C19
