import Nervus.Model.Bytes
import Nervus.Model.OKey
import Nervus.Spec.OrderedValue
import Nervus.Props.C27
import Nervus.Model.PropVal
import Nervus.Model.WalRec
import Nervus.Model.Crc32
import Nervus.Props.C25
