import Nervus.Model.Bytes
import Nervus.Model.OKey
import Nervus.Spec.OrderedValue
import Nervus.Props.C27
import Nervus.Model.BTree
import Nervus.Model.BTreeReal
import Nervus.Spec.Multimap
import Nervus.Props.C26
