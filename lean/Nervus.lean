import Nervus.Model.Bytes
import Nervus.Model.OKey
import Nervus.Spec.OrderedValue
import Nervus.Props.C27
import Nervus.Model.Index
import Nervus.Spec.IndexFree
import Nervus.Props.C15
